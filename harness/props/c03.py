"""C03 -- version comparison agrees with dpkg and is a consistent total preorder.

spec:      spec/DpkgVersion.tla    pure operators over code points: dpkg reference (Parse, Verrevcmp,
                                   DpkgCmp), implementation layer transcribed from NativeVersion
                                   (ISplit, Runs, IOrder, ICmpString, ICmpPart, ICompare, IHashKey)
                                   and Canon, the design of a hash key
           spec/DpkgVersionMC.tla  bounded-exhaustive enumeration of pairs / triples of version strings;
                                   invariants Agree SplitAgree Antisym Trichotomy Reflexive Trans
                                   HashConsistent HashImpl; prints CASE lines (pair, expected sign,
                                   expected hash-key equality) and the OPS table
           spec/TraceDpkgVersion.tla  trace validation on concrete code points
           spec/DpkgVersionObj.tla object-level layer: object = [full, cached key]; Assign* (full_version /
                                   epoch / upstream_version / debian_revision) recompute the key; KeyFresh,
                                   Agree, HashConsistent in the closed state space; prints MUT lines.
                                   Derive21 / Derive12: one object is DERIVED from the other, live one
                                   (variable kin); the two are independent from then on (action property
                                   Independent, invariant Related): an assignment to one never changes how
                                   the other compares / hashes
binding:   (a) spec -> code: the CASE lines -- ALL 24 025 pairs of part strings of <= 3 characters over
               0 1 a . ~ (MC_DpkgVersion_exh.cfg), each in upstream AND in revision position (TLC invariant
               RevPosition), ALL pairs of the triples configuration, and a checksum-selected sample of the big
               configurations, different for every seed -- are replayed into
               Version(a) < <= == != >= > Version(b), version_compare(a, b) and hash(); each abstract case
               is concretized by order-isomorphic code points (other letters / digits).  Every pair is
               compared TWICE with the other comparisons of its chunk in between, in both operand orders,
               on POOLED Version objects that meet many partners (a third of the pool is deleted and
               re-created between the rounds), with a plain-string operand on either side, and on fresh
               temporaries that die after each operator (id() reuse).  The MUT lines are replayed as
               compare - assign (full_version or one component) - compare again on the same object.
               RELATED objects (MUT / REJ lines with kin "2from1" / "1from2", ALL accepted assignments of the
               closed space, every second refused one): b is derived from the live object a -- or a from the
               pooled object b -- through a rotating public way (Version(o), NativeVersion(o),
               changelog.Version(o), Version(BaseVersion(o)), copy.copy, copy.deepcopy, pickle,
               ChangeBlock(version=o).version), both stay alive, a is assigned, and then a AND b must compare and
               hash as TLC says for the strings they hold, also against fresh objects of their own strings.
           (b) code -> spec: random and near-equal pairs / triples / quadruples over the full valid
               alphabet are run through the real code -- pooled objects, string operands, fresh
               temporaries, an object MUTATED through every string of the trace (full_version and
               component-wise), BOUNDARY-MOVING component assignments (revision / epoch set to None with
               '-' / ':' in the upstream part, '-' / ':' brought in by the assigned value: the string then
               splits elsewhere), then everything again on partly re-created objects -- and every recorded
               comparison is validated by TLC against the string the object holds at that moment.
               Related objects occur inside these ordinary histories: the walking object m is (two traces of
               three) derived from the live long-lived object 0, which goes on being compared after every
               assignment to m; before each assignment a snapshot is derived from m and compared afterwards
               (with m, with a fresh object of its own string; the first snapshot survives the whole walk);
               the object of every boundary-moving / refused assignment has a live twin (alternately its
               source and its copy) that is compared after the assignment as the OLD string says
           file-object kinds and block alignment (notes/SIZE_STRESS.md part 4): wherever a changelog text is
               parsed (constructor variant "Changelog.version", the Changelog lookup of every trace) it is handed
               in as str / bytes / StringIO / BytesIO / list and generators of lines / real files (text;
               binary unbuffered) / BufferedReader over short reads / GzipFile / BZ2File / LZMAFile /
               SpooledTemporaryFile, and on a third (constructor variant: a quarter) of the cases a change line is padded so that the header line
               carrying the version (or the whole text) ends one before / at / one after 512 ... 8192, now and
               then 16384 ... 131072 (ctx.extra file_object_kinds, aligned_cases); the result is form-independent
           size dimension (notes/SIZE_STRESS.md), in both legs: every 4th replayed case is concretized by
               a SOUND size transformation of the abstract pair (argument at stress_part): every non-digit
               character repeated k times (k up to 50: long letter runs, '~' chains), z zeros appended to
               every digit run (all numbers x 10^z, z up to 30: beyond 2^64), and leading zeros prepended to
               digit runs (runs of up to 40 digits); a quarter of the recorded traces is built from digit
               runs of 1..40 digits with 0..39 leading zeros around 2^31 2^32 2^53 2^63 2^64 10^18 10^19,
               letter runs / '~' chains up to 100, 50+ alternations and long epochs (<= 120 code points,
               validated by TLC directly: the reference compares digit runs as strings)
           token-prefix family (structured, in the trace leg): x vs x + suffix for every suffix of <= 3 tokens
               over zero number / non-zero number / letters / '~' / '.' / '+' and 8 prefixes, in upstream and in
               revision position (one- and two-token suffixes always, three-token ones on a rotating share in quick)
           REJECTED assignments (object layer Reject*, REJ lines; reject traces): regex-level junk, values of a
               wrong type, ':' without a numeric epoch, non-numeric epochs, on full_version / epoch /
               upstream_version / debian_revision: after the refused call the object must print, compare and hash
               exactly as before (also against a fresh object of its own string) and a later valid assignment
               must work.  upstream_version = None and debian_revision = "" are unspecified (DESIGN C14) and not used.
           (c) `dpkg --compare-versions` as a second, external oracle on a sample of the recorded pairs
               (thorough: ~5000, quick: a handful); skipped with a note when dpkg is absent
spec-level negative controls (re-run in every check, TLC must report the violation):
           HashOnString = TRUE  -> HashConsistent violated;  TildeOrderZero = TRUE -> Agree violated;
           StaleKey = TRUE (object layer: the key survives an assignment) -> Agree, HashConsistent violated;
           NoResplit = TRUE (object layer: after a component assignment the recomposed string is not split
           again: stale components after a boundary move) -> Agree, HashConsistent violated;
           PartialOnReject = TRUE (object layer: a rejected assignment leaves the assigned components
           behind before it raises) -> Agree, HashConsistent violated;
           SharedOnCopy = TRUE (object layer: a derived object shares the parsed components with its source; a
           component assignment to one is written into what the other reads) -> Agree, HashConsistent violated
           (also Independent, KeyFresh; tried by hand)
API surface (notes/API_SURFACE.md): every public way of building, comparing, ordering, hashing and mutating
versions, and where it is exercised (all in the quick tier, rotating; same TLC verdicts; the objects of
one chunk / trace come from DIFFERENT variants and are queried through all of them):
  entry point / variant                                   exercised by
  ------------------------------------------------------  -------------------------------------------------
  Version(str)                                            replay pool, traces (make_obj "Version")
  NativeVersion(str) (the class behind the alias)         replay pool, traces ("NativeVersion")
  AptPkgVersion(str)                                      out of domain: raises NotImplementedError, apt_pkg absent
  BaseVersion(str) (no comparison of its own)             as RIGHT operand of a Version (battery variant), and as
                                                          source of a copy construction
  Version(Version) / Version(BaseVersion) / NativeVersion(Version)   replay pool, traces ("copy of Version" ...)
  debian.changelog.Version (re-export)                    replay pool, traces ("changelog.Version")
  ChangeBlock(version=s).version                          replay pool, traces ("ChangeBlock.version")
  Changelog(text).version / get_version() / versions      replay pool, traces ("Changelog.version", rare: parse cost);
                                                          text as str / bytes / text and binary file objects of every
                                                          kind / iterables of lines, block-aligned (FILE_KINDS)
  Changelog[str] / Changelog[Version] (lookup by ==)      traces: coll.clidx, judged by TLC (first equal block)
  Packages({'Version': s}).get_version() (deb822 mixin)   replay pool, traces ("deb822 get_version"); Dsc/Changes/
                                                          BuildInfo share the same mixin method
  pickle.loads(pickle.dumps(v)), copy.copy, copy.deepcopy replay pool, traces ("pickle", "copy", "deepcopy")
  the same ways applied to a LIVE object that stays in use and is assigned afterwards / whose copy is
  assigned afterwards (Version(o), NativeVersion(o), changelog.Version(o), Version(BaseVersion(o)),
  copy.copy(o), copy.copy(Version(o)), copy.deepcopy(o), pickle, ChangeBlock(version=o).version)
                                                          MUT / REJ replay with kin (derive), trace walk (m derived
                                                          from object 0, snapshots of m), twins of the boundary /
                                                          reject traces; both directions (source or copy assigned)
  two objects built independently from the SAME string, one assigned    MUT lines with v1 = v2 and kin "none"
  < <= == != >= > on Version/Version                      every battery / event
  ... with a str operand on either side                   battery variants, trace events
  ... with a BaseVersion right operand                    battery variant
  version_compare(a, b) with str and with Version args    every battery (objects) / fresh-temporaries variant (str)
  hash(v), set(), dict keys                               heq in every observation; coll.nset
  sorted(), list.sort, min(), max()                       traces: coll.order / mn / mx, judged by TLC
  sorted(key=cmp_to_key(version_compare))                 traces: coll.order2
  list.index / in (==)                                    traces: coll.idx
  str(v) -> Version(str(v)) equal, equal hash             boundary traces ("fresh object of its own string")
  repr(v)                                                 out of scope of C03 (printing: C14); not a verdict
  v.full_version = / v.epoch = / v.upstream_version = / v.debian_revision = / v.debian_version = (alias)
                                                          MUT replay (all five), trace walk, boundary traces
  refused assignments on each of the five attributes      REJ replay, reject traces (object unchanged afterwards)
  deprecated camelCase aliases                            none exist for the version API (only for unrelated
                                                          functions of debian_support)
  Version(None) / comparison with None                    out of domain: not a version string
domain:    DESIGN.md D2: only valid version strings, nothing from the unspecified zone (empty revision,
           ':' after the last hyphen, nothing before the last hyphen).  The trace module re-checks it
           (TDomain); a generator bug is a machinery failure, not a finding.
verdict observables: sign of every operator / version_compare, a == b => hash(a) == hash(b).
                     (for whatever string the object currently holds, whatever was compared before)
diagnostic only: hash collisions of unequal versions; an assignment that raises or does not produce the
           intended string (C14's subject) only skips the comparisons that depend on it; likewise a related
           object that PRINTS another string after its relative was assigned (full aliasing: printing is C14's
           subject, the comparisons then follow the printed string) only skips its comparisons.
"""
import bz2
import copy
import gzip
import io
import lzma
import random
import os
import re
import shutil
import subprocess

import core

MANIFEST = dict(
    technique="TLA+ spec over code points (dpkg reference Verrevcmp/DpkgCmp + implementation layer transcribed from NativeVersion + Canon hash-key design + object layer with Assign recomputing the cached key) model-checked by TLC on all pairs/triples up to a bound and on the closed state space of two mutable objects; TLC-emitted cases and assignments replayed into Version/version_compare/hash on long-lived, re-used, mutated objects; recorded comparisons over the full alphabet validated by TLC (TraceDpkgVersion); dpkg --compare-versions as external oracle",
    text="TLC enumerates every pair of single-component versions up to 3 (thorough 4) characters over 0 1 9 a . ~, every pair of complete versions (4 epochs x 3-6 revisions x upstream <= 2 over 0 1 ~, thorough 0 1 A a + . ~, with ':' and '-' where allowed) and every triple of a smaller universe, and checks that the transcription of NativeVersion's algorithm agrees with dpkg's, that the order is antisymmetric, total and transitive, and that the canonical hash key is exactly the kernel of the order (and that the implementation's key induces the same partition). An object-level layer (object = string + cached key; assignment of full_version or of one component, boundary-moving values included, recomputes the key from the decomposition of the recomposed string; a refused assignment leaves the object untouched) is explored to a fixed point, so agreement and hash consistency hold after any sequence of accepted and refused assignments; one object may be derived from the other, live one (copy construction, copy, deepcopy, pickle) and the two are independent from then on -- every such transition is replayed with the real objects, source or copy assigned, the other observed. All 24 025 pairs of part strings up to 3 characters over 0 1 a . ~ are replayed in upstream and in revision position; a seed-dependent sample of the larger enumerations plus all pairs of the small universe is replayed, with order-isomorphic concrete characters, into the six rich comparisons, version_compare and hash(): every pair twice with other comparisons in between, both operand orders, on pooled long-lived objects that meet many partners and are partly re-created, with plain-string operands, and on short-lived temporaries; TLC's assignment transitions are replayed as compare / assign / compare on the same object. Thousands of random and near-equal pairs/triples/quadruples (length up to ~45, leading zeros, '~' chains, epoch 0 vs absent, revision 0 vs absent, epochs beyond 2^32) are executed on the real code the same way, including an object that is walked through every string of the trace by assignment, and each recorded comparison is validated by TLC on the concrete code points of the string the object holds at that moment.",
    note="Small-scope for the exhaustive part (alphabet of 7-8 code points, bounded length; object layer: 48/80 versions, one mutated object); payload beyond it is sampled. Numbers are compared as digit strings in the reference (TLC integers are 32 bit); the implementation layer's int() is only model-checked on short runs. Trusted: TLC, the order-isomorphic concretizer, the observation wrapper, dpkg where present. Hash collisions of unequal versions are not a violation; an assignment that fails or recomposes another string (C14) only skips the dependent comparisons. Spec-level negative controls (HashOnString, TildeOrderZero, StaleKey, NoResplit, PartialOnReject, SharedOnCopy; two per quick run, rotating) and corrupted control traces are required to fail in every run.",
    design="5 (C03)")

WORKERS = min(8, core.NCPU)
JAVA = ["-Xmn256m"]          # bounded young generation: the interpreter allocates a lot of short-lived values
JAVA_SHORT = JAVA + ["-XX:TieredStopAtLevel=1"]      # runs of a few seconds: the C2 compiler costs more than it gains
OPKEYS = ("cmp", "lt", "le", "eq", "ne", "ge", "gt")
EXC = 99                     # logged instead of a sign when the code under test raised

LETTERS = [chr(c) for c in range(65, 91)] + [chr(c) for c in range(97, 123)]     # sorted by code point
DIGITS19 = "123456789"
PLAIN = "".join(LETTERS) + "0123456789" + ".+~"


def cps(s):
    return [ord(c) for c in s]


def text(cp):
    return "".join(chr(c) for c in cp)


# ------------------------------------------------------------------ observing the real code

def _guarded(obs):
    def guard(f):
        try:
            return f()
        except Exception as e:                      # noqa: broad on purpose
            obs.setdefault("exc", "%s: %s" % (type(e).__name__, e))
            return None
    return guard


def _sign(c):
    return (c > 0) - (c < 0) if isinstance(c, int) else c           # only the sign of version_compare is promised


def observe(sa, sb):
    """every verdict observable of one comparison on FRESH temporaries that die after each operator
    (a cache keyed by id() sees the addresses re-used); exceptions are observations"""
    from debian.debian_support import Version, version_compare
    obs = {}
    guard = _guarded(obs)
    obs["cmp"] = _sign(guard(lambda: version_compare(sa, sb)))
    obs["lt"] = guard(lambda: Version(sa) < Version(sb))
    obs["le"] = guard(lambda: Version(sa) <= Version(sb))
    obs["eq"] = guard(lambda: Version(sa) == Version(sb))
    obs["ne"] = guard(lambda: Version(sa) != Version(sb))
    obs["ge"] = guard(lambda: Version(sa) >= Version(sb))
    obs["gt"] = guard(lambda: Version(sa) > Version(sb))
    obs["heq"] = guard(lambda: hash(Version(sa)) == hash(Version(sb)))
    return obs


def observe_pair(L, R, hl, hr, cmp=True):
    """the same observables on GIVEN operands: L, R are Version objects or plain strings (at least one
    Version); hl, hr the Version objects whose hashes are compared; cmp=False leaves version_compare
    (which builds its own objects from str(L), str(R)) out"""
    from debian.debian_support import version_compare
    obs = {}
    guard = _guarded(obs)
    if cmp:
        obs["cmp"] = _sign(guard(lambda: version_compare(L, R)))
    obs["lt"] = guard(lambda: L < R)
    obs["le"] = guard(lambda: L <= R)
    obs["eq"] = guard(lambda: L == R)
    obs["ne"] = guard(lambda: L != R)
    obs["ge"] = guard(lambda: L >= R)
    obs["gt"] = guard(lambda: L > R)
    obs["heq"] = guard(lambda: hash(hl) == hash(hr))
    return obs


def judge(obs, exp_ops, exp_heq):
    """compare an observation with what TLC printed for the pair: exp_ops = OPS row of the expected
    sign, exp_heq = the canonical keys are equal.  Returns None or a message."""
    if "exc" in obs:
        return "the code raised %s" % obs["exc"]
    bad = [k for k in OPKEYS if k in obs and obs[k] != exp_ops[k]]
    if bad:
        return "specification (dpkg order) says sign %d, i.e. %s; observed %s" % (
            exp_ops["cmp"], {k: exp_ops[k] for k in bad}, {k: obs[k] for k in bad})
    if exp_heq and obs["heq"] is not True:
        return "versions compare equal (canonical keys equal) but their hashes differ"
    return None


CONSTRUCTORS = ("Version", "NativeVersion", "copy of Version", "copy of BaseVersion", "NativeVersion(Version)",
                "changelog.Version", "ChangeBlock.version", "deb822 get_version", "pickle", "copy", "deepcopy",
                "Changelog.version")
# rotation: the expensive parse of a changelog text only once per 24 objects
ROTATION = [0, 1, 2, 3, 6, 7, 8, 9, 10, 4, 5, 0, 2, 7, 8, 6, 1, 3, 9, 10, 5, 4, 11, 0]
CHANGELOG_BLOCK = "pkg (%s) unstable; urgency=low\n\n  * change\n\n -- A B <a@b.org>  Mon, 01 Jan 2024 00:00:00 +0000\n\n"
CONSTRUCTED = {}


class Broken:
    """stands for an object whose construction raised: the exception is an OBSERVATION -- every
    comparison / hash of it raises again, so the pair is judged (and never explained)"""

    def __init__(self, v, how, e):
        self.v = v
        self.msg = "constructing %r through %s raised %s: %s" % (v, how, type(e).__name__, e)

    def _boom(self, *a):
        raise RuntimeError(self.msg)
    __lt__ = __le__ = __eq__ = __ne__ = __ge__ = __gt__ = __hash__ = _boom

    def __str__(self):
        return self.v


def _base(v):
    from debian.debian_support import BaseVersion
    try:
        return BaseVersion(v)
    except Exception as e:                          # noqa
        return Broken(v, "BaseVersion", e)


def fresh(v):
    """Version(v); a constructor that raises is an observation, not a harness crash"""
    from debian.debian_support import Version
    try:
        return Version(v)
    except Exception as e:                          # noqa: broad on purpose
        return Broken(v, "Version", e)


def make_obj(v, k):
    """a comparable version object holding the string v, obtained through the k-th public way"""
    try:
        return _make_obj(v, k)
    except Exception as e:                          # noqa: broad on purpose
        return Broken(v, CONSTRUCTORS[ROTATION[k % len(ROTATION)]], e)


def _make_obj(v, k):
    import copy as _copy
    import pickle
    from debian import changelog, deb822, debian_support as ds
    name = CONSTRUCTORS[ROTATION[k % len(ROTATION)]]
    CONSTRUCTED[name] = CONSTRUCTED.get(name, 0) + 1
    if name == "Version":
        return ds.Version(v)
    if name == "NativeVersion":
        return ds.NativeVersion(v)
    if name == "copy of Version":
        return ds.Version(ds.Version(v))
    if name == "copy of BaseVersion":
        return ds.Version(ds.BaseVersion(v))
    if name == "NativeVersion(Version)":
        return ds.NativeVersion(ds.Version(v))
    if name == "changelog.Version":
        return changelog.Version(v)
    if name == "ChangeBlock.version":
        return changelog.ChangeBlock(package="pkg", version=v).version
    if name == "deb822 get_version":
        return deb822.Packages({"Package": "pkg", "Version": v}).get_version()
    if name == "pickle":
        return pickle.loads(pickle.dumps(ds.Version(v)))
    if name == "copy":
        return _copy.copy(ds.Version(v))
    if name == "deepcopy":
        return _copy.deepcopy(ds.Version(v))
    kk = _mix(k, v)              # (k itself is always 22 modulo 24 here)
    if kk % 4:
        ch = parse_changelog(CHANGELOG_BLOCK % v, kk // 4)
        return (ch.version, ch.get_version(), ch.versions[0])[k % 3]
    # a (newer) block in front, padded: the header line that carries v ends at a block boundary
    ch = parse_changelog(aligned_changelog([PAD_VERSION, v], kk // 4, 1), kk // 8)
    return (ch.versions[1], list(ch)[1].version, ch[1].version)[k % 3]


DERIVERS = ("Version(o)", "copy.copy(o)", "NativeVersion(o)", "Version(BaseVersion(o))", "copy.deepcopy(o)",
            "changelog.Version(o)", "copy.copy(Version(o))", "pickle", "ChangeBlock(version=o).version")
# rotation: the ways that hand the SAME parsed state on come more often than the serialising ones
DERIVE_ROTATION = [0, 1, 2, 3, 0, 1, 5, 4, 6, 1, 0, 7, 2, 8]
DERIVED = {}


def derive(o, k):
    """a second version object obtained FROM the live object o through the k-th public way; o stays in
    use (specification: Derive21 / Derive12 -- same string, same key, and independent from then on)"""
    name = DERIVERS[DERIVE_ROTATION[k % len(DERIVE_ROTATION)]]
    if isinstance(o, Broken):
        return o
    try:
        return _derive(o, name)
    except Exception as e:                          # noqa: broad on purpose
        return Broken(str(o), name, e)


def _derive(o, name):
    import copy as _copy
    import pickle
    from debian import changelog, debian_support as ds
    DERIVED[name] = DERIVED.get(name, 0) + 1
    if name == "Version(o)":
        return ds.Version(o)
    if name == "copy.copy(o)":
        return _copy.copy(o)
    if name == "NativeVersion(o)":
        return ds.NativeVersion(o)
    if name == "Version(BaseVersion(o))":
        return ds.Version(ds.BaseVersion(o))
    if name == "copy.deepcopy(o)":
        return _copy.deepcopy(o)
    if name == "changelog.Version(o)":
        return changelog.Version(o)
    if name == "copy.copy(Version(o))":
        return _copy.copy(ds.Version(o))
    if name == "pickle":
        return pickle.loads(pickle.dumps(o))
    return changelog.ChangeBlock(package="pkg", version=o).version


# ---- notes/SIZE_STRESS.md part 4: the changelog text reaches the parser through every kind of input /
# file object it accepts, and line ends are steered onto block boundaries (the version that comes out
# is form-independent, so TLC's expectation does not change)
FILE_KINDS = ("str", "bytes", "io.StringIO", "io.BytesIO", "list of str lines", "generator of bytes lines",
              "real file, text mode", "real file, binary, buffering=0", "BufferedReader over a raw stream with short reads",
              "gzip.GzipFile", "bz2.BZ2File", "lzma.LZMAFile", "SpooledTemporaryFile", "generator of str lines without newlines")
FILE_KIND_SEEN = {}
ALIGNED_SEEN = {}
SCRATCH = None                   # ctx.work, set by run() / replay()
PAD_VERSION = "99~pad"
ALIGN_AT = (512, 4096, 8192, 1024, 8192, 2048, 16384, 4096, 8192, 32768, 65536, 131072)


def _mix(k, *strs):
    """a deterministic scramble of a counter and some strings (rotations must not run in lock step)"""
    import zlib
    return zlib.crc32(("%d|" % k + "|".join(strs)).encode("utf-8"))


class _ShortReads(io.RawIOBase):
    """a raw stream that hands out 1..7 bytes per call"""

    def __init__(self, data, salt):
        self.data, self.pos, self.salt = data, 0, salt

    def readable(self):
        return True

    def readinto(self, b):
        n = min(len(b), 1 + (self.pos + self.salt) % 7, len(self.data) - self.pos)
        b[:n] = self.data[self.pos:self.pos + n]
        self.pos += n
        return n


def aligned_changelog(versions, k, which):
    """changelog text with one block per version; a change line of block `which - 1` is padded so that
    the header line of block `which` (or, every third time, the whole text) ENDS one before / exactly
    at / one after an offset 2^j"""
    blocks = [CHANGELOG_BLOCK % x for x in versions]
    at = ALIGN_AT[k % len(ALIGN_AT)]
    if at > 8192 and k % 5 != 1:
        at = 8192                                      # the big ones only now and then
    target = at + (k // len(ALIGN_AT)) % 3 - 1
    whole = k % 7 in (2, 5)
    upto = "".join(blocks) if whole else "".join(blocks[:which]) + blocks[which].split("\n", 1)[0] + "\n"
    pad = target - len(upto)
    if pad < 0:
        return "".join(blocks)
    blocks[which - 1] = blocks[which - 1].replace("  * change\n", "  * change" + "x" * pad + "\n")
    name = "%s ends at offset %d%+d" % ("text" if whole else "header line of block %d" % (which + 1), at, target - at)
    ALIGNED_SEEN[name] = ALIGNED_SEEN.get(name, 0) + 1
    return "".join(blocks)


def parse_changelog(text, k):
    """debian.changelog.Changelog over `text`, handed in through the k-th kind of input"""
    import tempfile
    from debian import changelog
    kind = FILE_KINDS[k % len(FILE_KINDS)]
    if kind == "real file, binary, buffering=0" and len(text) > 10000:
        kind = "io.BytesIO"                            # (unbuffered readline() is one system call per byte)
    FILE_KIND_SEEN[kind] = FILE_KIND_SEEN.get(kind, 0) + 1
    data = text.encode("utf-8")
    lines = text.split("\n")
    lines = [x + "\n" for x in lines[:-1]] + ([lines[-1]] if lines[-1] else [])
    close = None
    if kind == "str":
        src = text
    elif kind == "bytes":
        src = data
    elif kind == "io.StringIO":
        src = io.StringIO(text)
    elif kind == "io.BytesIO":
        src = io.BytesIO(data)
    elif kind == "list of str lines":
        src = lines
    elif kind == "generator of bytes lines":
        src = (x.encode("utf-8") for x in lines)
    elif kind == "generator of str lines without newlines":
        src = (x.rstrip("\n") for x in lines)
    elif kind == "real file, text mode":
        src = close = tempfile.TemporaryFile(mode="w+", encoding="utf-8", newline="", dir=SCRATCH)
        src.write(text)
        src.seek(0)
    elif kind == "real file, binary, buffering=0":
        src = close = tempfile.TemporaryFile(mode="w+b", buffering=0, dir=SCRATCH)
        src.write(data)
        src.seek(0)
    elif kind == "BufferedReader over a raw stream with short reads":
        src = io.BufferedReader(_ShortReads(data, k))
    elif kind == "gzip.GzipFile":
        src = close = gzip.GzipFile(fileobj=io.BytesIO(gzip.compress(data, 1)))
    elif kind == "bz2.BZ2File":
        src = close = bz2.BZ2File(io.BytesIO(bz2.compress(data, 1)))
    elif kind == "lzma.LZMAFile":
        src = close = lzma.LZMAFile(io.BytesIO(lzma.compress(data, preset=0)))
    else:
        src = close = tempfile.SpooledTemporaryFile(max_size=4096, mode="w+b", dir=SCRATCH)
        src.write(data)
        src.seek(0)
    try:
        return changelog.Changelog(src)
    finally:
        if close is not None:
            close.close()


class Pool:
    """long-lived version objects, one per string, re-used for every partner they meet; each is
    obtained through the next public constructor variant"""

    def __init__(self):
        self.objs = {}
        self.n = 0

    def get(self, s):
        o = self.objs.get(s)
        if o is None:
            self.n += 1
            o = self.objs[s] = make_obj(s, self.n + len(s))
        return o

    def churn(self, rng):
        """delete a third of the objects (they are re-created on demand, possibly at the same address)"""
        for k in sorted(self.objs):
            if rng.random() < 0.34:
                del self.objs[k]


VARIANTS = 5


def battery(pool, sa, sb, fwd, rev, heq, variant):
    """one visit of a pair: pooled objects in both operand orders, plus one of: string operand on the
    right / on the left, fresh temporaries, string operand in the reversed order.
    fwd / rev: TLC's OPS rows for (a, b) and (b, a).  Returns None or (where, observation, message)."""
    from debian.debian_support import Version, BaseVersion
    oa, ob = pool.get(sa), pool.get(sb)
    todo = [("Version(a) <op> Version(b), pooled objects", lambda: observe_pair(oa, ob, oa, ob), fwd),
            ("Version(b) <op> Version(a), pooled objects", lambda: observe_pair(ob, oa, ob, oa, cmp=False), rev)]
    v = variant % VARIANTS
    if v == 0:
        todo.append(("Version(a) <op> 'b' (str operand)", lambda: observe_pair(oa, sb, oa, fresh(sb), cmp=False), fwd))
    elif v == 1:
        todo.append(("'a' <op> Version(b) (str operand)", lambda: observe_pair(sa, ob, fresh(sa), ob, cmp=False), fwd))
    elif v == 2:
        todo.append(("Version(a) <op> Version(b), fresh temporaries", lambda: observe(sa, sb), fwd))
        todo.append(("Version(b) <op> Version(a), fresh temporaries", lambda: observe(sb, sa), rev))
    elif v == 3:
        todo.append(("Version(b) <op> 'a' (str operand)", lambda: observe_pair(ob, sa, ob, fresh(sa), cmp=False), rev))
    else:
        todo.append(("Version(a) <op> BaseVersion(b)", lambda: observe_pair(oa, _base(sb), oa, fresh(sb), cmp=False), fwd))
    for where, f, exp in todo:
        obs = f()
        msg = judge(obs, exp, heq)
        if msg:
            return where, obs, msg
    return None


# ------------------------------------------------------------------ concretization

def concretize(rng, seqs, canonical, stress=None):
    """substitute the code points of the abstract strings of one case (jointly) by order-isomorphic
    ones: '0' stays '0', the other digits map increasingly into 1..9, letters increasingly into
    A..Za..z (upper case sorts before lower case, as in the model), '+' '-' '.' ':' '~' stay.  Class
    and relative order of all characters are kept, hence dpkg's sign and the canonical-key equality
    are unchanged.  stress = (k, z, pad): additionally the size transformation of stress_version."""
    if canonical:
        out = [text(x) for x in seqs]
    else:
        used = sorted(set(c for x in seqs for c in x))
        dig = [c for c in used if 49 <= c <= 57]
        let = [c for c in used if chr(c).isalpha()]
        m = {}
        for c, d in zip(dig, sorted(rng.sample(DIGITS19, len(dig)))):
            m[c] = d
        for c, d in zip(let, sorted(rng.sample(LETTERS, len(let)))):
            m[c] = d
        out = ["".join(m.get(c, chr(c)) for c in x) for x in seqs]
    if stress:
        k, z, pad = stress
        out = [stress_version(rng if pad else None, x, k, z) for x in out]
    return out


STRESS_K = [1, 1, 1, 2, 3, 8, 16, 33, 50]            # repetition of every non-digit character
STRESS_Z = [0, 0, 0, 1, 9, 10, 17, 18, 19, 20, 30]   # zeros appended to every digit run (numbers x 10^z)
STRESS_PAD = [1, 2, 7, 17, 18, 19, 20, 31, 32, 33, 39]   # leading zeros prepended to a digit run
MAXRUN = 40


def stress_part(rng, part, k, z):
    """size transformation of ONE component (epoch, upstream or revision), applied with the same
    (k, z) to every component of every string of a case.  It is SOUND for dpkg's order, i.e. the sign
    and the canonical-key equality TLC computed for the abstract strings still hold:
      * every non-digit character is repeated k times: the non-digit phase of verrevcmp compares
        position by position; both strings now carry k copies of each character, so the phase stays
        aligned in blocks and the first differing block differs exactly as the single characters did
        (also against a digit or the end, whose order is 0 in either case); the map is injective;
      * z zeros are appended to every digit run: every number n becomes n * 10^z, an absent number
        stays 0 = 0 * 10^z; order and equality of all compared numbers are kept;
      * (rng given) leading zeros are prepended to some digit runs: the value is unchanged.
    Run boundaries are never changed (digits stay adjacent to the same characters)."""
    out = []
    for m in re.finditer(r"[0-9]+|[^0-9]", part):
        t = m.group(0)
        if t[0].isdigit():
            t = t + "0" * z
            if rng is not None and rng.random() < 0.5 and len(t) < MAXRUN:
                t = "0" * min(rng.choice(STRESS_PAD), MAXRUN - len(t)) + t
            out.append(t)
        else:
            out.append(t * k)
    return "".join(out)


def stress_version(rng, v, k, z):
    ep, up, rev = split(v)         # ':' after the epoch and the last '-' are structure, not payload
    return join([None if ep is None else stress_part(rng, ep, 1, z), stress_part(rng, up, k, z),
                 None if rev is None else stress_part(rng, rev, k, z)])


def pick_stress(rng, idx, pad=True):
    """every 4th case gets a size-stressed concretization"""
    if idx % 4 != 3:
        return None
    return rng.choice(STRESS_K), rng.choice(STRESS_Z), pad


# ------------------------------------------------------------------ TLC design runs

def cfg_text(name, **subst):
    txt = open(os.path.join(core.SPEC, name)).read()
    for k, v in subst.items():
        txt, n = re.subn(r"(?m)^(\s*%s\s*=\s*)\S+\s*$" % re.escape(k), lambda m: m.group(1) + str(v), txt)
        if n != 1:
            raise core.MachineryError("cannot set %s in %s" % (k, name))
    return txt


def design_run(ctx, name, stride, offset, module="DpkgVersionMC", tag="CASE"):
    r = ctx.tlc_must_hold(module, cfg_text(name, EmitStride=stride, EmitOffset=offset), workers=WORKERS,
                          java_opts=JAVA_SHORT if ctx.tier == "quick" else JAVA, want_tags={tag, "OPS", "REJ"})
    cases = [tuple(map(_freeze, c)) for c in r.printed.get(tag, [])]
    cases = sorted(set(cases))                       # the workers print in no fixed order
    ops = {row["cmp"]: row for row in r.printed.get("OPS", [])}
    if sorted(ops) != [-1, 0, 1]:
        raise core.MachineryError("TLC did not print the OPS table (%r)" % (ops,))
    if not cases:
        raise core.MachineryError("%s emitted no %s line" % (name, tag))
    return r, cases, ops


def _freeze(x):
    return tuple(x) if isinstance(x, list) else x


CONTROLS = (   # (module, cfg, switch, the only invariant kept, ...)
    ("DpkgVersionMC", "MC_DpkgVersion_control.cfg", "HashOnString", "HashConsistent"),
    ("DpkgVersionMC", "MC_DpkgVersion_control.cfg", "TildeOrderZero", "Agree"),
    ("DpkgVersionObj", "MC_DpkgVersion_obj_control.cfg", "StaleKey", "Agree"),
    ("DpkgVersionObj", "MC_DpkgVersion_obj_control.cfg", "StaleKey", "HashConsistent"),
    ("DpkgVersionObj", "MC_DpkgVersion_obj_control.cfg", "NoResplit", "Agree"),
    ("DpkgVersionObj", "MC_DpkgVersion_obj_control.cfg", "NoResplit", "HashConsistent"),
    ("DpkgVersionObj", "MC_DpkgVersion_obj_control.cfg", "PartialOnReject", "Agree"),
    ("DpkgVersionObj", "MC_DpkgVersion_obj_control.cfg", "PartialOnReject", "HashConsistent"),
    ("DpkgVersionObj", "MC_DpkgVersion_obj_control.cfg", "SharedOnCopy", "Agree"),
    ("DpkgVersionObj", "MC_DpkgVersion_obj_control.cfg", "SharedOnCopy", "HashConsistent"),
)


def negative_controls(ctx):
    """each switch must make TLC report exactly the named invariant (the runs are tiny and run side
    by side)"""
    from concurrent.futures import ThreadPoolExecutor

    def one(c):
        module, cfg, switch, inv = c
        txt = cfg_text(cfg, **{switch: "TRUE"})
        txt = "\n".join(l for l in txt.splitlines() if not l.startswith("INVARIANT") or l.split()[1] == inv)
        return core.run_tlc(module, txt, ctx.work, workers=1, java_opts=JAVA_SHORT, want_tags=set(), timeout=600)

    # quick: one control per module, rotating with the seed; thorough: all ten
    todo = CONTROLS if ctx.tier != "quick" else (CONTROLS[ctx.seed % 2], CONTROLS[2 + (ctx.seed + 6) % 8])
    with ThreadPoolExecutor(max_workers=len(todo)) as ex:
        results = list(ex.map(one, todo))
    out = {}
    for (module, cfg, switch, inv), r in zip(todo, results):
        ctx.tlc_runs.append({"module": module, "generated": r.generated, "distinct": r.distinct, "depth": r.depth,
                             "wall_s": round(r.wall, 2), "violated": r.violated, "negative_control": switch})
        if r.violated != inv:
            raise core.MachineryError("spec-level negative control %s=TRUE: expected %s to be violated, TLC says %r"
                                      % (switch, inv, r.violated))
        out["%s -> %s" % (switch, inv)] = "violated after %d states" % r.generated
    ctx.extra["spec_negative_controls"] = out


# ------------------------------------------------------------------ replay of TLC's cases (spec -> code)

CHUNK = 64


def replay_cases(ctx, cases, ops, nconc, label):
    """cases: (a, b, sign, canonical keys equal, sign of (b, a)).  A chunk of cases shares a pool of
    objects; every pair of the chunk is visited twice (second round in reverse order, after a third of
    the pool was re-created), each visit with a different extra operand form."""
    rng = ctx.rng
    per_sign = {-1: 0, 0: 0, 1: 0}
    n = 0
    for c0 in range(0, len(cases), CHUNK):
        if len(ctx.violations) >= ctx.max_violation_files:
            break
        pool = Pool()
        items = []
        for idx, (a, b, s, h, rv) in enumerate(cases[c0:c0 + CHUNK]):
            per_sign[s] += 1
            ctx.case_seen((a, b), a != b)
            for c in range(nconc):
                sa, sb = concretize(rng, [a, b], canonical=(c == 0 and (nconc > 1 or idx % 2 == 0)),
                                    stress=pick_stress(rng, c0 + idx + c))
                items.append([a, b, sa, sb, s, h, rv, c0 + idx + c, False])
        for rnd in (0, 1):
            for it in (items if rnd == 0 else reversed(items)):
                a, b, sa, sb, s, h, rv, k, failed = it
                if failed:
                    continue
                n += 1
                bad = battery(pool, sa, sb, ops[s], ops[rv], h, k + 2 * rnd + 1)
                if bad:
                    where, obs, msg = bad
                    it[8] = True
                    ctx.violation({"kind": "case", "abstract": [text(a), text(b)], "a": sa, "b": sb,
                                   "expected_ops": ops[s], "expected_ops_reversed": ops[rv], "expected_hash_equal": h,
                                   "where": where, "visit": rnd + 1, "observed": obs, "config": label},
                                  "%s with a=%r b=%r (visit %d of the pair): %s" % (where, sa, sb, rnd + 1, msg))
                    if len(ctx.violations) >= ctx.max_violation_files:
                        break
            pool.churn(rng)
    for a, b, s, h, rv in cases[len(cases) // 3:]:
        if s == 0 and a != b:
            ctx.sample("%s case %r == %r (hash equal)" % (label, text(a), text(b)))
            break
    mid = cases[len(cases) // 2]
    ctx.sample("%s case: %r vs %r -> sign %d, canonical keys equal: %s" % (label, text(mid[0]), text(mid[1]), mid[2], mid[3]))
    return n, per_sign


def replay_exhaustive(ctx, cases, ops, label):
    """ALL pairs of the exhaustive configuration, each once, in upstream position (a vs b) and in
    revision position ("1-a" vs "1-b": TLC's invariant RevPosition says the sign and the hash-key
    equality are the same), on pooled objects from rotating constructors: forward with
    version_compare and hash, reversed operators.  Canonical and order-isomorphic characters alternate."""
    rng = ctx.rng
    n = 0
    per_sign = {-1: 0, 0: 0, 1: 0}
    for c0 in range(0, len(cases), 4 * CHUNK):
        if len(ctx.violations) >= ctx.max_violation_files:
            break
        pool = Pool()
        for idx, (a, b, s, h, rv) in enumerate(cases[c0:c0 + 4 * CHUNK]):
            per_sign[s] += 1
            ctx.case_seen((a, b), a != b)
            sa, sb = concretize(rng, [a, b], canonical=(idx % 2 == 0))
            for pa, pb, where in ((sa, sb, "upstream position"), ("1-" + sa, "1-" + sb, "revision position")):
                oa, ob = pool.get(pa), pool.get(pb)
                n += 1
                obs = observe_pair(oa, ob, oa, ob)
                msg = judge(obs, ops[s], h)
                if not msg:
                    obs = observe_pair(ob, oa, ob, oa, cmp=False)
                    msg = judge(obs, ops[rv], h)
                    where += ", operands swapped"
                if msg:
                    ctx.violation({"kind": "case", "abstract": [text(a), text(b)], "a": pa, "b": pb,
                                   "expected_ops": ops[s], "expected_ops_reversed": ops[rv], "expected_hash_equal": h,
                                   "where": where, "observed": obs, "config": label},
                                  "Version(%r) vs Version(%r) (%s, every pair of the exhaustive configuration): %s"
                                  % (pa, pb, where, msg))
                    break
            if len(ctx.violations) >= ctx.max_violation_files:
                break
    mid = cases[len(cases) // 2]
    ctx.sample("%s case: %r vs %r -> sign %d (also as '1-%s' vs '1-%s')" % (label, text(mid[0]), text(mid[1]), mid[2], text(mid[0]), text(mid[1])))
    return n, per_sign


# ------------------------------------------------------------------ replay of TLC's assignments (object layer)

def split(s):
    """D2 decomposition, used only to DRIVE component assignments (never for a verdict)"""
    ep = None
    if ":" in s:
        ep, s = s.split(":", 1)
    rev = None
    if "-" in s:
        s, rev = s.rsplit("-", 1)
    return ep, s, rev


def assign(obj, how, value, alias=False):
    if how == "full":
        obj.full_version = value
    elif how == "epoch":
        obj.epoch = None if value == "" else value          # "" stands for None in TLC's lines
    elif how == "upstream":
        obj.upstream_version = value
    elif how == "revision":
        if alias:
            obj.debian_version = None if value == "" else value
        else:
            obj.debian_revision = None if value == "" else value
    else:                       # "parts": reach the string `value` by component assignments only; the
        e2, u2, r2 = split(value)   # order keeps every intermediate string valid (':' / '-' in the upstream
        if e2 is not None:          # part need an epoch / a revision): grow, replace upstream, shrink
            obj.epoch = e2
        if r2 is not None:
            obj.debian_revision = r2
        obj.upstream_version = u2
        if e2 is None:
            obj.epoch = None
        if r2 is None:
            obj.debian_revision = None


def run_mut(pool, sv, how, exp0, exp1, k, kin="none", eq_row=None):
    """sv = [s1, s2, assigned value, new s1]; exp = (OPS row fwd, OPS row rev, hash equal) before / after.
    kin (TLC's MUT line): "none" -- two unrelated objects; "2from1" -- b is DERIVED from the live object a
    (then a, the source, is assigned); "1from2" -- a is derived from the pooled object b (then a, the copy, is
    assigned).  In both cases s1 = s2 and b must go on comparing and hashing as s2 says, also against a
    fresh object of its own string (eq_row: TLC's OPS row of sign 0).
    Returns ("ok" | "skip" | "bad", detail)"""
    s1, s2, arg, s1n = sv
    if kin == "2from1":
        a = make_obj(s1, k)
        b = derive(a, k // 2)
        rel = "b derived from a, "
    elif kin == "1from2":
        b = pool.get(s2)
        a = derive(b, k // 2)
        rel = "a derived from b, "
    else:
        a = fresh(s1)
        b = pool.get(s2)
        rel = ""

    def look(x, y, sy, exp, names, stage, first=True):
        fwd, rev, heq = exp
        todo = [("%s <op> %s" % names, lambda: observe_pair(x, y, x, y, cmp=first), fwd),
                ("%s <op> %s" % names[::-1], lambda: observe_pair(y, x, y, x, cmp=False), rev)]
        if k % 3 == 0 and not first:
            todo.append(("%s <op> '%s' (str operand)" % names, lambda: observe_pair(x, sy, x, y, cmp=False), fwd))
        elif k % 3 == 1 and not first:
            todo.append(("'%s' <op> %s (str operand)" % names[::-1], lambda: observe_pair(sy, x, y, x, cmp=False), rev))
        for where, f, e in todo:
            obs = f()
            msg = judge(obs, e, heq)
            if msg:
                return "%s%s, %s" % (rel, where, stage), obs, msg
        return None

    ab = ("a", "b")
    bad = look(a, b, s2, exp0, ab, "before the assignment") or look(a, b, s2, exp0, ab, "before the assignment, second time", False)
    if bad:
        return "bad", bad
    try:
        assign(a, how, arg, alias=(k % 2 == 1))
    except Exception as e:
        return "skip", "assignment %s=%r on Version(%r) raised %s" % (how, arg, s1, type(e).__name__)
    if str(a) != s1n:
        return "skip", "assignment %s=%r on Version(%r) gives %r, not %r" % (how, arg, s1, str(a), s1n)
    if kin != "none" and str(b) != s2:
        return "skip", "assignment %s=%r on Version(%r): the related object (%s) now prints %r" % (how, arg, s1, kin, str(b))
    bad = look(a, b, s2, exp1, ab, "AFTER the assignment") or look(a, b, s2, exp1, ab, "AFTER the assignment, second time", False)
    if not bad and kin != "none":
        same = (eq_row, eq_row, True)
        bad = (look(b, fresh(s2), s2, same, ("b", "a fresh object of b's own string"), "AFTER the assignment to a")
               or look(a, fresh(s1n), s1n, same, ("a", "a fresh object of a's own string"), "AFTER the assignment to a"))
    if bad:
        return "bad", bad
    return "ok", None


def junk_value(k):
    """what the model's foreign character stands for: a value whose str() is no version"""
    return [" ", "1 0", "x_y", [], b"1.0", ("1", "0"), {"1.0"}][k % 7]


def run_rej(pool, sv, how, exp, eq_row, k, kin="none"):
    """REJ line: a holds sv[0]; the assignment of sv[2] must be refused and leave a exactly as it was
    (kin as in run_mut: b derived from a / a derived from b; both must be what they were).
    Returns ("ok" | "skip" | "bad", detail)"""
    s1, s2, arg = sv
    if kin == "1from2":
        b = pool.get(s2)
        a = derive(b, k // 2)
    else:
        a = make_obj(s1, k)
        b = derive(a, k // 2) if kin == "2from1" else pool.get(s2)
    value = junk_value(k) if arg == " " else arg

    def look(x, y, sx, exp, stage, first=True):
        fwd, rev, heq = exp
        todo = [("a <op> b", lambda: observe_pair(x, y, x, y, cmp=first), fwd),
                ("b <op> a", lambda: observe_pair(y, x, y, x, cmp=False), rev)]
        for where, f, e in todo:
            obs = f()
            msg = judge(obs, e, heq)
            if msg:
                return "%s, %s" % (where, stage), obs, msg
        return None

    bad = look(a, b, s1, exp, "before the rejected assignment")
    if bad:
        return "bad", bad
    try:
        assign(a, how, value, alias=(k % 2 == 1))
        return "skip", "assignment %s=%r on Version(%r) was accepted (-> %r): C14's subject" % (how, value, s1, str(a))
    except Exception:                      # noqa: which exception is C14's subject
        pass
    if str(a) != s1:
        return "bad", ("str(a) after the rejected assignment", {"str": str(a)},
                       "the object prints %r, it printed %r before the rejected assignment" % (str(a), s1))
    same = (eq_row, eq_row, True)
    bad = (look(a, b, s1, exp, "AFTER the rejected assignment") or look(a, b, s1, exp, "AFTER the rejected assignment, second time", False)
           or look(a, fresh(s1), s1, same, "AFTER the rejected assignment, b = a fresh object of a's own string"))
    if not bad and kin != "none":
        if str(b) != s2:
            return "skip", "rejected assignment %s=%r on Version(%r): the related object (%s) now prints %r" % (how, value, s1, kin, str(b))
        bad = look(b, fresh(s2), s2, same, "AFTER the rejected assignment to a (%s), a := b, b := a fresh object of b's own string" % kin)
    if bad:
        return "bad", bad
    try:
        a.full_version = s2
    except Exception as e:
        return "bad", ("a.full_version = %r after the rejected assignment" % s2, {"exc": type(e).__name__},
                       "a later VALID assignment raised %s: %s" % (type(e).__name__, e))
    bad = look(a, b, s2, same, "after a later valid assignment a.full_version = str(b)")
    if bad:
        return "bad", bad
    return "ok", None


def replay_rejs(ctx, rejs, ops):
    rng = ctx.rng
    n = 0
    per_how = {}
    pool = Pool()
    for idx, m in enumerate(rejs):
        if len(ctx.violations) >= ctx.max_violation_files:
            break
        v1, v2, how, arg, ref0, rev0, ceq0, kin = m
        per_how[how] = per_how.get(how, 0) + 1
        if kin != "none":
            per_how["related objects (%s)" % kin] = per_how.get("related objects (%s)" % kin, 0) + 1
        ctx.case_seen(("rej", v1, v2, how, arg, kin), True)
        if idx % CHUNK == CHUNK - 1:
            pool.churn(rng)
        sv = concretize(rng, [v1, v2, arg], canonical=(idx % 2 == 0))
        n += 1
        st, detail = run_rej(pool, sv, how, (ops[ref0], ops[rev0], ceq0), ops[0], idx, kin)
        if st == "skip":
            ctx.drift(detail)
        elif st == "bad":
            where, obs, msg = detail
            pool.objs.pop(sv[1], None)
            ctx.violation({"kind": "rej", "strings": sv, "how": how, "k": idx, "expected": (ops[ref0], ops[rev0], ceq0),
                           "equal_row": ops[0], "where": where, "observed": obs, "kin": kin},
                          "a=Version(%r), b=Version(%r); REJECTED assignment a.%s = %r: %s: %s"
                          % (sv[0], sv[1], how, junk_value(idx) if sv[2] == " " else sv[2], where, msg))
    if rejs:
        m = rejs[len(rejs) // 2]
        ctx.sample("obj case: Version(%r).%s = %r is refused; the object still compares with %r as before (sign %d)" % (
            text(m[0]), m[2], text(m[3]), text(m[1]), m[4]))
    return n, per_how


def replay_muts(ctx, muts, ops, nconc):
    rng = ctx.rng
    n = 0
    per_how = {}
    pool = Pool()
    for idx, m in enumerate(muts):
        if len(ctx.violations) >= ctx.max_violation_files:
            break
        v1, v2, how, arg, v1n, ref0, rev0, ceq0, ref1, rev1, ceq1, kin = m
        per_how[how] = per_how.get(how, 0) + 1
        if kin != "none":
            per_how["related objects (%s)" % kin] = per_how.get("related objects (%s)" % kin, 0) + 1
        ctx.case_seen(("mut", v1, v2, how, arg, kin), v1 != v1n)
        if idx % CHUNK == CHUNK - 1:
            pool.churn(rng)
        for c in range(nconc):
            sv = concretize(rng, [v1, v2, arg, v1n], canonical=(c == 0 and (nconc > 1 or idx % 2 == 0)))
            st = pick_stress(rng, idx + c, pad=False)      # no random padding: a must become exactly sv[3]
            if st and how != "full" and re.search("[-:]", split(sv[0])[1] + sv[2]):
                st = None              # a boundary-moving assignment: the separators are about to become structure
            if st:
                kk, zz, _ = st
                sv = [stress_version(None, sv[0], kk, zz), stress_version(None, sv[1], kk, zz),
                      stress_version(None, sv[2], kk, zz) if how == "full" else
                      stress_part(None, sv[2], 1 if how == "epoch" else kk, zz),
                      stress_version(None, sv[3], kk, zz)]
            exp0 = (ops[ref0], ops[rev0], ceq0)
            exp1 = (ops[ref1], ops[rev1], ceq1)
            n += 1
            st, detail = run_mut(pool, sv, how, exp0, exp1, idx + c, kin, ops[0])
            if st == "skip":
                ctx.drift(detail)
            elif st == "bad":
                where, obs, msg = detail
                pool.objs.pop(sv[1], None)         # (it may be the damaged one)
                ctx.violation({"kind": "mut", "strings": sv, "how": how, "k": idx + c, "expected_before": exp0,
                               "expected_after": exp1, "where": where, "observed": obs, "kin": kin, "equal_row": ops[0]},
                              "a=Version(%r), b=Version(%r); assignment a.%s = %r (a becomes %r): %s: %s"
                              % (sv[0], sv[1], how, sv[2], sv[3], where, msg))
                break
    if muts:
        m = muts[len(muts) // 2]
        ctx.sample("obj case: Version(%r).%s = %r -> %r, then vs %r: sign %d -> %d" % (
            text(m[0]), m[2], text(m[3]), text(m[4]), text(m[1]), m[5], m[8]))
    return n, per_how


# ------------------------------------------------------------------ random versions (code -> spec)

BOUNDARY = [0, 9, 10, 99, 100, 2 ** 15, 2 ** 16, 2 ** 31 - 1, 2 ** 31, 2 ** 32 - 1, 2 ** 32, 2 ** 53, 2 ** 53 + 1,
            2 ** 63 - 1, 2 ** 63, 2 ** 64 - 1, 2 ** 64, 10 ** 18 - 1, 10 ** 18, 10 ** 19 - 1, 10 ** 19, 10 ** 19 + 1, 10 ** 38]
MAXLEN = 120         # code points of a recorded version: TLC scans them


def big_number(rng):
    """a digit run of 1..40 digits with 0..39 leading zeros: all zeros, boundary values and their
    neighbours, random 19..40-digit numbers"""
    k = rng.random()
    if k < 0.12:
        return "0" * rng.choice([1, 2, 8, 18, 19, 20, 32, 40])
    if k < 0.62:
        d = "%d" % max(0, rng.choice(BOUNDARY) + rng.choice([0, 0, 0, 1, -1, 2]))
    else:
        d = rng.choice("123456789") + "".join(rng.choice("0123456789") for _ in range(rng.choice([16, 17, 18, 19, 20, 25, 31, 39]) - 1))
    d = d[:MAXRUN]
    z = rng.choice([0, 0, 0, 1, 2, 17, 18, 19, 20, 30, 39])
    return "0" * min(z, MAXRUN - len(d)) + d


def gen_part(rng, extra, lo, hi, big=False):
    """a non-empty run-structured string over [A-Za-z0-9.+~] + extra; big: size-stressed runs"""
    target = rng.randint(lo, hi)
    out = ""
    if big and rng.random() < 0.2:                  # many alternations: 50+ runs of one or two characters
        unit = rng.choice(["1a", "0a", "1.", "a1", "1~", "9z", "01b", "1+2."])
        out = unit * (rng.choice([25, 26, 30, 33, 50]) if hi >= 60 else max(1, hi // len(unit)))
    while len(out) < target:
        k = rng.random()
        if big and k < 0.45:
            out += big_number(rng)
            k = rng.random()
            out += rng.choice([".", "+", "~", "a", "rc", "", ""]) if k < 0.8 else ""
        elif big and k < 0.55:
            out += rng.choice("aZ~.+") * rng.choice([8, 16, 17, 31, 32, 33, 64, 65, 100]) if rng.random() < 0.5 else \
                "".join(rng.choice(LETTERS) for _ in range(rng.choice([8, 16, 33, 64, 100])))
        elif k < 0.38:
            out += rng.choice(["0", "00", "1", "9", "10", "09", "010", "2", "123", "0123", "99", "100", "4294967296",
                               "%d" % rng.randrange(10 ** rng.randint(1, 6)),
                               "0" * rng.randint(1, 3) + "%d" % rng.randrange(1000),
                               "".join(rng.choice("0123456789") for _ in range(rng.randint(10, 14)))])
        elif k < 0.55:
            out += rng.choice([".", ".", ".", "+", "+", "..", ".+", "+.", "++"])
        elif k < 0.68:
            out += "~" * rng.choice([1, 1, 1, 2, 3])
        elif k < 0.92:
            out += rng.choice(["a", "b", "z", "A", "Z", "rc", "RC", "alpha", "beta", "pre", "dfsg", "git", "ubuntu", "deb", "u", "nmu",
                               "".join(rng.choice(LETTERS) for _ in range(rng.randint(1, 3)))])
        elif extra:
            out += rng.choice(extra)
        else:
            out += rng.choice(PLAIN)
    return out[:hi] if len(out) > hi else out


def gen_version(rng, big=False):
    """[epoch, upstream, revision] (None = absent), valid per D2 and outside its unspecified zone"""
    k = rng.random()
    if k < 0.5:
        ep = None
    elif big and k < 0.75:
        ep = big_number(rng)[:rng.choice([10, 19, 20, 40])]          # long epochs, with leading zeros
    elif k < 0.95:
        ep = rng.choice(["0", "0", "00", "1", "01", "2", "10", "9", "%d" % rng.randrange(1000)])
    else:
        ep = rng.choice(["2147483647", "2147483648", "4294967296", "4294967297", "99999999999999", "00000000000001"])
    k = rng.random()
    if k < 0.4:
        rev = None
    elif k < 0.65:
        rev = rng.choice(["0", "00", "1", "01", "~", "0~", "a", "+", "."])
    elif big and k < 0.85:
        rev = gen_part(rng, "", 1, 30, big=True)
    else:
        rev = gen_part(rng, "", 1, 8)
    extra = ("-" if rev is not None else "") + (":" if ep is not None else "")
    room = MAXLEN - 2 - len(ep or "") - len(rev or "")
    up = gen_part(rng, extra, 1, min(room, rng.choice([20, 41, 64, 100])), big=True) if big else \
        gen_part(rng, extra, 1, rng.choice([2, 4, 8, 14, 22]))
    if rng.random() < 0.75 and not up[0].isdigit():
        up = rng.choice("0123456789") + up[:-1] if len(up) > 1 else rng.choice("0123456789")
    return [ep, up, rev]


def join(v):
    ep, up, rev = v
    return (ep + ":" if ep is not None else "") + up + ("-" + rev if rev is not None else "")


def normalize(v):
    """keep a component list inside the domain after an edit"""
    ep, up, rev = v
    if rev is None:
        up = up.replace("-", ".")
    if ep is None:
        up = up.replace(":", ".")
    if not up:
        up = "0"
    if rev is not None and not rev:
        rev = "0"
    if ep is not None:
        ep = ep[:MAXRUN]
    if rev is not None:
        rev = rev[:45]
    room = MAXLEN - 2 - len(ep or "") - len(rev or "")
    if len(up) > room:                       # any non-empty prefix of an upstream part is one
        up = up[:room]
    return [ep, up, rev]


def near(rng, v):
    """a version close to v: the interesting pairs are the almost-equal ones"""
    v = list(v)
    for _ in range(rng.choice([1, 1, 1, 2, 2, 3])):
        k = rng.randrange(15)
        which = 1 if (v[2] is None or rng.random() < 0.7) else 2
        part = v[which]
        if k == 0:                                   # epoch: absent <-> 0 <-> 00, or another number
            v[0] = rng.choice([None, "0", "00", "000", "1", "01"])
        elif k == 1:                                 # revision: absent <-> 0 <-> 00 ...
            v[2] = rng.choice([None, "0", "00", "0~", "~", "1", "0+", "0."])
        elif k == 2:                                 # add a leading zero to a digit run
            runs = [m.start() for m in re.finditer(r"[0-9]+", part)]
            if runs:
                i = rng.choice(runs)
                part = part[:i] + "0" * rng.randint(1, 2) + part[i:]
            else:
                part = part + "0"
        elif k == 3:                                 # strip the leading zeros of a digit run
            runs = [m for m in re.finditer(r"0+(?=[0-9])", part)]
            if runs:
                m = rng.choice(runs)
                part = part[:m.start()] + part[m.end():]
        elif k == 4:                                 # append something small
            part = part + rng.choice(["0", "00", ".0", ".", "~", "~~", "a", "+", "1", "~0", ".00", "A"])
        elif k == 5 and len(part) > 1:               # drop the last character
            part = part[:-1]
        elif k == 6:                                 # replace one character
            i = rng.randrange(len(part))
            part = part[:i] + rng.choice(PLAIN) + part[i + 1:]
        elif k == 7:                                 # insert a character
            i = rng.randint(0, len(part))
            part = part[:i] + rng.choice("~~0.+aZ19") + part[i:]
        elif k == 8:                                 # swap the case of a letter
            idx = [i for i, c in enumerate(part) if c.isalpha()]
            if idx:
                i = rng.choice(idx)
                part = part[:i] + part[i].swapcase() + part[i + 1:]
        elif k == 9:                                 # change a digit
            idx = [i for i, c in enumerate(part) if c.isdigit()]
            if idx:
                i = rng.choice(idx)
                part = part[:i] + rng.choice("0123456789") + part[i + 1:]
        elif k == 10 and len(part) > 1:              # delete a character
            i = rng.randrange(len(part))
            part = part[:i] + part[i + 1:]
        elif k == 12:                                # re-pad a digit run: boundary numbers of leading zeros
            runs = [m for m in re.finditer(r"[0-9]+", part)]
            if runs:
                m = rng.choice(runs)
                d = m.group(0).lstrip("0") or "0"
                d = d[:MAXRUN]
                part = part[:m.start()] + "0" * min(rng.choice([0, 1] + STRESS_PAD), MAXRUN - len(d)) + d + part[m.end():]
        elif k == 13:                                # change the LAST digit of the longest digit run (2^53 vs 2^53 + 1)
            runs = sorted(re.finditer(r"[0-9]+", part), key=lambda m: -len(m.group(0)))
            if runs:
                i = runs[0].end() - 1
                part = part[:i] + rng.choice("0123456789") + part[i + 1:]
        elif k == 14:                                # the epoch likewise: padded / last digit changed
            if v[0] is not None:
                d = v[0].lstrip("0") or "0"
                if rng.random() < 0.5:
                    d = d[:-1] + rng.choice("0123456789")
                v[0] = ("0" * min(rng.choice([0, 1] + STRESS_PAD), MAXRUN - len(d)) + d)[:MAXRUN]
        # k == 11: no edit of the part (identical spelling / only epoch-revision edits)
        if 2 <= k <= 13 and v[which] is not None:
            v[which] = part
        v = normalize(v)
    return v


def _event(i, j, obs, src):
    e = {"i": i + 1, "j": j + 1, "src": src}
    ok = "exc" not in obs and isinstance(obs["cmp"], int) and \
        all(isinstance(obs[k], (bool, int)) for k in OPKEYS[1:] + ("heq",))
    if ok:
        e.update({k: bool(obs[k]) for k in OPKEYS[1:]}, cmp=int(obs["cmp"]), heq=bool(obs["heq"]))
    else:
        e.update({k: False for k in OPKEYS[1:]}, cmp=EXC, heq=False, exc=obs.get("exc") or "non-boolean result %r" % (obs,))
    return e


def collect(objs, strs):
    """the collection-level entry points on objects holding strs[0..n-1] (positions are 1-based)"""
    import functools
    from debian import changelog
    from debian.debian_support import version_compare
    n = len(objs)
    pos = {id(o): i + 1 for i, o in enumerate(objs)}
    try:
        order = [pos[id(o)] for o in sorted(objs)]
        mixed = [objs[i] if i % 2 else strs[i] for i in range(n)]         # version_compare takes both
        order2 = [i + 1 for i in sorted(range(n), key=functools.cmp_to_key(lambda i, j: version_compare(mixed[i], mixed[j])))]
        lst = list(objs)
        lst.sort(reverse=True)
        if [pos[id(o)] for o in lst] != [pos[id(o)] for o in sorted(objs, reverse=True)]:
            order = []                                        # list.sort and sorted disagree: never explained
        probe = make_obj(strs[-1], n + len(strs[-1]))
        q = {"order": order, "order2": order2, "mn": pos[id(min(objs))], "mx": pos[id(max(objs))],
             "nset": len(set(objs)) if len(set(objs)) == len(dict.fromkeys(objs)) else 0,
             "idx": objs.index(probe) + 1 if probe in objs else 0, "clidx": 0}
        if all(len(x) < 200 for x in strs):
            salt = _mix(n, strs[0], strs[-1])
            ch = parse_changelog(aligned_changelog(strs, salt // 3, 1 + (salt // 7) % (n - 1)) if n > 1 and salt % 3 == 0 else
                                 "".join(CHANGELOG_BLOCK % x for x in strs), salt // 5)
            blk = ch[strs[-1]] if n % 2 else ch[probe]       # lookup by version EQUALITY, str or Version key
            q["clidx"] = [i for i, b in enumerate(ch) if b is blk][0] + 1
        return q
    except Exception as e:                                    # noqa: an observation, never explained by TLC
        return {"order": [], "order2": [], "mn": 0, "mx": 0, "nset": 0, "idx": 0, "clidx": 0,
                "exc": "%s: %s" % (type(e).__name__, e)}


def record_trace(strs):
    """run the strings of one trace through the real code (deterministic for given strings).  Every
    event is one full observation of the pair (string i, string j) -- i, j being the strings the two
    operands HOLD at that moment:
      1. long-lived objects, every ordered pair, and an object with itself
      2. a plain-string operand on either side / fresh temporaries
      3. one more object m -- on two traces of three DERIVED from the live long-lived object 0 through
         a rotating public way (Version(o), copy.copy(o) ...; specification: Derive12, the copy is
         assigned and the source observed) -- walks through every string of the trace by assignment
         (alternately full_version and component-wise) and is compared, both ways, with every
         long-lived object after each assignment -- including the object holding the same string
         (equal, equal hashes).  Before each assignment a SNAPSHOT is derived from m (Derive21: the
         source is assigned, the copy observed); after it the snapshot must compare with m, and with a
         fresh object of its own string, as the string it was taken at says; the first snapshot is
         kept over the whole walk
      4. half of the long-lived objects are deleted and re-created; every ordered pair again"""
    from debian.debian_support import Version
    n = len(strs)
    pairs = [(i, j) for i in range(n) for j in range(n) if i != j]
    events = []
    notes = []
    salt = n + len(strs[0])
    pool = [make_obj(x, salt + 5 * i) for i, x in enumerate(strs)]     # different public constructors

    def ev(i, j, L, R, hl, hr, src):
        events.append(_event(i, j, observe_pair(L, R, hl, hr), src))

    for i, j in pairs:
        ev(i, j, pool[i], pool[j], pool[i], pool[j], "objects")
    ev(0, 0, pool[0], pool[0], pool[0], pool[0], "same object")
    for k, (i, j) in enumerate(pairs):
        if k % 3 == 0:
            ev(i, j, pool[i], strs[j], pool[i], fresh(strs[j]), "Version <op> str")
        elif k % 3 == 1:
            ev(i, j, strs[i], pool[j], fresh(strs[i]), pool[j], "str <op> Version")
        else:
            events.append(_event(i, j, observe(strs[i], strs[j]), "fresh temporaries"))
    m = derive(pool[0], salt) if salt % 3 else make_obj(strs[0], salt + 3)
    M = "m (derived from the live object 1)" if salt % 3 else "m"
    for j in range(1, n):
        ev(0, j, m, pool[j], m, pool[j], M + " before any assignment")
    cur, snap0 = 0, None
    for t in list(range(1, n)) + [0]:
        how = "full" if (t + len(strs[t])) % 2 else "parts"
        snap = derive(m, salt + 2 * t + 1)
        snap0 = snap if snap0 is None else snap0
        try:
            assign(m, how, strs[t])
        except Exception as e:
            notes.append("assigning %r to Version(%r) by %s raised %s" % (strs[t], str(m), how, type(e).__name__))
            break
        if str(m) != strs[t]:
            notes.append("assigning %r by %s gives %r" % (strs[t], how, str(m)))
            break
        for j in range(n):
            ev(t, j, m, pool[j], m, pool[j], M + " assigned (%s) <op> object" % how)
            if j != t:
                ev(j, t, pool[j], m, pool[j], m, "object <op> " + M + " assigned (%s)" % how)
        if str(snap) == strs[cur]:        # (printing is C14's subject)
            if t % 2:
                ev(cur, t, snap, m, snap, m, "snapshot derived from m before the assignment <op> m assigned (%s)" % how)
            else:
                ev(t, cur, m, snap, m, snap, "m assigned (%s) <op> snapshot derived from m before the assignment" % how)
            f = fresh(strs[cur])
            ev(cur, cur, snap, f, snap, f, "snapshot derived from m before the assignment (%s) <op> fresh object of its own string" % how)
        else:
            notes.append("a snapshot of m taken at %r prints %r after m was assigned %r" % (strs[cur], str(snap), strs[t]))
        cur = t
    else:
        if str(snap0) == strs[0]:
            ev(0, 0, snap0, m, snap0, m, "first snapshot of m <op> m after the whole walk")
            ev(0, n - 1, snap0, pool[n - 1], snap0, pool[n - 1], "first snapshot of m <op> object")
    for i in range(0, n, 2):
        pool[i] = None
        pool[i] = make_obj(strs[i], salt + 7 + i)
    for i, j in reversed(pairs):
        ev(i, j, pool[i], pool[j], pool[i], pool[j], "objects, second time")
    return {"vs": [cps(x) for x in strs], "strs": list(strs), "events": events, "notes": notes,
            "coll": collect(pool, strs)}


def in_domain(v):
    """D2 (valid and outside the unspecified zone) -- a FILTER for generated inputs only; the trace
    module re-checks every recorded string (TDesign), a disagreement is a machinery failure"""
    ep, up, rev = split(v)
    if ep is not None and not re.fullmatch("[0-9]+", ep):
        return False
    if rev is not None and not re.fullmatch("[A-Za-z0-9.+~]+", rev):
        return False
    return bool(re.fullmatch("[A-Za-z0-9.+~%s%s]+" % (":" if ep is not None else "", "-" if rev is not None else ""), up))


TAILS = ["1", "0", "~1", "a", "00", "2+b1", "0~"]
HEADS = ["7", "0", "10", "007"]
BOUNDARY_OPS = ("revision=None", "epoch=None", "upstream+='-x'", "upstream='d:'+", "revision+='-x'", "epoch+=':d'")


def boundary_assign(obj, v, op, salt):
    """ONE component assignment on obj (which holds v) after which the last '-' / first ':' of the
    printed string is not where the assigned components had it.  False: not applicable to v."""
    ep, up, rev = split(v)
    tail, head = TAILS[salt % len(TAILS)], HEADS[salt % len(HEADS)]
    if op == "revision=None":
        if rev is None or "-" not in up:
            return False
        obj.debian_revision = None
    elif op == "epoch=None":
        if ep is None or ":" not in up:
            return False
        obj.epoch = None
    elif op == "upstream+='-x'":
        if rev is not None:
            return False
        obj.upstream_version = up + "-" + tail
    elif op == "upstream='d:'+":
        if ep is not None:
            return False
        obj.upstream_version = head + ":" + up
    elif op == "revision+='-x'":
        obj.debian_revision = (rev or "1") + "-" + tail
    else:
        obj.epoch = (ep or "0") + ":" + head
    return True


def related_pair(v, salt):
    """(obj, twin, what twin is): two live objects holding v, one DERIVED from the other through a
    rotating public way; obj is the one that gets assigned afterwards -- alternately the source
    (specification: Derive21) and the copy (Derive12)"""
    if salt % 2:
        obj = make_obj(v, salt + len(v))
        return obj, derive(obj, salt // 2), "twin derived from the object before the assignment"
    twin = make_obj(v, salt + len(v))
    return derive(twin, salt // 2), twin, "live source the object was derived from"


def record_boundary(v, partner, op, salt):
    """a trace [v, partner, what v becomes]: an object holding v is compared (caches warm), gets one
    boundary-moving component assignment, and is then compared -- judged against the string it now
    PRINTS -- with the partner, with a fresh object built from its own string (equal, equal hashes)
    and with a fresh object of its former string; its twin (related_pair) must still compare as the
    former string says.  None: op not applicable / rejected by the code /
    result outside the domain (C14's subject)."""
    obj, twin, rel = related_pair(v, salt)
    pp = make_obj(partner, salt + 2)
    events = []

    def ev(i, j, L, R, src, hl=None, hr=None):
        events.append(_event(i, j, observe_pair(L, R, hl or L, hr or R), src))

    ev(0, 1, obj, pp, "object before the assignment")
    ev(1, 0, pp, obj, "object before the assignment")
    try:
        if not boundary_assign(obj, v, op, salt):
            return None
    except Exception:
        return None
    d = str(obj)
    if not in_domain(d) or len(d) > MAXLEN + 8:
        return None
    src = "object after %s" % op
    fresh_d, old = fresh(d), fresh(v)
    ev(2, 1, obj, pp, src)
    ev(1, 2, pp, obj, src)
    ev(2, 2, obj, fresh_d, src + " <op> fresh object of its own string")
    ev(2, 2, fresh_d, obj, "fresh object of its own string <op> " + src)
    ev(2, 0, obj, old, src + " <op> fresh object of its former string")
    ev(0, 2, old, obj, "fresh object of its former string <op> " + src)
    ev(2, 1, obj, partner, src + " <op> str", obj, pp)
    ev(2, 1, obj, pp, src + ", second time")
    if str(twin) == v:                   # (printing is C14's subject)
        ev(0, 2, twin, obj, rel + " <op> " + src)
        ev(0, 0, twin, old, rel + " <op> fresh object of its own string, " + src)
    strs = [v, partner, d]
    return {"vs": [cps(x) for x in strs], "strs": strs, "events": events, "notes": [], "bop": [op, salt],
            "coll": collect([old, pp, obj], strs)}


def record_pair(a, b, salt):
    """a light trace [a, b]: objects from two rotating constructors, both operand orders, one more
    operand form, the collection-level entry points"""
    oa, ob = make_obj(a, salt), make_obj(b, salt + 1 + len(b))
    events = [_event(0, 1, observe_pair(oa, ob, oa, ob), "objects"),
              _event(1, 0, observe_pair(ob, oa, ob, oa), "objects")]
    k = salt % 4
    if k == 0:
        events.append(_event(0, 1, observe(a, b), "fresh temporaries"))
    elif k == 1:
        events.append(_event(0, 1, observe_pair(oa, b, oa, ob), "Version <op> str"))
    elif k == 2:
        events.append(_event(1, 0, observe_pair(b, oa, ob, oa), "str <op> Version"))
    else:
        events.append(_event(0, 1, observe_pair(oa, _base(b), oa, ob), "Version <op> BaseVersion"))
    return {"vs": [cps(a), cps(b)], "strs": [a, b], "events": events, "notes": [], "light": salt,
            "coll": collect([oa, ob], [a, b])}


TOKENS = (("0", "00", "000"), ("1", "7", "10"), ("a", "rc", "Z"), ("~",), (".",), ("+",))
PREFIXES = ("a", "1a", "1.0rc", "1.", "1~", "1+", "2.0", "0")


def prefix_family(rng, share):
    """x  vs  x + suffix  for every suffix of <= 3 tokens over (zero number, non-zero number, letters,
    '~', '.', '+'), in upstream and in revision position: one part is a token-wise prefix of the
    other.  Suffixes of one and two tokens always, those of three tokens with probability `share`."""
    import itertools
    out = []
    k = 0
    for ntok in (1, 2, 3):
        for classes in itertools.product(range(len(TOKENS)), repeat=ntok):
            for x in PREFIXES:
                if ntok == 3 and rng.random() >= share:
                    continue
                k += 1
                suffix = "".join(TOKENS[c][(k + i) % len(TOKENS[c])] for i, c in enumerate(classes))
                a, b = x, x + suffix
                form = k % 4
                if form == 1:
                    a, b = "3-" + a, "3-" + b                      # revision position
                elif form == 2:
                    a, b = "1:" + a + "-1", "1:" + b + "-1"        # upstream, with epoch and revision
                elif form == 3:
                    a, b = "0.5-" + a, "0.5-" + b
                out.append((a, b) if k % 2 else (b, a))
    return out


REJECT_VALUES = {
    "full": ["", "{v} ", "{v}_", "x:{v}", [], b"1.0", ("1", "0")],
    "epoch": ["x", "1a", " ", "~", [], "1.0", b"1"],
    "upstream": ["a b", "x_y", "x:y", "\u00e9", [], "1 "],
    "revision": ["a b", "x_y", "1 ", [], "\u0663"],
}


def unspec(v):
    """D2's unspecified zone (a filter for generated inputs, as in_domain)"""
    if "-" not in v:
        return False
    head, tail = v.rsplit("-", 1)
    m = re.match("[0-9]+:", head)
    if m:
        head = head[m.end():]
    return tail == "" or ":" in tail or head == ""


def record_reject(v, partner, how, salt):
    """a trace [v, partner]: an object holding v is compared, then an assignment that must be REFUSED
    is attempted (regex-level junk, wrong type, ':' without a numeric epoch, non-numeric epoch), then
    it is compared again -- it must be exactly what it was, also against a fresh object of its own
    string -- then a valid assignment (full_version = partner) must work.  None: not applicable /
    the code accepts the value (C14's subject)."""
    ep, up, rev = split(v)
    value = REJECT_VALUES[how][salt % len(REJECT_VALUES[how])]
    if isinstance(value, str):
        value = value.replace("{v}", v)
        # what the object would print; only clear rejects (invalid and outside the unspecified zone)
        target = {"full": value, "epoch": join([value, up, rev]), "upstream": join([ep, value, rev]),
                  "revision": join([ep, up, value])}[how]
        if in_domain(target) or unspec(target) or (how == "full" and ep is not None and value.startswith("x:")):
            return None
    obj, twin, rel = related_pair(v, salt + 1)
    pp = make_obj(partner, salt + 2)
    events = []

    def ev(i, j, L, R, src, hl=None, hr=None):
        events.append(_event(i, j, observe_pair(L, R, hl or L, hr or R), src))

    ev(0, 1, obj, pp, "object before the rejected assignment")
    ev(1, 0, pp, obj, "object before the rejected assignment")
    try:
        assign(obj, how, value)
        return None
    except Exception:                      # noqa
        pass
    src = "object after the REJECTED %s = %r" % (how, value)
    if str(obj) != v:
        events.append(_event(0, 0, {"exc": "prints %r after the rejected assignment" % str(obj)}, src))
    ev(0, 1, obj, pp, src)
    ev(1, 0, pp, obj, src)
    ev(0, 0, obj, fresh(v), src + " <op> fresh object of its own string")
    ev(0, 0, fresh(v), obj, "fresh object of its own string <op> " + src)
    ev(0, 1, obj, partner, src + " <op> str", obj, pp)
    if str(twin) == v:
        ev(0, 0, twin, obj, rel + " <op> " + src)
        ev(0, 1, twin, pp, rel + " <op> partner, " + src)
    try:
        obj.full_version = partner
    except Exception as e:                 # noqa
        events.append(_event(1, 1, {"exc": "a later valid assignment raised %s" % type(e).__name__}, src))
    ev(1, 1, obj, pp, "object after a later valid assignment")
    ev(1, 0, obj, fresh(v), "object after a later valid assignment")
    if str(twin) == v:
        ev(0, 1, twin, obj, rel + " <op> object after a later valid assignment")
    strs = [v, partner]
    return {"vs": [cps(x) for x in strs], "strs": strs, "events": events, "notes": [], "rej": [how, salt],
            "coll": collect([fresh(v), pp], strs)}


def make_traces(rng, n, family_share=0.34):
    traces = []
    for t in range(n):
        big = t % 4 == 3                                 # every fourth trace is size-stressed
        a = gen_version(rng, big=big)
        if rng.random() < 0.2:                           # separators as payload of the upstream part
            if a[2] is not None and rng.random() < 0.6:
                i = rng.randint(1, len(a[1]))
                a[1] = a[1][:i] + "-" + a[1][i:]
            if a[0] is not None and rng.random() < 0.6:
                a[1] = rng.choice(HEADS) + ":" + a[1]
            a = normalize(a)
        k = rng.random() * (0.86 if big else 1.0)        # (at most three such strings per trace)
        if k < 0.40:
            vs = [a, near(rng, a)]
        elif k < 0.50:
            vs = [a, gen_version(rng)]
        elif k < 0.78:
            b = near(rng, a)
            vs = [a, b, near(rng, rng.choice([a, b]))]
        elif k < 0.86:
            vs = [a, near(rng, a), gen_version(rng)]
        else:
            b = near(rng, a)
            c = near(rng, b)
            vs = [a, b, c, near(rng, rng.choice([a, c]))]
        rng.shuffle(vs)
        traces.append(record_trace([join(v) for v in vs]))
        # boundary-moving component assignments: the two that need separators in the upstream part
        # whenever they apply, one of the four others on every second trace
        v, partner = join(a), join(near(rng, a))
        todo = [op for op in BOUNDARY_OPS[:2]] + ([BOUNDARY_OPS[2 + (t // 2) % 4]] if t % 2 == 0 else [])
        for op in todo:
            b = record_boundary(v, partner, op, t)
            if b:
                traces.append(b)
        # rejected assignments: one attribute per trace, rotating
        b = record_reject(v, partner, ("full", "epoch", "upstream", "revision")[t % 4], t // 4)
        if b:
            traces.append(b)
    # the token-prefix family (structured, not random)
    for k, (x, y) in enumerate(prefix_family(rng, family_share)):
        traces.append(record_pair(x, y, k))
    return traces


def corrupt(t, how):
    """negative controls: comparisons the specification must NOT accept"""
    t = copy.deepcopy(t)
    for e in t["events"]:
        if e["cmp"] == EXC or e["i"] == e["j"]:
            continue
        if how == "sign" and e["cmp"] != 0:
            e["cmp"] = -e["cmp"]
            return t
        if how == "op" and e["cmp"] != 0:
            e["le"] = not e["le"]
            return t
        if how == "equal" and e["cmp"] != 0:
            e.update(cmp=0, lt=False, le=True, eq=True, ne=False, ge=True, gt=False, heq=True)
            return t
        if how == "hash" and e["cmp"] == 0 and e["heq"]:
            e["heq"] = False
            return t
    return None


def validate(ctx, traces, with_controls=True):
    """returns [(trace index, index of first unexplained event)]"""
    slim = [{"vs": t["vs"], "events": [{k: v for k, v in e.items() if k not in ("exc", "src")} for e in t["events"]],
             "coll": {k: v for k, v in t["coll"].items() if k != "exc"}} for t in traces]
    controls = []
    if with_controls:
        for how in ("sign", "op", "equal", "hash"):
            for t in slim:
                c = corrupt(t, how)
                if c:
                    controls.append(c)
                    break
        for t in slim:                     # a wrong sort order / a wrong class count must be rejected too
            if len(t["vs"]) >= 2 and len(set(map(tuple, t["vs"]))) == len(t["vs"]) and t["coll"]["nset"] == len(t["vs"]):
                c = copy.deepcopy(t)
                c["coll"]["order"] = c["coll"]["order"][::-1]
                controls.append(c)
                c = copy.deepcopy(t)
                c["coll"]["nset"] -= 1
                controls.append(c)
                break
        if len(controls) < 6:
            raise core.MachineryError("could not build the corrupted control traces")
    acc, _, _ = core.validate_traces(ctx, "TraceDpkgVersion", "TraceDpkgVersion.cfg", slim,
                                     extra_env={"TRACE_DIAG": "0"}, controls=controls, java_opts=JAVA,
                                     workers=min(4, WORKERS))     # sets of ACCEPTED lines: order is irrelevant
    rejected = [i for i in range(len(slim)) if (i + 1) not in acc]
    out = []
    if rejected:
        sub = [slim[i] for i in rejected[:20]]
        _, prog, _ = core.validate_traces(ctx, "TraceDpkgVersion", "TraceDpkgVersion.cfg", sub,
                                          extra_env={"TRACE_DIAG": "1"}, java_opts=JAVA)
        for j, i in enumerate(rejected[:20]):
            out.append((i, prog.get(j + 1, 0)))
    return out, len(rejected)


# ------------------------------------------------------------------ dpkg as an external oracle

def dpkg_sign(sa, sb):
    """sign according to `dpkg --compare-versions`, None if dpkg rejects one of the strings"""
    def rel(op):
        p = subprocess.run(["dpkg", "--compare-versions", "--", sa, op, sb], capture_output=True, text=True,
                           env=dict(os.environ, LC_ALL="C"))
        if p.returncode not in (0, 1) or "error" in p.stderr:
            return None
        return p.returncode == 0
    lt = rel("lt")
    if lt is None:
        return None
    if lt:
        return -1
    eq = rel("eq")
    if eq is None:
        return None
    return 0 if eq else 1


def dpkg_crosscheck(ctx, traces, rejected_idx, want):
    if not shutil.which("dpkg"):
        ctx.extra["dpkg"] = "absent: external oracle skipped"
        return
    from concurrent.futures import ThreadPoolExecutor
    pairs = []
    seen = set()
    for ti, t in enumerate(traces):
        if ti in rejected_idx:
            continue
        for e in t["events"]:
            sa, sb = t["strs"][e["i"] - 1], t["strs"][e["j"] - 1]
            if e["i"] >= e["j"] or (sa, sb) in seen:
                continue
            big = [x for x in (sa, sb) if ":" in x and int(x.split(":")[0]) > 2147483647]
            if big:
                continue                 # dpkg stores the epoch in an int; the statement has no such limit
            seen.add((sa, sb))
            pairs.append((sa, sb, e["cmp"]))
        if len(pairs) >= want:
            break
    with ThreadPoolExecutor(max_workers=WORKERS) as ex:
        signs = list(ex.map(lambda p: dpkg_sign(p[0], p[1]), pairs))
    skipped = 0
    agree = 0
    for (sa, sb, got), s in zip(pairs, signs):
        if s is None:
            skipped += 1
            continue
        if s == got:
            agree += 1
            continue
        if len(ctx.violations) < ctx.max_violation_files:
            ctx.violation({"kind": "dpkg", "a": sa, "b": sb, "dpkg_sign": s, "observed_sign": got},
                          "dpkg --compare-versions orders %r %r with sign %d; version_compare (and the TLA+ reference, "
                          "which accepted the recorded comparison) says %d" % (sa, sb, s, got))
    ctx.extra["dpkg"] = {"pairs_checked": len(pairs) - skipped, "agree": agree, "rejected_by_dpkg": skipped}
    if pairs and skipped > len(pairs) // 2:
        raise core.MachineryError("dpkg rejected %d of %d generated versions: the external oracle is vacuous" % (skipped, len(pairs)))


# ------------------------------------------------------------------ the check

def run(ctx):
    global SCRATCH
    quick = ctx.tier == "quick"
    rng = ctx.rng
    ctx.import_repo()
    SCRATCH = ctx.work
    ctx.assumptions += [
        "exhaustive part is small-scope: 5-9 code points per configuration (0 1 9 a . ~ / 0 1 ~ : - / thorough 0 1 A a + . ~ : -), bounded lengths; CASE and MUT samples chosen by a seed-dependent checksum class; upper case and other digits/letters come in through the concretizer",
        "inputs are valid version strings per DESIGN D2 and outside its unspecified zone (re-checked by TLC: TDomain)",
        "concretization substitutes order-isomorphic code points (class and relative order kept, '0' fixed)",
        "hash collisions between unequal versions are allowed; only a == b => hash(a) == hash(b) is a verdict",
        "trusted: TLC, the concretizer, the observation wrapper, dpkg --compare-versions where present",
    ]
    from debian import debian_support
    ctx.extra["Version_is"] = debian_support.Version.__mro__[1].__name__

    # 1. spec-level negative controls: the invariants are not vacuous
    negative_controls(ctx)

    # 2. design: bounded-exhaustive configurations; the same runs emit the cases to replay
    plan = ([("MC_DpkgVersion_exh.cfg", 1), ("MC_DpkgVersion_full.cfg", 16), ("MC_DpkgVersion_triples.cfg", 1)]
            if quick else
            [("MC_DpkgVersion_exh.cfg", 1), ("MC_DpkgVersion_parts_thorough.cfg", 100),
             ("MC_DpkgVersion_full_thorough.cfg", 150), ("MC_DpkgVersion_triples_thorough.cfg", 1)])
    nconc = 1 if quick else 2      # 1: canonical and random concretizations alternate
    replayed = 0
    ctx.extra["configs"] = {}

    def note(name, r, stride, offset, **kw):
        consts = dict(re.findall(r"(?m)^\s*(Epochs|Revs|UpChars|MaxUp|Seps|Triples)\s*(?:=|<-)\s*(.+?)\s*$", cfg_text(name)))
        ctx.extra["configs"][name] = dict({"constants": consts, "states": r.distinct, "transitions": r.generated,
                                           "wall_s": round(r.wall, 1), "emit_stride": stride, "emit_offset": offset}, **kw)

    for name, stride in plan:
        offset = rng.randrange(stride)
        r, cases, ops = design_run(ctx, name, stride, offset)
        label = name[len("MC_DpkgVersion_"):-len(".cfg")]
        if label == "exh":
            n, per_sign = replay_exhaustive(ctx, cases, ops, label)
        else:
            n, per_sign = replay_cases(ctx, cases, ops, nconc, label)
        replayed += n
        nv = next(k for k in range(1, 100000) if k + k * k + (k ** 3 if r.depth == 3 else 0) >= r.distinct)
        note(name, r, stride, offset, versions=nv,
             per_action={"Compare": nv * nv, "Third": nv ** 3 if r.depth == 3 else 0}, cases=len(cases),
             cases_per_sign={str(k): v for k, v in per_sign.items()}, pair_visits=n)

    # 2b. object layer: closed state space of two mutable objects; assignments replayed
    name, stride = ("MC_DpkgVersion_obj.cfg", 3) if quick else ("MC_DpkgVersion_obj_thorough.cfg", 8)
    offset = rng.randrange(stride)
    r, muts, ops = design_run(ctx, name, stride, offset, module="DpkgVersionObj", tag="MUT")
    n, per_how = replay_muts(ctx, muts, ops, nconc)
    replayed += n
    rejs = sorted(set(tuple(map(_freeze, c)) for c in r.printed.get("REJ", [])))
    if not rejs:
        raise core.MachineryError("%s emitted no REJ line" % name)
    n2, per_how2 = replay_rejs(ctx, rejs, ops)
    replayed += n2
    note(name, r, stride, offset, assignments_replayed=n, mut_lines=len(muts), mut_lines_per_action=per_how,
         rejected_assignments_replayed=n2, rej_lines_per_action=per_how2)
    ctx.extra["ops_table_from_tlc"] = {str(k): v for k, v in ops.items()}
    ctx.extra["behaviours_replayed"] = replayed

    # 3. code -> spec: recorded comparisons validated by TLC on the concrete code points
    ntr = 250 if quick else 4000
    traces = make_traces(rng, ntr, family_share=0.2 if quick else 1.0)
    nev = sum(len(t["events"]) for t in traces)
    bad, nrej = validate(ctx, traces)
    ctx.traces += replayed + len(traces)
    ctx.evaluations += nev
    for t in traces:
        ctx.distinct.add(("trace",) + tuple(t["strs"]))
        for x in t["notes"]:
            ctx.drift(x)
    srcs = {}
    for t in traces:
        for e in t["events"]:
            k = re.sub(r" \((full|parts)\)", "", e["src"])
            k = re.sub(r"the REJECTED \w+ = .*?(?= <op>|$)", "a rejected assignment", k)
            for op in BOUNDARY_OPS:
                k = k.replace(op, "a boundary-moving assignment")
            srcs[k] = srcs.get(k, 0) + 1
    eqpairs = sum(1 for t in traces for e in t["events"] if e["cmp"] == 0 and e["i"] < e["j"]
                  and t["strs"][e["i"] - 1] != t["strs"][e["j"] - 1])
    bops = {}
    for t in traces:
        if t.get("bop"):
            bops[t["bop"][0]] = bops.get(t["bop"][0], 0) + 1
    ctx.extra["boundary_moving_assignments_recorded"] = bops
    ctx.extra["rejected_assignments_recorded"] = sum(1 for t in traces if t.get("rej"))
    ctx.extra["prefix_family_pairs_recorded"] = sum(1 for t in traces if t.get("light") is not None)
    ctx.extra["traces"] = {"recorded": len(traces), "comparisons": nev, "rejected": nrej, "comparisons_per_source": srcs,
                           "assignments_not_completed": sum(1 for t in traces if t["notes"]),
                           "equal_pairs_with_different_spelling": eqpairs,
                           "max_len": max(len(s) for t in traces for s in t["strs"])}
    for t in traces:
        e = t["events"][0]
        if e["cmp"] == 0 and t["strs"][e["i"] - 1] != t["strs"][e["j"] - 1]:
            ctx.sample("recorded: %r == %r, hashes equal: %s" % (t["strs"][e["i"] - 1], t["strs"][e["j"] - 1], e["heq"]))
            break
    ctx.sample("recorded: %r vs %r -> %d" % (traces[0]["strs"][0], traces[0]["strs"][1], traces[0]["events"][0]["cmp"]))
    for i, at in bad[:5]:
        t = traces[i]
        e = t["events"][at] if at < len(t["events"]) else None
        if e is None:        # every comparison explained, the collection-level observations are not
            ctx.violation({"kind": "trace", "strs": t["strs"], "bop": t.get("bop"), "rej": t.get("rej"), "light": t.get("light"), "coll": t["coll"]},
                          "sorted / min / max / set / list.index / Changelog lookup over objects holding %r (positions "
                          "1..%d) not explained by the dpkg reference: observed %r" % (t["strs"], len(t["strs"]), t["coll"]))
            continue
        where = "%r vs %r [%s]" % (t["strs"][e["i"] - 1], t["strs"][e["j"] - 1], e["src"])
        ctx.violation({"kind": "trace", "strs": t["strs"], "bop": t.get("bop"), "rej": t.get("rej"), "light": t.get("light"), "first_unexplained_event": at + 1, "event": e},
                      "recorded comparison not explained by the dpkg reference (DpkgVersion.tla): %s observed %r"
                      % (where, {k: v for k, v in e.items() if k not in ("i", "j", "src")}))
    ctx.extra["objects_per_constructor"] = dict(CONSTRUCTED)
    ctx.extra["derived_objects_per_way"] = dict(DERIVED)
    ctx.extra["file_object_kinds"] = dict(FILE_KIND_SEEN)
    ctx.extra["aligned_cases"] = dict(ALIGNED_SEEN)

    # 4. dpkg itself as a second oracle (also validates the transcription of the reference)
    dpkg_crosscheck(ctx, traces, {i for i, _ in bad}, 150 if quick else 5000)


def replay(ctx, case):
    global SCRATCH
    ctx.import_repo()
    SCRATCH = ctx.work
    kind = case.get("kind")
    if kind == "case":
        pool = Pool()
        for rnd in (0, 1):
            for v in range(VARIANTS):
                bad = battery(pool, case["a"], case["b"], case["expected_ops"], case["expected_ops_reversed"],
                              case["expected_hash_equal"], v)
                if bad:
                    return "%s: %s" % (bad[0], bad[2])
            pool.churn(random.Random(rnd))
        return None
    if kind == "rej":
        for k in range(case["k"], case["k"] + 7):
            st, detail = run_rej(Pool(), case["strings"], case["how"], tuple(case["expected"]), case["equal_row"], k,
                                 case.get("kin", "none"))
            if st == "bad":
                return "%s: %s" % (detail[0], detail[2])
        return None
    if kind == "mut":
        for k in range(case.get("k", 0), case.get("k", 0) + 2 * len(DERIVE_ROTATION)):
            st, detail = run_mut(Pool(), case["strings"], case["how"], tuple(case["expected_before"]),
                                 tuple(case["expected_after"]), k, case.get("kin", "none"), case.get("equal_row"))
            if st == "bad":
                return "%s: %s" % (detail[0], detail[2])
        return None
    if kind == "trace":
        if case.get("rej"):
            t = record_reject(case["strs"][0], case["strs"][1], case["rej"][0], case["rej"][1])
            if t is None:
                return None
        elif case.get("light") is not None:
            t = record_pair(case["strs"][0], case["strs"][1], case["light"])
        elif case.get("bop"):
            t = record_boundary(case["strs"][0], case["strs"][1], case["bop"][0], case["bop"][1])
            if t is None:
                return None
        else:
            t = record_trace(case["strs"])
        bad, nrej = validate(ctx, [t], with_controls=False)
        if nrej:
            at = bad[0][1]
            if at >= len(t["events"]):
                return "collection-level observations over %r still not explained by the specification: %r" % (case["strs"], t["coll"])
            return "comparison %d of %r still not explained by the specification: %r" % (at + 1, case["strs"], t["events"][at])
        return None
    if kind == "dpkg":
        obs = observe(case["a"], case["b"])
        s = dpkg_sign(case["a"], case["b"]) if shutil.which("dpkg") else case["dpkg_sign"]
        if "exc" in obs or obs["cmp"] != s:
            return "dpkg says %r, version_compare says %r" % (s, obs.get("exc") or obs["cmp"])
        return None
    return "unknown case kind"
