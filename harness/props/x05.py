"""X05 (extra) -- two line-grammar readers of debian.deb822: Removals and GpgInfo.

STATEMENT
  (a) Removals.  For every removals paragraph written from a list of (source, version) records, a
      list of (binary, version, non-empty architecture set) records and lists of bug numbers -- one
      record per line, `name_version` resp. `name_version [arch, arch]`, any white space around the
      line, lines without an underscore interleaved, by any construction path (mapping, item
      assignment, str / bytes / line list / file parse, iter_paragraphs) -- `sources` and `binaries`
      return exactly those records in order (architectures as a set), lines without an underscore
      yield no record and never raise; `bug` (comma separated), `also_wnpp`, `also_bugs` (single
      space separated) return exactly the numbers and [] when the field is absent or empty; `date`
      is the instant written (ValueError when it cannot be parsed).  Reads can be repeated and do
      not depend on other live objects, on the other property or on what a caller did to results
      of other objects.
  (b) GpgInfo.  For every interleaving of status lines (`[GNUPG:] KEYWORD args...`, single spaces)
      and other lines, from_output yields exactly the mapping keyword -> argument list of the
      status lines (NEWSIG, KEY_CONSIDERED, PROGRESS never stored; last occurrence wins; for
      GOODSIG/EXPSIG/EXPKEYSIG/REVKEYSIG/BADSIG [keyid, uid] with the uid unsplit; no argument ->
      []), independent of the input form (str, list with or without trailing newlines;
      from_sequence with bytes / lists of bytes lines through the gpgv process), does not touch the
      caller's list, earlier GpgInfo objects stay as they were, and valid() is true exactly when
      GOODSIG or VALIDSIG is a key.
  Unspecified (executed, any outcome accepted, compared with the implementation layer of the
  specification as DRIFT only): lines with an underscore that the writer cannot produce (several
  underscores, text after the version, `[]`, `,` without space ...); a field assigned or deleted
  AFTER the first read of its property and results the caller mutated (the code keeps the stale /
  mutated memo -- observation, see report); number lists with other separators; status lines with
  an empty keyword, doubled or trailing spaces, a uid key without key id; str.splitlines() boundary
  characters other than newline and CR inside a line; a Date field that is absent.

spec:    spec/Removals.tla     line grammars: statement layer (SrcShape/BinShape/ExpSrc/ExpBin, NumStmt),
                               implementation layer (SrcMatch/BinMatch = the two regexes with re.match
                               back-tracking, split(', '), NumImpl = split + int)
         spec/RemovalsObj.tla  objects with the per-object memo, zones fresh/read/unspec
         spec/GpgStatus.tla    GStmt / RefMap / RefValid (statement), GImpl / ImplMap (loop of from_output)
         spec/TraceX05R.tla, spec/TraceX05G.tla   trace validation
model checking: Removals: every template line x <= 1 (quick; thorough 2) token edits: SrcRoundTrip,
         BinRoundTrip, SrcOnBinLine, NoUnderscoreNoRecord, LineRefines; every number-list token
         sequence of <= 5 (7) tokens: NumRefines.  RemovalsObj: closed state space, 2 interchangeable
         objects (quick: the Sources field with 5 contents, 4.4 k states; thorough: both fields, 0.4 M
         states) and the complete one-object LTS: MemoSound, NoGhostMemo, ResSound, PaletteDecided.  GpgStatus: every input of <= 3 (4) palette lines:
         ImplRefines, LastWins, StmtFoldIsRefMap, ValidIffSig, NonStatusIgnored; every single line of
         <= 8 (10) tokens: LineRefines.
         Spec-level negative controls re-run in every check (each must make TLC report the named
         invariant): SplitComma -> BinRoundTrip, SrcNeedsWs -> SrcRoundTrip, EmptyRaises -> NumRefines,
         SharedMemo -> MemoSound, ArglessQuirk -> LineRefines, FirstWins -> ImplRefines, ValidAny ->
         ValidIffSig.
binding: spec -> code: every LINE / NUM / GLINE / GCASE line and the complete one-object LTS of
         RemovalsObj carry TLC's expected result and are concretized (canonical, random, odd
         characters, size-stressed) and replayed; fields of up to 1025 lines are assembled from
         decided LINE cases (expected = concatenation of TLC's per-line results).
         code -> spec: random scripts of calls (<= 4 live Removals objects built along 9 paths,
         assignments, deletions, repeated reads, mutation of returned lists, copy(), re-creation;
         several GpgInfo calls with rechecks of earlier objects and mutations; the real gpgv on the
         repository's signed fixtures) are executed, tokenized and validated by TLC, together with
         corrupted control traces that must be rejected.
         Size stress (notes/SIZE_STRESS.md) in both legs: names / versions / arguments of 1..65537
         characters, 0..1025 lines and records, 1..257 (replay: 1000) architectures, identical
         records, numbers around 2**31, 2**32, 2**63, 10**18 with leading zeros.  Tokens stand for
         runs of any length (Removals.tla / GpgStatus.tla headers: length-independent by
         construction), so the expected result of a stressed case is TLC's result for the tokens.
"""
import json
import os
import threading
import time
from concurrent.futures import ThreadPoolExecutor

import core
import gpg_x05 as G
import removals_x05 as R
from lts import LTS, skey

MANIFEST = None
LEVEL = "model_checking"

EXTRA = dict(
    title="Line-grammar readers of deb822: Removals (Sources/Binaries/bug lists) and GpgInfo (gpgv status output)",
    statement=(
        "For every removals paragraph written from lists of (source, version) and (binary, version, non-empty "
        "architecture set) records and lists of bug numbers -- one record per line (`name_version`, "
        "`name_version [arch, arch]`), arbitrary white space around lines, lines without underscore interleaved, "
        "built by mapping, assignment or any parse path -- Removals.sources / .binaries return exactly those records "
        "in order (architectures as a set), lines without underscore contribute nothing and never raise, bug / "
        "also_wnpp / also_bugs return exactly the numbers ([] when the field is absent or empty), date returns the "
        "instant written; repeated reads agree and are independent of other live objects. "
        "For every interleaving of gpg status lines (`[GNUPG:] KEYWORD args`) and other lines GpgInfo.from_output "
        "yields exactly the mapping keyword -> argument list of the status lines (NEWSIG, KEY_CONSIDERED, PROGRESS "
        "never stored, last occurrence wins, *SIG uid keys keep [keyid, uid] with the uid unsplit, no arguments -> []) "
        "independent of str / list / bytes form and of trailing newlines (from_sequence through the gpgv process "
        "included), leaves the caller's list and earlier results untouched, and valid() is true exactly when GOODSIG "
        "or VALIDSIG is a key."),
    technique=(
        "TLA+ specs Removals (token-level statement layer + regex automata with back-tracking), RemovalsObj "
        "(per-object memo, zones), GpgStatus (statement mapping + loop automaton of from_output) model-checked by "
        "TLC over bounded neighbourhoods of the grammars with 7 spec-level negative controls; every TLC case "
        "replayed into the real classes with canonical / random / size-stressed concretizations; recorded "
        "executions (multi-object scripts, real gpgv) tokenized and validated by TLC with corrupted control traces."))

KNOWN = [
    dict(id="X05-empty-number-field",
         signature="Removals.bug / also_wnpp / also_bugs raise ValueError (int('')) when the field is present but "
                   "empty, expected [] -- e.g. 'Also-WNPP:' in paragraphs 4 and 6 of the library's own "
                   "lib/debian/tests/test_removals.822"),
    dict(id="X05-argless-keyword",
         signature="GpgInfo.from_output stores a status line without arguments ('[GNUPG:] BADARMOR') under the "
                   "keyword minus its last character with value [keyword] ({'BADARMO': ['BADARMOR']}), expected "
                   "keyword -> []; valid() misses an argless GOODSIG / VALIDSIG"),
]

NEG_CONTROLS = [
    ("Removals", "Removals_neg.cfg", "SplitComma", "BinRoundTrip"),
    ("Removals", "Removals_neg.cfg", "SrcNeedsWs", "SrcRoundTrip"),
    ("Removals", "Removals_neg.cfg", "EmptyRaises", "NumRefines"),
    ("RemovalsObj", "RemovalsObj_neg.cfg", None, "MemoSound"),
    ("GpgStatus", "GpgStatus_line_neg.cfg", "ArglessQuirk", "LineRefines"),
    ("GpgStatus", "GpgStatus_neg.cfg", "FirstWins", "ImplRefines"),
    ("GpgStatus", "GpgStatus_neg.cfg", "ValidAny", "ValidIffSig"),
]
JOPTS = ["-XX:TieredStopAtLevel=1", "-Xss64m"]
JOPTS_T = ["-Xss64m"]


class Run:
    """per-run bookkeeping shared by the legs"""

    def __init__(self, ctx):
        self.ctx = ctx
        self.known = {}
        self.drift = {}
        self.lock = threading.Lock()

    def known_hit(self, fid):
        self.known[fid] = self.known.get(fid, 0) + 1

    def drifted(self, what, detail):
        self.drift[what] = self.drift.get(what, 0) + 1
        if self.drift[what] <= 2:
            self.ctx.drift("%s: %s" % (what, detail))


def jopts(ctx):
    return JOPTS if ctx.tier == "quick" else JOPTS_T


# ------------------------------------------------------------------ TLC helpers

def printed(r, tag):
    out = []
    for v in r.printed.get(tag, []):
        out.append(v)
    return out


def neg_control(ctx, module, cfg, const, inv):
    base = open(os.path.join(core.SPEC, cfg)).read()
    text = base
    if const:
        text = base.replace("%s = FALSE" % const, "%s = TRUE" % const)
        if text == base:
            raise core.MachineryError("negative control %s not found in %s" % (const, cfg))
    r = ctx.tlc(module, text if const else cfg, workers=1, count=False, want_tags=set())
    if r.violated != inv:
        raise core.MachineryError("negative control %s/%s: expected TLC to report %s, got %r" % (module, const or cfg, inv, r.violated))
    return "%s:%s" % (module, const or "SharedMemo"), inv


def validate(ctx, module, cfg, traces, controls=(), diag=False):
    """core.validate_traces plus the DRIFT tag (diagnostic output of the X05 trace modules)"""
    path = os.path.join(ctx.work, "x05-traces-%d-%d.json" % (len(ctx.tlc_runs), int(time.time() * 1000) % 100000))
    nreal = len(traces)
    allt = list(traces) + list(controls)
    with open(path, "w") as f:
        json.dump(allt, f)
    r = ctx.tlc(module, cfg, workers=1, env={"TRACE_FILE": path, "TRACE_DIAG": "1" if diag else "0"},
                want_tags={"ACCEPTED", "AT", "DRIFT"}, java_opts=jopts(ctx))
    os.unlink(path)
    if r.violated:
        raise core.MachineryError("trace module %s reported %s\n%s" % (module, r.violated, r.tail))
    acc = set(v if isinstance(v, int) else v[0] for v in r.printed.get("ACCEPTED", []))
    bad = [i for i in acc if i > nreal]
    if bad and all(i in acc for i in range(1, nreal + 1)):
        raise core.MachineryError("trace module %s accepted %d corrupted control trace(s) (%s): binding is vacuous" % (
            module, len(bad), [i - nreal for i in bad]))
    ctx.extra["negative_controls_rejected"] = ctx.extra.get("negative_controls_rejected", 0) + len(controls)
    prog = {}
    for v in r.printed.get("AT", []):
        if v[1] > prog.get(v[0], 0):
            prog[v[0]] = v[1]
    drift = [v for v in r.printed.get("DRIFT", []) if v[0] <= nreal]
    return acc, prog, drift, r


# ------------------------------------------------------------------ (a) spec -> code: LINE cases

def rec_py(f, rec, texts):
    """a record of the specification (token positions) -> what the property must return for it"""
    def txt(ps):
        return "".join(texts[p - 1] for p in ps)
    if f == "src":
        return {"source": txt(rec["pkg"]), "version": txt(rec["ver"])}
    return {"package": txt(rec["pkg"]), "version": txt(rec["ver"]), "architectures": {txt(a) for a in rec["archs"]}}


def want_of(f, exp, texts):
    if exp["m"] == "rec":
        return [rec_py(f, exp, texts)]
    if exp["m"] == "none":
        return []
    return None


def same_result(f, st, v, want):
    if st != "ok" or not isinstance(v, list) or v != want:
        return False
    if f == "bin":
        return all(isinstance(d.get("architectures"), (set, frozenset)) for d in v)
    return True


def short(x, n=300):
    s = repr(x)
    return s if len(s) <= n else s[:n // 2] + " ...[%d chars]... " % len(s) + s[-n // 2:]


def check_line(case, texts, path="mapping"):
    """-> (violation message or None, [drift notes])"""
    line = "".join(texts)
    drift = []
    r = R.build(path, {"src": line, "bin": line})
    for f in ("src", "bin"):
        st, v = R.observe(r, R.PROP[f])
        want = want_of(f, case["e" + f], texts)
        if want is not None:
            if not same_result(f, st, v, want):
                return ("Removals(%s=%s).%s: %s %s, specification (line %s) says %s" % (
                    R.FIELD[f], short(line), R.PROP[f], st, short(v), "".join(c[0] for c in case["cs"]) or "empty", short(want))), drift
            st2, v2 = R.observe(r, R.PROP[f])
            if not same_result(f, st2, v2, want):
                return "Removals(%s=%s).%s: second read gives %s %s, first %s" % (R.FIELD[f], short(line), R.PROP[f], st2, short(v2), short(want)), drift
        else:
            iw = want_of(f, case["i" + f], texts)
            if iw is not None and not same_result(f, st, v, iw):
                drift.append("%s line %s: %s %s, implementation layer says %s" % (f, short(line, 80), st, short(v, 120), short(iw, 120)))
    return None, drift


def replay_lines(run, cases, quick):
    ctx, rng = run.ctx, run.ctx.rng
    seen, n = set(), 0
    shapes = {"src-rec": 0, "bin-rec": 0, "none": 0, "unspec": 0}
    sample_done = 0
    for case in sorted(cases, key=lambda c: (len(c["cs"]), c["cs"])):
        key = tuple(case["cs"])
        if key in seen:
            continue
        seen.add(key)
        if len(ctx.violations) >= 5:
            break
        n += 1
        for f in ("src", "bin"):
            m = case["e" + f]["m"]
            shapes[f + "-rec" if m == "rec" else m] += 1
        styles = ["canon", rng.choice(("plain", "odd"))]
        if n % 5 == 0:
            styles.append("long")
        if case["esrc"]["m"] == "rec" or case["ebin"]["m"] == "rec":      # the writer's image: many more texts
            styles += ["plain", "odd", "long", "long", "plain", "odd", "long", "plain"]
        for style in styles:
            texts = R.conc_line(case["cs"], rng, style)
            path = "mapping" if style != "plain" or rng.random() < 0.7 else "assign"
            msg, drift = check_line(case, texts, path)
            for d in drift:
                run.drifted("removals-line", d)
            if msg:
                ctx.violation({"kind": "line", "case": case, "texts": texts, "path": path}, msg)
                break
        ctx.case_seen(("line", key), bool(key))
        if sample_done < 2 and case["ebin"]["m"] == "rec" and len(case["ebin"]["archs"]) >= 2 and len(key) >= 12:
            t = R.conc_line(case["cs"], rng, "plain")
            ctx.sample("LINE %s e.g. %r -> binaries %s" % (" ".join(key), "".join(t), short(want_of("bin", case["ebin"], t), 200)))
            sample_done += 1
    ctx.extra["removals_line_cases"] = n
    ctx.extra["removals_line_verdicts"] = shapes
    return [c for c in cases]


def replay_fields(run, cases, quick):
    """whole fields assembled from decided LINE cases: expected = concatenation of TLC's per-line results.
    Size stress: 0..1025 lines, long words, identical lines, all construction paths."""
    ctx, rng = run.ctx, run.ctx.rng
    uniq = {}
    for c in cases:
        uniq.setdefault(tuple(c["cs"]), c)
    cases = [uniq[k] for k in sorted(uniq)]
    pool = {f: [c for c in cases if c["e" + f]["m"] != "unspec" and c["cs"]] for f in ("src", "bin")}
    recs = {f: [c for c in pool[f] if c["e" + f]["m"] == "rec"] for f in ("src", "bin")}
    nfields = 60 if quick else 400
    sizes = {}
    for n in range(nfields):
        if len(ctx.violations) >= 5:
            break
        f = ("src", "bin")[n % 2]
        path = rng.choice(R.PATHS)
        text_path = path not in ("mapping", "assign")
        big = (n % 10 == 0)
        count = rng.choice((255, 256, 257, 1000, 1025)) if big and n % 20 == 0 else (R.heavy_count(rng, 101) if big else rng.randint(0, 6))
        lines, want, prev = [], [], None
        tries = 0
        while len(lines) < count and tries < 4 * count + 20:
            tries += 1
            k = len(lines)
            c = rng.choice(recs[f]) if rng.random() < 0.8 else rng.choice(pool[f])
            lead = c["cs"][0] in ("SP", "WS")
            if not lead and (k > 0 or text_path):
                continue
            if text_path and all(x in ("SP", "WS") for x in c["cs"]):
                continue
            if prev is not None and rng.random() < 0.15:
                texts, c = prev                                   # the same line again (identical records)
            else:
                style = "long" if (big and rng.random() < 0.2) or rng.random() < 0.03 else rng.choice(("plain", "plain", "odd"))
                texts = R.conc_line(c["cs"], rng, style, text_safe=text_path)
            prev = (texts, c)
            lines.append("".join(texts))
            want += want_of(f, c["e" + f], texts)
        form = "std" if text_path or rng.random() < 0.7 else "first"
        val = R.value_of(lines, form)
        if val is None:
            val = R.value_of(lines, "std")
        if val is None:
            continue
        fields = {f: val}
        if text_path and not R.text_ok(fields):
            path = "mapping"
        keep = []
        r = R.build(path, fields, rng.choice(("title", "lower", "upper")), keep)
        st, v = R.observe(r, R.PROP[f])
        sizes[len(lines)] = sizes.get(len(lines), 0) + 1
        ctx.case_seen(("field", n), True)
        ok = same_result(f, st, v, want)
        other = R.observe(r, R.PROP["bin" if f == "src" else "src"])
        if ok and other != ("ok", []):
            ctx.violation({"kind": "field", "f": f, "path": path, "value": val, "want": want_json(want), "other": True},
                          "Removals with only %s set: %s is %s, expected []" % (R.FIELD[f], R.PROP["bin" if f == "src" else "src"], short(other)))
        if not ok:
            ctx.violation({"kind": "field", "f": f, "path": path, "value": val, "want": want_json(want)},
                          "Removals built via %s with %s of %d lines %s: %s gives %s %s, specification (per-line results of TLC) says %s" % (
                              path, R.FIELD[f], len(lines), short(val, 200), R.PROP[f], st, short(v), short(want)))
    ctx.extra["removals_fields_replayed"] = sum(sizes.values())
    ctx.extra["removals_field_line_counts_max"] = max(sizes) if sizes else 0


def want_json(want):
    return [dict(d, architectures=sorted(d["architectures"])) if "architectures" in d else d for d in want]


def want_unjson(want):
    return [dict(d, architectures=set(d["architectures"])) if "architectures" in d else d for d in want]


# ------------------------------------------------------------------ (a) spec -> code: NUM cases

def num_want(res, texts):
    if res["k"] == "ok":
        return ("ok", [int(texts[p - 1]) for p in res["nums"]])
    if res["k"] == "ValueError":
        return ("ValueError", None)
    return None


def check_num(run, case, texts, path="mapping"):
    text = "".join(texts)
    for key in ("bug", "wnpp", "bugs"):
        kind = R.NUMKIND[key]
        stmt, impl = case["s" + kind], case["i" + kind]
        if path != "mapping" and text != text.strip():
            path = "mapping"
        r = R.build(path, {key: text})
        st, v = R.observe(r, R.PROP[key])
        obs = (st, v if st == "ok" else None)
        want = num_want(stmt, texts)
        if want is not None:
            if obs != want or (st == "ok" and any(type(x) is not int for x in v)):
                if not case["cs"] and obs == num_want(impl, texts):
                    run.known_hit("X05-empty-number-field")
                    continue
                return "Removals(%s=%r).%s: %s %s, specification says %s" % (R.FIELD[key], text, R.PROP[key], st, short(v), want)
        else:
            iw = num_want(impl, texts)
            if iw is not None and obs != iw:
                run.drifted("removals-num", "%s=%r: %s %s, implementation layer says %s" % (R.FIELD[key], text, st, short(v, 80), iw))
    return None


def replay_nums(run, cases, quick):
    ctx, rng = run.ctx, run.ctx.rng
    n = 0
    for case in sorted(cases, key=lambda c: (len(c["cs"]), c["cs"])):
        if len(ctx.violations) >= 5:
            break
        n += 1
        for style in ("canon", "plain"):
            texts = R.conc_num(case["cs"], rng, style)
            path = rng.choice(("mapping", "mapping", "assign", "str", "bytes", "linesnl"))
            msg = check_num(run, case, texts, path)
            if msg:
                ctx.violation({"kind": "num", "case": case, "texts": texts, "path": path}, msg)
                break
        ctx.case_seen(("num", tuple(case["cs"])), bool(case["cs"]))
    # the field is absent
    for key in ("bug", "wnpp", "bugs"):
        for path in ("mapping", "str"):
            r = R.build(path, {"date": "Wed, 01 Jan 2014 17:03:54 +0000"})
            st, v = R.observe(r, R.PROP[key])
            if (st, v) != ("ok", []):
                ctx.violation({"kind": "numabsent", "key": key, "path": path}, "Removals without %s: %s gives %s %s, expected []" % (R.FIELD[key], R.PROP[key], st, v))
    ctx.extra["removals_num_cases"] = n


# ------------------------------------------------------------------ (a) spec -> code: the object LTS

PAL_FIXED = {90: " ", 91: "_", 92: "[", 93: "]", 94: ","}


def pal_texts(rng, style):
    t = dict(PAL_FIXED)
    for i in range(1, 8):
        if style == "canon":
            t[i] = "w%d" % i
        else:
            t[i] = R.word(rng, R.heavy_len(rng) if style == "long" else rng.randint(1, 9), R.VER_CH) + "q%d" % i
    return t


def obj_rec_py(f, rec, t):
    def txt(ids):
        return "".join(t[i] for i in ids)
    if f == "src":
        return {"source": txt(rec["pkg"]), "version": txt(rec["ver"])}
    return {"package": txt(rec["pkg"]), "version": txt(rec["ver"]), "architectures": {txt(a) for a in rec["archs"]}}


def run_obj_path(path, t, path_kind="mapping"):
    """replay a path of LTS edges on fresh real objects -> message or None, drift notes"""
    objs, held, keep, drift = {}, {}, [], []

    def obj(o):
        if o not in objs:
            objs[o] = R.build(path_kind, {})
        return objs[o]
    for e in path:
        op, a = e["op"], e["args"]
        if op == "assign":
            lines = ["".join(t[tk["i"]] for tk in l) for l in a[2]]
            obj(a[0])[R.FIELD[a[1]]] = R.value_of(lines, "std")
        elif op == "drop":
            del obj(a[0])[R.FIELD[a[1]]]
        elif op == "mutate":
            R.mutate_result(held[(a[0], a[1])], "append")
        elif op == "fresh":
            if a[0] in objs:
                keep.append(objs[a[0]])
            objs[a[0]] = R.build(path_kind, {})
            for k in [k for k in held if k[0] == a[0]]:
                keep.append(held.pop(k))
        elif op == "copy":
            objs[a[1]] = obj(a[0]).copy()
            for k in [k for k in held if k[0] == a[1]]:
                keep.append(held.pop(k))
        elif op == "read":
            o, f = a
            st, v = R.observe(obj(o), R.PROP[f])
            if st == "ok":
                held[(o, f)] = v
            want = [obj_rec_py(f, rec, t) for rec in e["res"]["v"]]
            clean = e["to"]["zone"][o - 1][f] == "read"
            if clean:
                if not same_result(f, st, v, want):
                    return ("after %s: %s of object %d gives %s %s, specification says %s" % (
                        " ".join("%s%s" % (x["op"], tuple(y if not isinstance(y, list) else len(y) for y in x["args"])) for x in path),
                        R.PROP[f], o, st, short(v), short(want))), drift
            elif e["res"]["mut"] or not same_result(f, st, v, want):
                if not e["res"]["mut"]:
                    drift.append("unspecified zone: %s %s, memo model says %s" % (st, short(v, 100), short(want, 100)))
    return None, drift


def replay_lts(run, edges, quick):
    ctx, rng = run.ctx, run.ctx.rng
    if not edges:
        raise core.MachineryError("RemovalsObj emitted no EDGE")
    init = None
    for e in edges:
        s = e["from"]
        if all(z == "fresh" for zz in s["zone"] for z in zz.values()) and not any(x["has"] for ff in s["fld"] for x in ff.values()) \
                and not any(m["set"] for mm in s["memo"] for m in mm.values()):
            init = s
            break
    if init is None:
        raise core.MachineryError("RemovalsObj LTS: initial state not found")
    g = LTS(edges, init)
    paths = g.paths()
    nrun = 0
    stale = 0
    for n, e in enumerate(g.edges):
        if len(ctx.violations) >= 5:
            break
        if e["_f"] not in paths:
            continue
        style = "canon" if n % 3 else rng.choice(("plain", "long"))
        t = pal_texts(rng, style)
        msg, drift = run_obj_path(paths[e["_f"]] + [e], t, "mapping" if n % 2 else "assign")
        nrun += 1
        stale += len(drift)
        for d in drift:
            run.drifted("removals-memo", d)
        if msg:
            ctx.violation({"kind": "objpath", "path": [strip_edge(x) for x in paths[e["_f"]] + [e]], "texts": {str(k): v for k, v in t.items()}}, msg)
    for w in range(40 if quick else 300):
        if len(ctx.violations) >= 5:
            break
        path = g.walk(rng, g.init, 30)
        t = pal_texts(rng, "plain")
        msg, drift = run_obj_path(path, t, rng.choice(("mapping", "assign", "str")))
        nrun += 1
        if msg:
            ctx.violation({"kind": "objpath", "path": [strip_edge(x) for x in path], "texts": {str(k): v for k, v in t.items()}}, msg)
    ctx.traces += nrun
    ctx.extra["removals_obj_lts"] = {"states": len(g.states), "edges": len(g.edges), "paths_replayed": nrun}


def strip_edge(e):
    return {k: e[k] for k in ("op", "args", "res", "to")}


# ------------------------------------------------------------------ (b) spec -> code: GLINE / GCASE

def gmap_want(conc, stmt):
    if stmt["k"] == "skip":
        return {}
    if stmt["k"] == "store":
        return {conc.key(stmt["key"]): conc.value(stmt["val"])}
    return None


def g_observe(lines, nls, form, err=None):
    st, g = G.call(lines, nls, form, err)
    if st != "ok":
        return st, None, None
    try:
        return "ok", dict(g), g.valid()
    except Exception as e:          # noqa: BLE001
        return "valid() raised %s" % type(e).__name__, dict(g), None


def replay_glines(run, cases, quick):
    ctx, rng = run.ctx, run.ctx.rng
    n = 0
    kinds = {"skip": 0, "store": 0, "unspec": 0}
    sampled = 0
    for case in sorted(cases, key=lambda c: (len(c["cs"]), c["cs"])):
        if len(ctx.violations) >= 5:
            break
        n += 1
        stmt, impl = case["stmt"], case["impl"]
        kinds[stmt["k"]] += 1
        for rep, style in enumerate(("canon", rng.choice(("plain", "odd", "long")) if n % 4 == 0 else "plain")):
            conc = G.GConc(rng, style)
            text, nl = conc.line(case["toks"])
            if nl:
                form = "mixed"
            else:
                form = ("str", "list", "tuple", "strnl", "bytes", "byteslist")[(n + rep) % 6]
                if form.startswith("bytes") and n % 7:
                    form = "list"
            st, m, valid = g_observe([text], [nl], form)
            want = gmap_want(conc, stmt)
            if want is not None:
                wv = stmt["k"] == "store" and stmt["key"] in (1, 2)
                if st != "ok" or m != want or valid is not wv:
                    iw = gmap_want(conc, impl)
                    body = [x for x in case["cs"][2:] if x != "NL"]
                    argless = case["cs"][:2] == ["H", "SP"] and len(body) == 1
                    if argless and st == "ok" and m == iw and valid is False:
                        run.known_hit("X05-argless-keyword")
                        continue
                    ctx.violation({"kind": "gline", "case": case, "text": text, "nl": nl, "form": form,
                                   "want": want, "valid": wv},
                                  "GpgInfo(%s) of the line %r%s: %s %s valid()=%s, specification says %s valid()=%s" % (
                                      form, text, " + newline" if nl else "", st, short(m), valid, short(want), wv))
                    break
            else:
                iw = gmap_want(conc, impl)
                if iw is not None and (st != "ok" or m != iw):
                    run.drifted("gpg-line", "%r: %s %s, implementation layer says %s" % (text[:80], st, short(m, 100), short(iw, 100)))
        ctx.case_seen(("gline", tuple(case["cs"])), len(case["cs"]) > 2)
        if sampled < 1 and stmt["k"] == "store" and len(stmt["val"]) >= 2 and stmt["key"] == 1:
            c2 = G.GConc(rng, "plain")
            t2, _ = c2.line(case["toks"])
            ctx.sample("GLINE %s e.g. %r -> %s" % (" ".join(case["cs"]), t2, short(gmap_want(c2, stmt), 200)))
            sampled += 1
    ctx.extra["gpg_line_cases"] = n
    ctx.extra["gpg_line_verdicts"] = kinds


def replay_gcases(run, pal, cases, quick):
    ctx, rng = run.ctx, run.ctx.rng
    n = 0
    forms_used = {}
    for case in sorted(cases, key=lambda c: (len(c["ix"]), c["ix"])):
        if len(ctx.violations) >= 5:
            break
        n += 1
        toks = [pal[i - 1] for i in case["ix"]]
        reps = ["canon", "plain"] + (["long"] if n % 11 == 0 else [])
        for rep, style in enumerate(reps):
            conc = G.GConc(rng, style)
            pairs = [conc.line(t) for t in toks]
            lines, nls = [p[0] for p in pairs], [p[1] for p in pairs]
            form = rng.choice(("str", "strnl", "list", "listnl", "tuple", "mixed")) if (n + rep) % 30 else rng.choice(G.FORMS)
            err = None
            if not G.is_bytes_form(form) and rng.random() < 0.2:
                err = rng.choice(("[GNUPG:] GOODSIG E E\n", ["[GNUPG:] VALIDSIG e\n"], ""))
            forms_used[form] = forms_used.get(form, 0) + 1
            st, m, valid = g_observe(lines, nls, form, err)
            want, wv = conc.mapping(case["map"]), case["valid"]
            if case["decided"]:
                if st != "ok" or m != want or valid is not wv:
                    iw, iv = conc.mapping(case["imap"]), case["ivalid"]
                    if 13 in case["ix"] and st == "ok" and m == iw and valid is iv:
                        run.known_hit("X05-argless-keyword")
                        continue
                    ctx.violation({"kind": "gcase", "case": case, "lines": lines, "nls": nls, "form": form, "err": err,
                                   "want": want, "valid": wv},
                                  "GpgInfo(%s) of %s: %s %s valid()=%s, specification says %s valid()=%s" % (
                                      form, short(lines), st, short(m), valid, short(want), wv))
                    break
        ctx.case_seen(("gcase", tuple(case["ix"])), len(case["ix"]) > 1)
        if n == 700:
            c2 = G.GConc(rng, "plain")
            ctx.sample("GCASE %s e.g. %s -> %s valid=%s" % (case["ix"], short([c2.line(t)[0] for t in toks], 240), short(c2.mapping(case["map"]), 200), case["valid"]))
    ctx.extra["gpg_multi_line_cases"] = n
    ctx.extra["gpg_forms"] = dict(sorted(forms_used.items()))


# ------------------------------------------------------------------ code -> spec: recorded executions

def describe_r(trace, script, at):
    ev = trace[at] if at < len(trace) else None
    ops = [o for o in script]
    return "event %d %s; script: %s" % (at + 1, short(ev, 500), short([{k: (v if not isinstance(v, (str, dict)) else short(v, 60)) for k, v in o.items()} for o in ops], 900))


def recorded_removals(run, quick):
    ctx, rng = run.ctx, run.ctx.rng
    scripts, eligible = [], set()
    nsmall, nbig = (26, 4) if quick else (200, 30)
    for i in range(nsmall):
        und = 0.0 if i % 2 == 0 else 0.15
        scripts.append(R.random_script(rng, rng.randint(1, 4), rng.randint(8, 24), big=False, undecided=und))
        if und == 0.0:
            eligible.add(len(scripts) - 1)
    for i in range(nbig):
        scripts.append(R.random_script(rng, 2, 6, big=True, undecided=0.0))
        eligible.add(len(scripts) - 1)
    # one very large paragraph: 1000+ lines, read twice, next to a small one
    big_lines = [R.write_src_line(rng, rec, text_safe=True) for rec in R.random_records(rng, "src", rng.choice((1000, 1025)), False)]
    scripts.append([{"op": "new", "o": 1, "path": rng.choice(("mapping", "str", "bfile")), "fields": {"src": R.value_of(big_lines, "std")}},
                    {"op": "new", "o": 2, "path": "mapping", "fields": {"src": "\n a_1"}},
                    {"op": "read", "o": 1, "f": "src"}, {"op": "read", "o": 2, "f": "src"}, {"op": "read", "o": 1, "f": "src"},
                    {"op": "read", "o": 1, "f": "bin"}])
    eligible.add(len(scripts) - 1)
    arch_line = R.write_bin_line(rng, ("pkg", "1.0", ["a%d" % k for k in range(rng.choice((255, 256, 257)))]))
    scripts.append([{"op": "new", "o": 1, "path": "assign", "fields": {"bin": R.value_of([arch_line, arch_line], "std")}},
                    {"op": "read", "o": 1, "f": "bin"}, {"op": "line", "f": "bin", "line": arch_line}])
    eligible.add(len(scripts) - 1)
    # probes: numbers, dates, single lines
    scripts.append([R.probe_op(rng) for _ in range(60 if quick else 600)])
    # the known finding is claimed in dedicated one-event traces (TLC checks the claim)
    nk0 = len(scripts)
    for key in ("bug", "wnpp", "bugs"):
        for path, text in (("mapping", ""), ("str", ""), ("assign", "")):
            scripts.append([{"op": "num", "key": key, "text": text, "path": path, "known": True}])
    traces = [R.exec_script(s) for s in scripts]
    controls = R.control_traces(traces, eligible)
    if len(controls) < 6:
        raise core.MachineryError("only %d control traces could be derived" % len(controls))
    return dict(scripts=scripts, traces=traces, controls=controls, nk0=nk0)


def finish_removals(run, prep, res):
    ctx = run.ctx
    scripts, traces, controls, nk0 = prep["scripts"], prep["traces"], prep["controls"], prep["nk0"]
    acc, _, drift, _ = res
    rejected = [i for i in range(1, len(traces) + 1) if i not in acc]
    # a rejected claim of the known finding: maybe the code is fixed -- the statement itself must then hold
    retry = [i for i in rejected if i > nk0]
    if retry:
        for i in retry:
            scripts[i - 1][0]["known"] = False
        t2 = [R.exec_script(scripts[i - 1]) for i in retry]
        acc2, _, _, _ = validate(ctx, "TraceX05R", "TraceX05R.cfg", t2)
        for j, i in enumerate(retry):
            if j + 1 in acc2:
                rejected.remove(i)
                traces[i - 1] = t2[j]
    for i in range(nk0 + 1, len(traces) + 1):
        if i not in rejected and traces[i - 1][0]["known"]:
            run.known_hit("X05-empty-number-field")
    ctx.traces += len(traces)
    ctx.evaluations += sum(len(t) for t in traces)
    for i in range(len(traces)):
        ctx.distinct.add(("rtrace", i))
    ctx.extra["removals_traces"] = {"recorded": len(traces), "events": sum(len(t) for t in traces), "rejected": len(rejected),
                                    "controls": len(controls), "drift_events": len(drift)}
    if drift:
        run.drift["removals-trace"] = len(drift)
    ctx.sample("recorded Removals script: %s" % short([(o["op"], o.get("o"), o.get("f") or o.get("path")) for o in scripts[0]][:12], 300))
    if rejected:
        sub = [traces[i - 1] for i in rejected[:5]]
        _, prog, _, _ = validate(ctx, "TraceX05R", "TraceX05R.cfg", sub, diag=True)
        for j, i in enumerate(rejected[:5]):
            at = prog.get(j + 1, 0)
            ctx.violation({"kind": "rtrace", "script": scripts[i - 1]},
                          "recorded Removals execution not explained by the specification at " + describe_r(traces[i - 1], scripts[i - 1], at))


def recorded_gpg(run, quick):
    ctx, rng = run.ctx, run.ctx.rng
    scripts, eligible = [], set()
    n = 36 if quick else 300
    for i in range(n):
        style = ("plain", "odd", "plain", "long")[i % 4]
        if style == "long" and quick and i % 8 != 3:
            style = "plain"
        scripts.append(G.random_script(rng, rng.randint(1, 5), style))
        eligible.add(i)
    # 1000+ status lines in one call, every form of input
    scripts.append([{"op": "call", "id": 1, "form": rng.choice(("str", "listnl", "bytes", "byteslistnl")),
                     "lines": G.random_lines(rng, "plain", rng.choice((1000, 1025)))}, {"op": "recheck", "id": 1}])
    nreal0 = len(scripts)
    for f, how in (("changes", "bytes"), ("changes", "lines"), ("test_Dsc.badsig", "file"), ("test_Changes", "bytes"), ("test_BuildInfo", "lines")):
        scripts.append([{"op": "call", "id": 1, "form": "gpgv", "file": f, "how": how}, {"op": "recheck", "id": 1}])
    nk0 = len(scripts)
    for _ in range(12 if quick else 60):
        scripts.append(G.argless_script(rng))
    traces = [G.exec_script(s, ctx.repo) for s in scripts]
    real = sum(1 for t in traces[nreal0:nk0] if t)
    ctx.extra["real_gpgv_runs"] = real
    if real == 0:
        ctx.assumptions.append("the real gpgv could not be run on the repository's signed fixtures: only the stand-in process was used")
    keep = [i for i, t in enumerate(traces) if t]
    traces = [traces[i] for i in keep]
    scripts = [scripts[i] for i in keep]
    nk = sum(1 for i in keep if i < nk0)
    eligible = {keep.index(i) for i in eligible if i in keep}
    # undecided lines make a trace useless as control source
    controls = G.control_traces(traces, eligible_decided(traces, eligible))
    if len(controls) < 4:
        raise core.MachineryError("only %d GpgInfo control traces could be derived" % len(controls))
    return dict(scripts=scripts, traces=traces, controls=controls, nk=nk)


def finish_gpg(run, prep, res):
    ctx = run.ctx
    scripts, traces, controls, nk = prep["scripts"], prep["traces"], prep["controls"], prep["nk"]
    acc, _, drift, _ = res
    rejected = [i for i in range(1, len(traces) + 1) if i not in acc]
    retry = [i for i in rejected if i > nk]
    if retry:
        for i in retry:
            scripts[i - 1][0]["known"] = False
        t2 = [G.exec_script(scripts[i - 1], ctx.repo) for i in retry]
        acc2, _, _, _ = validate(ctx, "TraceX05G", "TraceX05G.cfg", t2)
        for j, i in enumerate(retry):
            if j + 1 in acc2:
                rejected.remove(i)
                traces[i - 1] = t2[j]
    for i in range(nk + 1, len(traces) + 1):
        if i not in rejected and traces[i - 1][0]["known"]:
            run.known_hit("X05-argless-keyword")
    ctx.traces += len(traces)
    ctx.evaluations += sum(len(t) for t in traces)
    for i in range(len(traces)):
        ctx.distinct.add(("gtrace", i))
    ctx.extra["gpg_traces"] = {"recorded": len(traces), "events": sum(len(t) for t in traces), "rejected": len(rejected),
                               "controls": len(controls), "drift_events": len(drift),
                               "longest_input_lines": max(len(e["lines"]) for t in traces for e in t if e["op"] == "call")}
    if drift:
        run.drift["gpg-trace"] = len(drift)
    if rejected:
        sub = [traces[i - 1] for i in rejected[:5]]
        _, prog, _, _ = validate(ctx, "TraceX05G", "TraceX05G.cfg", sub, diag=True)
        for j, i in enumerate(rejected[:5]):
            at = prog.get(j + 1, 0)
            t = traces[i - 1]
            ev = t[at] if at < len(t) else None
            sc = scripts[i - 1]
            ctx.violation({"kind": "gtrace", "script": sc},
                          "recorded GpgInfo execution not explained by the specification at event %d (%s%s); observed %s; script %s" % (
                              at + 1, ev and ev["op"], (" " + ev["exc"]) if ev and ev.get("exc") else "",
                              short(ev and {"map": ev.get("map"), "valid": ev.get("valid")}, 400), short(sc, 900)))


def eligible_decided(traces, eligible):
    """control sources: traces whose calls contain only lines of the shapes the statement decides
    (selection of controls only -- never a verdict): status lines `H SP W (SP W)*` or no header"""
    out = set()
    for n in eligible:
        ok = True
        for e in traces[n]:
            if e["op"] != "call":
                continue
            for l in e["lines"]:
                cs = [t["c"] for t in l if t["c"] != "NL"]
                if len(cs) >= 2 and cs[0] == "H" and cs[1] == "SP":
                    body = cs[2:]
                    uid = len(l) > 2 and l[2]["i"] in (1, 3, 4, 5, 6)
                    if uid:
                        good = len(body) >= 5 and body[:3] == ["W", "SP", "W"] and body[3] == "SP"
                        good = good or body == ["W", "SP", "W"]
                    else:
                        good = len(body) >= 3 and len(body) % 2 == 1 and all(c == ("W" if k % 2 == 0 else "SP") for k, c in enumerate(body))
                    if l[2:3] and l[2]["i"] in (7, 8, 9):
                        good = True
                    if not good:
                        ok = False
        if ok:
            out.add(n)
    return out


# ------------------------------------------------------------------ the check

def run(ctx):
    quick = ctx.tier == "quick"
    os.environ["TZ"] = "UTC"
    time.tzset()
    state = Run(ctx)
    ctx.assumptions += [
        "small scope for the exhaustive parts (template lines x %s token edits; number lists <= %s tokens; <= %s status lines over a 14-line palette; single status lines <= %s tokens; 2 Removals objects); token texts are sampled (seeded)" % (
            (1, 5, 3, 8) if quick else (2, 7, 4, 10)),
        "a W token stands for a run of any length: the readers never cut inside a run in the decided domain (Removals.tla / GpgStatus.tla headers)",
        "no str.splitlines() boundary character other than newline occurs inside a line; process time zone UTC for `date`",
        "unspecified, executed, compared as drift only: lines with an underscore outside the writer's image, fields assigned after the first read of the property, results mutated by the caller, odd separators in number lists, status lines with empty keyword / doubled or trailing spaces",
        "trusted: TLC, the tokenizers / concretizers of harness/removals_x05.py and harness/gpg_x05.py, /bin/sh -c cat as gpgv stand-in, email.utils.format_datetime as writer of Date",
    ]
    pool = ThreadPoolExecutor(max_workers=6 if quick else 4)
    w2 = 2
    wobj = 2 if quick else 4
    fut = {}
    # design level + emission (spec -> code); all independent of /repo
    fut["gcases"] = pool.submit(ctx.tlc_must_hold, "GpgStatus", "GpgStatus_quick.cfg" if quick else "GpgStatus_bnd.cfg", workers=1, want_tags={"GCASE", "GPAL"})
    fut["glines"] = pool.submit(ctx.tlc_must_hold, "GpgStatus", "GpgStatus_line.cfg" if quick else "GpgStatus_line_bnd.cfg", workers=1, want_tags={"GLINE"})
    fut["lines1"] = pool.submit(ctx.tlc_must_hold, "Removals", "Removals_quick.cfg", workers=1, want_tags={"LINE"})
    fut["lines2"] = pool.submit(ctx.tlc_must_hold, "Removals", "Removals_quick2.cfg", workers=1, want_tags={"LINE"})
    # code -> spec: record executions of the real classes now, TLC validates them in the background
    tm = {}
    t0 = time.time()

    def lap(name):
        nonlocal t0
        tm[name] = round(time.time() - t0, 1)
        t0 = time.time()
    pg = recorded_gpg(state, quick)
    pr = recorded_removals(state, quick)
    lap("record_executions")
    fr = pool.submit(validate, ctx, "TraceX05R", "TraceX05R.cfg", pr["traces"], pr["controls"])
    time.sleep(0.05)
    fg = pool.submit(validate, ctx, "TraceX05G", "TraceX05G.cfg", pg["traces"], pg["controls"])
    fut["obj"] = pool.submit(ctx.tlc_must_hold, "RemovalsObj", "RemovalsObj_quick.cfg" if quick else "RemovalsObj_bnd.cfg", workers=wobj, want_tags=set())
    fut["nums"] = pool.submit(ctx.tlc_must_hold, "Removals", "Removals_num.cfg" if quick else "Removals_num_bnd.cfg", workers=1, want_tags={"NUM"})
    fut["lts"] = pool.submit(ctx.tlc_must_hold, "RemovalsObj", "RemovalsObj_lts.cfg" if quick else "RemovalsObj_lts_rich.cfg", workers=1, want_tags={"EDGE"})
    if not quick:
        fut["bnd"] = pool.submit(ctx.tlc_must_hold, "Removals", "Removals_bnd.cfg", workers=w2, want_tags=set())
    negs = [pool.submit(neg_control, ctx, *nc) for nc in NEG_CONTROLS]

    # (b) GpgInfo, spec -> code
    r = fut["glines"].result()
    lap("wait_glines")
    replay_glines(state, printed(r, "GLINE"), quick)
    ctx.traces += len(printed(r, "GLINE"))
    lap("replay_glines")
    # (a) Removals, spec -> code
    cases = printed(fut["lines1"].result(), "LINE") + printed(fut["lines2"].result(), "LINE")
    if len(cases) < 1000:
        raise core.MachineryError("only %d LINE cases" % len(cases))
    lap("wait_lines")
    replay_lines(state, cases, quick)
    ctx.traces += len(cases)
    lap("replay_lines")
    replay_fields(state, cases, quick)
    lap("replay_fields")
    r = fut["nums"].result()
    replay_nums(state, printed(r, "NUM"), quick)
    ctx.traces += len(printed(r, "NUM"))
    lap("replay_nums")
    replay_lts(state, printed(fut["lts"].result(), "EDGE"), quick)
    lap("replay_lts")
    r = fut["gcases"].result()
    pal = printed(r, "GPAL")
    if len(pal) != 1:
        raise core.MachineryError("GPAL line missing")
    replay_gcases(state, pal[0], printed(r, "GCASE"), quick)
    ctx.traces += len(printed(r, "GCASE"))
    lap("replay_gcases")
    # code -> spec: the verdicts of TLC on the recorded executions
    finish_gpg(state, pg, fg.result())
    finish_removals(state, pr, fr.result())
    lap("validate_executions")
    for k in ("obj", "bnd"):
        if k in fut:
            fut[k].result()
    lap("wait_models")
    ctx.extra["phase_seconds"] = tm
    ctx.extra["spec_negative_controls"] = dict(f.result() for f in negs)
    pool.shutdown()
    ctx.extra["model_configurations"] = {k: (v.result().distinct if v.done() else None) for k, v in fut.items()}
    ctx.extra["drift_counts"] = dict(sorted(state.drift.items()))
    ctx.extra["known_findings_hit"] = dict(sorted(state.known.items()))
    ctx.extra["extra"] = {"id": "X05", "title": EXTRA["title"]}
    for k in KNOWN:
        if state.known.get(k["id"]):
            print("KNOWN-FINDING: extra=X05 %s (%d occurrences; id=%s)" % (k["signature"], state.known[k["id"]], k["id"]))


def replay(ctx, case):
    os.environ["TZ"] = "UTC"
    time.tzset()
    state = Run(ctx)
    kind = case["kind"]
    if kind == "line":
        return check_line(case["case"], case["texts"], case.get("path", "mapping"))[0]
    if kind == "field":
        r = R.build(case["path"], {case["f"]: case["value"]})
        f = case["f"]
        if case.get("other"):
            o = R.observe(r, R.PROP["bin" if f == "src" else "src"])
            return None if o == ("ok", []) else "other property gives %s" % short(o)
        st, v = R.observe(r, R.PROP[f])
        want = want_unjson(case["want"])
        return None if same_result(f, st, v, want) else "%s gives %s %s, specification says %s" % (R.PROP[f], st, short(v), short(want))
    if kind == "num":
        return check_num(state, case["case"], case["texts"], case.get("path", "mapping"))
    if kind == "numabsent":
        r = R.build(case["path"], {"date": "Wed, 01 Jan 2014 17:03:54 +0000"})
        st, v = R.observe(r, R.PROP[case["key"]])
        return None if (st, v) == ("ok", []) else "%s gives %s %s, expected []" % (R.PROP[case["key"]], st, v)
    if kind == "objpath":
        t = {int(k): v for k, v in case["texts"].items()}
        return run_obj_path(case["path"], t)[0]
    if kind in ("gline", "gcase"):
        lines = [case["text"]] if kind == "gline" else case["lines"]
        nls = [case["nl"]] if kind == "gline" else case["nls"]
        st, m, valid = g_observe(lines, nls, case["form"], case.get("err"))
        if st != "ok" or m != case["want"] or valid is not case["valid"]:
            return "GpgInfo(%s) of %s: %s %s valid()=%s, specification says %s valid()=%s" % (
                case["form"], short(lines), st, short(m), valid, short(case["want"]), case["valid"])
        return None
    if kind == "rtrace":
        t = R.exec_script(case["script"])
        acc, prog, _, _ = validate(ctx, "TraceX05R", "TraceX05R.cfg", [t], diag=True)
        return None if 1 in acc else "execution still not explained by the specification at " + describe_r(t, case["script"], prog.get(1, 0))
    if kind == "gtrace":
        t = G.exec_script(case["script"], ctx.repo)
        acc, prog, _, _ = validate(ctx, "TraceX05G", "TraceX05G.cfg", [t], diag=True)
        return None if 1 in acc else "execution still not explained by the specification at event %d: %s" % (prog.get(1, 0) + 1, short(t[prog.get(1, 0)] if prog.get(1, 0) < len(t) else None, 600))
    return "unknown case kind"
