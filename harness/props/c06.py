"""C06 -- ar members are exact, isolated, file-like views of the archive.

spec:      spec/ArMemberRef.tla  reference layer: the index of an archive + one independent
                                 (data, pos) file per member with io.BytesIO semantics
           spec/ArMember.tla     implementation layer transcribed from lib/debian/arfile.py
                                 (flat cell sequence, index walk, offset/end/cur per member, shared
                                 or per-member file position); TLC checks Refines + SameResult,
                                 Isolation, IndexExact in a closed state space
           spec/TraceArMember.tla  trace validation against the reference actions
           spec/ArMemberProc.tla process-level layer (files: path -> content, ArFile objects with the
                                 content snapshot of their file object, Open / RewritePath / Read /
                                 Close): a read through an object whose path was not rewritten since
                                 it was built returns that archive's bytes, whatever the process
                                 opened under the same name before; negative control
                                 SharedHandlePerPath = TRUE (one memoised file object per path name)
binding:   (a) spec -> code: the complete reference LTS emitted by TLC (every archive of <= 2
               members x <= 2/3 data cells over {NL, x}, every call, expected cells and positions)
               is replayed on real archives written by the harness, through
               ArFile(fileobj=BytesIO) and ArFile(filename=...): every transition, random walks
               interleaving the members, (thorough) all paths of depth 2; the INDEX cases emitted
               by the index configuration (<= 3 members, duplicate names, sizes 0/odd/even) are
               replayed on getnames/getmembers/getmember;
           (a') the complete LTS of ArMemberProc + walks are replayed on real files: archives opened by
               name and through a real file object on the same path, the path rewritten in place / by
               os.replace while earlier objects are alive, closed or unclosed; reads judged exactly
               where TLC says (object not older than the last rewrite), others executed unjudged.
               All by-name legs moreover RE-USE five path names for all archives of a run (archive k+1
               is written over archive k, alternately in place and by rename) and leave two of three
               by-name sessions unclosed and alive; recorded cases carry the history of their path;
           (b) code -> spec: random histories on archives of <= 5 members with <= 64 data bytes
               (and on archives written by /usr/bin/ar in the thorough tier) are recorded and
               validated by TLC, which recomputes every returned byte and position from the
               logged data layout; corrupted control traces must be rejected.
oracles:   expected values come from TLC (EDGE/INDEX lines, trace validation); a real io.BytesIO
           over each member's data driven by the same calls is the additional reference named
           in DESIGN.md.  If TLC's expectation and io.BytesIO ever disagree the run is a
           machinery failure (the specification would be wrong), not a verdict.
negative controls at specification level (run in every check): ClampReadline = FALSE (readline
           as before commit f810caf) must violate Refines/SameResult; thorough also PadOdd = FALSE
           (IndexExact) and SeekFirst = FALSE (Refines/SameResult/Isolation); SharedHandlePerPath =
           TRUE must violate FreshSeesOwn (every run); IterYieldsAll = FALSE (__iter__ as before commit
           225a5e1: one line per iterator) must violate Refines/SameResult (every run); TrustFd = TRUE (the
           index walk believes the size of the descriptor underneath the file object) must violate IndexExact
           (every run).
kinds of file object (spec/ArMember.tla, variable fdk; harness/fobj_c06.py): ArFile(fileobj=f) takes any seekable
           binary file object.  The model separates the byte stream f presents from what is underneath it (no
           descriptor / a regular file holding exactly the stream / a descriptor naming a smaller or a larger
           file) and states that the index and every member result are independent of it; TLC emits every index
           case per (mode, fdk) (IOPEN lines) and the replay hands ArFile a real file object of that class.  All
           other legs rotate the shared file object over the same kinds (pick_mode): io.BytesIO, buffered and
           unbuffered real files, io.BufferedReader over short-read raw streams (with and without fileno()),
           gzip.GzipFile / bz2.BZ2File / lzma.LZMAFile over the compressed archive, tempfile.SpooledTemporaryFile
           (in memory / rolled over), tarfile's extractfile() object, zipfile's ZipExtFile (<= 500-byte archives, see
           fobj_c06.py), a buffered window into a larger container file.  The kind is part of the recorded mode
           ("shared:gzip"), so a replayed case uses the same one.  Expectations do not depend on the kind (TLC's case
           / the trace validated by TLC / io.BytesIO are the same).
where the archive starts (spec/ArMember.tla: variable base, constant Bases; negative control TellOffsets = FALSE violates IndexExact,
           every run).  ArFile(fileobj=f) reads from the CURRENT position of f, so ar data embedded behind a prefix is handed
           over as a file object positioned at P > 0 (the unchanged code copes: member offsets are fp.tell() values).  In the
           domain: the statement is about every archive read through "one shared file object" and nothing says the archive
           is the whole stream.  TLC's index cases carry base (0 / odd / even number of prefix cells) per (mode, fdk): 13
           opening forms, all replayed (check_index reads every member completely); every third shared session of ALL other
           legs is "shared:<kind>@<P>[+f..]": the kind presents prefix_bytes(P) + archive (a decoy archive cut to P bytes;
           P over 1, 2, 7, 8, 15, 60, 61, 68, 512, 513, 4096, 8191, 8192, 65537) and is seeked to P before ArFile sees it.
           Expectations are unchanged (TLC's case / validated trace / io.BytesIO).  By name the archive is the file: no prefix.
results belong to the caller (spec: ANames / ACallerEdits of ArMemberRef, GetNames / CallerEdits + NamesExact of ArMember, TNames /
           TEdit of TraceArMember; negative control FreshLists = FALSE violates NamesExact, every run).  Every list the API
           hands out is EDITED IN PLACE by the harness (caller_edits: sort + remove, clear, append, reverse + insert, remove +
           extend, overwrite -- rotating) and the API is asked again: getnames() in check_index (twice) and inside every
           recorded history ("edit" / "names" events after calls 3, 11 and at the end, validated by TLC; corrupted control
           "names"); the lists returned by readlines() / readlines(h) / list(member) after EVERY such call of every leg (the
           following calls are judged as always).  getmembers() / .members return the INTERNAL list on the unchanged tree
           (`return self.__members`): editing it changes later getnames() / iteration -- a genuine divergence of this class,
           reported to the lead; until decided a DIAGNOSTIC only (members_list_probe on an ArFile of its own, ctx.sample +
           ctx.extra["diagnostic_getmembers_list_is_internal"]); the harness itself only ever edits a COPY of that list.
           Observation on the unchanged tree (lead's decision, round 7: diagnostic, never a verdict) -- exact input:
               a = ArFile(fileobj=io.BytesIO(<ar archive with members 'one' (b"x\\n") and 'two' (b"yy")>))
               l = a.getmembers(); del l[:1]
               a.getnames() -> ['two'];  [m.name for m in a] -> ['two'];  a.getmember('one') still returns member 'one'
faults of the caller's file object (notes/SIZE_STRESS.md part 5; spec: constant Faults, actions AFault / AShort / AOpenFault of
           ArMemberRef, FaultOne / FaultLines of ArMember, TFault / TShort / TOpenFault of TraceArMember).  The file object given
           to ArFile(fileobj=f) is the caller's and may fail at any step of a call.  Half of the shared sessions of every leg
           hand ArFile the harness' FaultProxy (fobj_c06.py) around a file object of the rotating kind (mode "shared:<kind>+f");
           a call of the history can then be hit by a fault: the at-th seek / read / readline / tell of the file object during
           that call raises (OSError, ValueError, KeyError, EOFError, InterruptedError, a private exception class; before or
           after the underlying operation took effect) or the at-th read / readline delivers short (0, 1, 2, 5, 100, all but one
           byte).  Verdicts come from the model: the very exception of the file object comes out (or one chained to it) and the
           position is unchanged (read / readline forms) or behind the k lines already consumed (readlines / list(member));
           after a short delivery the bytes returned are exactly the member's next bytes and the position is behind them (what
           io.BytesIO would have returned is NOT required there: the statement does not cover a file object that lies about its
           content; raising on a short delivery is unspecified and re-synchronised by an ordinary seek).  A fault that is not
           reached, or that the implementation absorbs, leaves an ordinary call, judged as such.  THEN THE HISTORY GOES ON: the
           retry of the same call, calls on the other members, further faults.  Where: TLC's LTS has fault edges from every
           state (replayed behind a short random history + absolute seeks to the edge's state, followed by the retry; in walks;
           in all depth-2 paths); recorded traces and the size-stress / aligned legs draw fault episodes (some reading call at
           one position, a reading call at another position that fails, the retry, another call); a volume leg (fault_leg) runs
           episodes only, on members of 5 bytes .. 20 KB; "+f<j>" sessions first call ArFile(fileobj=f) with a fault at step j of
           the index walk (the exception must come out) and repeat it on the rewound file object -- every other index case of
           TLC is replayed that way.  By-name sessions open their files themselves: no caller-supplied object, no faults.
           Negative control: CommitAfterRead = FALSE (position committed before the underlying read) violates Refines.
domain (DESIGN D4): read() / read(n) with n >= 1 or n < 0 (read(0) excluded), readline(n) any n,
           readlines() without hint, seek(off, whence) with a non-negative target; the return
           value of seek() is not compared (ArMember.seek returns None like Python 2 files).

API surface (notes/API_SURFACE.md) -- every public entry point of lib/debian/arfile.py -> leg or exclusion.
"all legs" = index replay, LTS replay (edges, walks, K-scaled size stress), process-level replay, recorded
traces (TLC) and the size-stress leg; variants of one abstract call rotate call by call (VARIANTS), so
objects are created through one variant and queried through others within one history.
  ArFile(filename) positional / filename= / (filename, "r") / mode="r" keyword
                                   all by-name legs, rotating per session (open_arfile)
  ArFile(fileobj=f) / (None, "r", f) / mode=, fileobj= keywords; f = every kind of seekable binary file object
                                   (13 kinds, see "kinds of file object" above) -- "shared:<kind>" sessions of all
                                   legs, the class of the kind chosen by TLC in the index cases; file / unbuffered file /
                                   short-read buffered reader on the path itself in the process-level leg
  ArFile(fileobj=f), f positioned at P > 0 (prefix + archive in one file object)
                                   index replay (TLC's base classes) + every third shared session of all legs ("@<P>")
  ArFile(fileobj=f), f non-seekable (pipe, socket), a RAW stream with short reads, mmap.mmap, a text-mode file
                                   out of domain: ArFile needs seek/tell, reads the 60-byte header with ONE read(60),
                                   calls readline(size) (mmap.readline takes no argument) and compares bytes
  ArFile(fileobj=f), f failing     all legs ("+f" sessions, see "faults of the caller's file object"): f raises at step j of
                                   ArFile() / of a member call, or delivers short during a member call; a short delivery DURING
                                   ArFile() (the 60-byte header cut) is out of domain like short raw streams
  ArFile(filename AND fileobj)     out of domain: undocumented combination (filename wins, fileobj ignored)
  ArFile(mode != "r")              out of domain: "the only supported mode is 'r'" (no index is built)
  ArFile(encoding=, errors=)       index replay + recorded traces: names beyond ASCII (NFC/NFD twins, singletons,
                                   ligatures, full-width, case hazards, BOM / ZWJ / NBSP, non-BMP, every UTF-8 trailing
                                   byte in final position, latin-1 bytes, invalid UTF-8 with the default
                                   surrogateescape, errors="replace"/"ignore"); expected text = bytes.decode(encoding or
                                   sys.getfilesystemencoding(), errors or "surrogateescape") as ArFile documents;
                                   errors="strict" with undecodable bytes: out of domain (raising is the codec's contract)
  getnames() getmembers() .members iter(ArFile) getmember() ArFile[name]
                                   check_index (all must agree; identity of the member objects); getmembers/.members/
                                   iteration also rotate as the way every session obtains its members; getnames() is asked
                                   again after the caller edited earlier results in place (check_index, recorded histories);
                                   editing the list getmembers()/.members return: diagnostic (internal list, see above)
  extractfile(name | member)       check_index: must return a member of that name / None for an absent name; WHICH of
                                   several equally named members is unspecified (code comment: returns the first,
                                   unlike getmember) -- reported as an observation, not judged
  extract() extractall()           out of domain: raise NotImplementedError by design
  ArMember.name size owner group mtime      check_index + "open" event of every trace (numbers filling their fields,
                                   zero padded, 2**31, 2**32, 10**11; size: real sizes only up to 1 MiB -- a 10-digit size
                                   needs a >= 1 GB archive: excluded)
  ArMember.fmode fname             diagnostic only (drift): not part of the statement
  ArMember.chmod / context manager (__enter__) / __next__   do not exist in arfile.py (AttributeError): nothing to exercise
  read() read(n) read(size=n)      all legs (n >= 1 or n < 0; read(0): excluded by D4, executed unjudged after walks)
  readline() readline(n) readline(None) readline(size=) next() next(iter(m), b"")
                                   all legs: variants of the abstract call readline
  readlines() readlines(0) readlines(-1) readlines(None) readlines(sizehint=0)
                                   all legs: variants of the abstract call readlines
  readlines(h), h >= 1             recorded traces, judged by TLC (AReadLinesHint): complete lines from the position
                                   that reach the hint or the end -- io.BytesIO (stops at the hint) and ArMember
                                   (ignores it) are both admissible; size-stress leg: executed, position re-synchronised
  list(member) / for line in member         all legs: every remaining line, like readlines() (TLC: AIter; io.BytesIO:
                                   list(f)).  Until commit 225a5e1 ArMember.__iter__ yielded only the first line (found
                                   by this check, reported, repaired); known_findings.json lists C06-iter-single-line as
                                   fixed, so that outcome is a VIOLATION again (history mutant c06-history-225a5e1); the
                                   old generator is the spec-level negative control IterYieldsAll = FALSE
  seek(off) seek(off, whence) seek(offset=, whence=) whence 0/1/2
                                   all legs (non-negative targets; negative targets / whence 3: executed unjudged)
  tell() seekable()                tell: all legs, after every call on every member; seekable: constant True, not judged
  close()                          process-level leg (Close action), end of every third by-name session; reading after
                                   close re-opens the file (by-name) -- exercised by the process-level walks
  ArMember.from_file()             internal constructor used by the index walk; not called directly
size stress (notes/SIZE_STRESS.md): K-scaled replay of TLC's cases (cells of 127..65537 bytes, 512 KiB, 1 MiB:
           members of 8191/8192/8193/65535/65536/65537 bytes and 1 MiB, lines longer than 64 KiB, read(n) at and
           beyond those sizes -- expectations are TLC's, length-independent by construction); index cases with ~100
           and ~1000 members (every model member repeated R times; TLC's last-of-name mapped accordingly); traces
           with 100 members and members up to 257 bytes (TLC scans them; -Xss64m); the size-stress leg (members of
           0/1/2/4 KiB/8 KiB/64 KiB/128 KiB/1 MiB +-1, arguments around the buffer sizes, many interleaved seeks)
           is judged against io.BytesIO only.
block-boundary alignment (SIZE_STRESS part 4): the aligned leg builds archives in which the end of a member's data, the
           end of a line inside a member, the start of a member's data, the start of a member header or the end of the
           archive falls at offset 2^k - 1, 2^k, 2^k + 1 (k = 9..17) of the archive FILE, and scripts every call form to
           start at, one/two before, one after and to END at that offset (interleaved with another member), through every
           kind of file object and by name; judged against io.BytesIO (ctx.extra["aligned_cases"]; the kinds used are
           counted in ctx.extra["file_object_kinds"], what is underneath them in "file_object_descriptor_vs_stream").
"""
import io
import json
import os
import subprocess
import sys

import core
import fobj_c06 as fobj
from lts import LTS, skey, strip

MANIFEST = dict(
    technique="TLA+ spec (ArMemberRef reference with io.BytesIO semantics + ArMember implementation layer over a flat cell archive) model-checked by TLC; complete reference LTS and index cases replayed on real archives through ArFile(fileobj) and ArFile(filename) with io.BytesIO as second oracle; recorded histories validated by TLC (TraceArMember)",
    text="TLC explores the closed state space of the implementation-level model of arfile.py (archive as one flat cell sequence with headers and pad bytes, index walk, per-member offset/end/cur, one shared or per-member file position) for every archive of up to 2 members with up to 3 data bytes over {newline, other} and checks in every reachable state / on every transition that it refines independent BytesIO-like files (same cells returned, same positions), that no cell outside the member is returned and that the member table is exact, i.e. for interleaved histories of any length over that alphabet. The binding is two-way: every transition of the reference LTS, random interleaved walks and the emitted index cases (duplicate names, empty/odd/even sizes, 0 members) are replayed on real archives in both opening modes with all members' tell() compared after each call, and random histories on larger archives (5 members, 64 bytes, archives written by GNU ar) are validated by TLC against the same actions. A process-level model (ArMemberProc: path contents, ArFile objects, rewrite of a path in place or by rename, close) is model-checked and its complete LTS replayed on real files, and all by-name legs re-use a handful of path names with earlier archives' members left unclosed, so that what an archive opened by name returns cannot silently depend on what the process opened under that name before.",
    note="Small-scope: model archives have <= 2 members x <= 3 cells (index: <= 3 members); concretization of cells to bytes (1-5 bytes per cell, arbitrary non-newline bytes) is sampled. Domain D4: read(0) excluded, non-negative seek targets, readlines(h>=1) advisory (any complete-line result reaching the hint or the end); seek()'s return value is not compared. list(member)/for-loops must yield every remaining line (the single-line generator found by this check was repaired in 225a5e1; the old behaviour is a spec-level negative control and a history mutant). Member sizes beyond 257 bytes are judged through K-scaled TLC cases and io.BytesIO, not scanned by TLC. Trusted: TLC, the harness' ar writer, io.BytesIO. Members of an archive whose file was replaced underneath them are unspecified (executed, not judged). The shared file object rotates over every kind ArFile(fileobj=) accepts (in-memory, buffered / unbuffered / short-read real files, gzip/bz2/lzma wrappers, spooled files, tar and zip members, a window into a container); the model's variable fdk (what the descriptor underneath says) is part of every emitted index case. zipfile.ZipExtFile only for archives <= 500 bytes (its readline(limit) overshoots in CPython 3.12). Faults of the caller's file object (an exception at a chosen step of ArFile() or of a member call, a short delivery during a member call) are ordinary steps of the histories of all shared legs: the specification's AFault / AShort say what the failed call may leave behind, everything after it is judged like any other call. Spec-level negative controls (ClampReadline/PadOdd/SeekFirst/CommitAfterRead = FALSE, SharedHandlePerPath = TRUE, TrustFd = TRUE) and corrupted control traces are required to fail in every run. Round 7: the archive need not start at byte 0 of the caller's file object (model variable base; TLC's index cases per base class 0/odd/even; every third shared session of all legs hands ArFile a file object of the rotating kind positioned behind a 1..65537-byte prefix; negative control TellOffsets = FALSE), and results belong to the caller (ANames/ACallerEdits; every list handed out by getnames()/readlines()/list(member) is edited in place by the harness and the API asked again; negative control FreshLists = FALSE). Editing the list returned by getmembers()/.members (the internal list on the unchanged tree) is a reported divergence executed as a diagnostic only.",
    design="5 (C06)")

AR_BIN = "/usr/bin/ar"

# ------------------------------------------------------------------ real archives

NAME_POOL = ["debian-binary", "control.tar.gz", "data.tar.xz", "a", "x.y", "_gpgorigin", "control.tar.zst",
             "data.tar", "f", "README", "lib+x-1.0_a", "0", "a.b.c.d.e.f.g.h", "Zz9"]
NAME16 = "sixteen_chars_nm"          # fills the name field completely (BSD style only)
SPECIAL_BYTES = [b"\r", b"\0", b"`", b"!", b"<", b">", b"/", b" ", b"\xff", b"\x7f", b"x", b"0", b"\t",
                 b"\x0b", b"\x0c", b"\x85", b"\x1c", b"a", b"r", b"c", b"h"]
OWNERS = [0, 1000, 999999, 65534, 7]
MTIMES = [0, 1, 1234567890, 999999999999, 1790457577]
MODES = [0o100644, 0o100755, 0o644, 0o40755]


def rand_meta(rng, wide=False):
    if wide:      # canonical: maximal field widths
        return {"owner": 999999, "group": 123456, "mtime": 999999999999, "mode": 0o100644}
    return {"owner": rng.choice(OWNERS + [rng.randrange(10 ** 6)]), "group": rng.choice(OWNERS + [rng.randrange(10 ** 6)]),
            "mtime": rng.choice(MTIMES + [rng.randrange(10 ** 10)]), "mode": rng.choice(MODES)}


def non_nl(rng, n, canonical=False):
    if canonical:
        return b"x" * n
    if n > 96:                       # big payloads: a random 61-byte pattern repeated (no newline in it)
        pat = non_nl(rng, 61)
        return (pat * (n // 61 + 1))[:n]
    out = []
    for _ in range(n):
        if rng.random() < 0.6:
            out.append(rng.choice(SPECIAL_BYTES))
        else:
            b = rng.randrange(255)
            out.append(bytes([b if b < 10 else b + 1]))
    return b"".join(out)


# member names as text: (name bytes in the header, encoding, errors) -> the str ArFile must report is
# raw.decode(encoding or sys.getfilesystemencoding(), errors or 'surrogateescape') (documented in
# ArFile.__init__).  Not NFC/NFKC-stable text, case-mapping hazards, BOM / zero-width / non-BMP
# characters, NBSP, every UTF-8 trailing byte 0x80..0xBF in final position, latin-1 and invalid bytes.
def exotic_names(rng):
    tail = chr(0x400 + rng.randrange(64))            # encodes as D0 80..D0 BF
    texts = ["\u00e9.txt", "e\u0301.txt", "\u212b", "\u00c5", "\ufb01le", "\uff21", "\u00df", "\u0130\u0131",
             "\ufeffa", "a\ufeffb", "a\u200db", "\U0001f600.deb", "x" + tail, tail + "x" + tail, "a\u00a0b", "b\u00a0",
             "a b", "\u1100\u1161", "\uac00", "\u03c3\u03c2", "\u017f", "\U0010ffff"]
    out = [(t.encode("utf-8"), None, None) for t in texts]
    out += [(t.encode("utf-8"), "utf-8", None) for t in texts[:6]]
    out += [(b"caf\xe9", "latin-1", None), (b"\xe9\xe8\x85", "latin-1", None), (b"caf\xe9", None, None),
            (b"\xff\xfe", None, None), (b"caf\xe9", "utf-8", "replace"), (b"caf\xe9", "utf-8", "ignore"),
            (b"caf\xe9", "ascii", "surrogateescape"), (b"\xd0", None, None)]
    return [x for x in out if len(x[0]) <= 15]


def decode_name(raw, encoding, errors):
    return raw.decode(encoding or sys.getfilesystemencoding(), errors or "surrogateescape")


def name_hex(s):
    """names are logged as code-point hex strings in traces (lone surrogates are not valid JSON text)"""
    return ".".join("%x" % ord(c) for c in s) if isinstance(s, str) else "not-a-str:%r" % (s,)


def header(m, style):
    name = m["raw"] if m.get("raw") is not None else m["name"].encode("ascii")
    if style == "gnu" and len(name) < 16:
        name += b"/"
    fmt = b"%-16s%012d%06d%06d%-8o%-10d`\n" if m.get("zeros") else b"%-16s%-12d%-6d%-6d%-8o%-10d`\n"
    h = fmt % (name, m["mtime"], m["owner"], m["group"], m["mode"], len(m["data"]))
    if len(h) != 60:
        raise core.MachineryError("ar writer: header of %d bytes for %r" % (len(h), m["name"]))
    return h


def build_ar(members, style="gnu"):
    out = [b"!<arch>\n"]
    for m in members:
        out.append(header(m, style))
        out.append(m["data"])
        if len(m["data"]) % 2:
            out.append(b"\n")
    return b"".join(out)


def write_file(path, blob, kind):
    """store blob under path: 'inplace' writes over the existing file (same inode), 'replace' writes a
    new file and renames it into place"""
    if kind == "replace":
        with open(path + ".new", "wb") as f:
            f.write(blob)
        os.replace(path + ".new", path)
    else:
        with open(path, "wb") as f:
            f.write(blob)


class PathPool:
    """The by-name legs deliberately REUSE a few path names for all archives of a run: archive k+1 is
    written over the path of archive k (alternately in place and by os.replace of a new file), while
    ArFile objects of earlier archives of that path may still be alive with unclosed members (see
    Session.finish).  What a new ArFile(filename=path) reads must not depend on that history."""

    def __init__(self, ctx, n=5):
        self.paths = [os.path.join(ctx.work, "pool%d.ar" % i) for i in range(n)]
        self.owner = [None] * n
        self.next = 0
        self.writes = 0

    def ensure(self, arch):
        if arch.slot is not None and self.owner[arch.slot] is arch:
            return self.paths[arch.slot]
        i = self.next
        self.next = (i + 1) % len(self.paths)
        prev = self.owner[i]
        kind = "replace" if self.writes % 2 else "inplace"
        self.writes += 1
        write_file(self.paths[i], arch.blob, kind)
        if prev is not None:
            prev.slot = None
            arch.history = (prev.history + [[prev.blob, kind]])[-3:]
        self.owner[i] = arch
        arch.slot = i
        return self.paths[i]


def pool(ctx):
    if not hasattr(ctx, "_c06_pool"):
        ctx._c06_pool = PathPool(ctx)
    return ctx._c06_pool


class Arch:
    """a concrete archive: blob + what was written into it. For by-name mode it is stored under one
    of the re-used pool paths (or under `path` when the caller manages the file itself)."""

    def __init__(self, members, style="gnu", blob=None, path=None, encoding=None, errors=None):
        self.members = members
        self.style = style
        self.encoding = encoding     # passed to ArFile(...) when not None
        self.errors = errors
        self.blob = build_ar(members, style) if blob is None else blob
        self.path = path
        self.slot = None
        self.history = []            # [blob, how it was replaced] of the last archives stored under the
                                     # same path before this one (part of a recorded case)

    def file(self, ctx):
        if self.path is not None:
            return self.path
        return pool(ctx).ensure(self)

    def drop(self):
        pass                         # pool paths are re-used on purpose; ctx.work is removed at exit

    def forms(self, ctx, base=0):
        """the files holding this archive (behind a prefix of `base` bytes) for the various kinds of file object
        (harness/fobj_c06.py)"""
        if getattr(self, "_forms", None) is None:
            self._forms = {}
        if base not in self._forms:
            self._forms[base] = fobj.Forms(ctx, fobj.prefix_bytes(base) + self.blob)
        return self._forms[base]

    def to_json(self):
        j = {"blob": self.blob, "style": self.style, "members": [dict(m) for m in self.members],
             "encoding": self.encoding, "errors": self.errors}
        if self.history:
            j["history"] = [list(h) for h in self.history]
        return j

    @classmethod
    def from_json(cls, j):
        a = cls(j["members"], j["style"], blob=j["blob"], encoding=j.get("encoding"), errors=j.get("errors"))
        a.history = [list(h) for h in j.get("history", [])]
        return a


# ------------------------------------------------------------------ driving the real objects

# Public variants of one abstract call (API surface): the expectation is that of the abstract call.
# Variant 0 is the base form and the only one used on the io.BytesIO reference.
VARIANTS = {
    "read": [lambda f, a: f.read()],
    "readn": [lambda f, a: f.read(a[0]), lambda f, a: f.read(size=a[0])],
    "readline": [lambda f, a: f.readline(), lambda f, a: f.next(), lambda f, a: next(iter(f), b""),
                 lambda f, a: f.readline(None), lambda f, a: f.readline(size=None)],
    "readlinen": [lambda f, a: f.readline(a[0]), lambda f, a: f.readline(size=a[0])],
    "readlines": [lambda f, a: f.readlines(), lambda f, a: f.readlines(0), lambda f, a: f.readlines(-1),
                  lambda f, a: f.readlines(None), lambda f, a: f.readlines(sizehint=0)],
    "readlinesh": [lambda f, a: f.readlines(a[0]), lambda f, a: f.readlines(sizehint=a[0])],
    "iter": [lambda f, a: list(f), lambda f, a: [line for line in f]],
    "seek": [lambda f, a: f.seek(a[0], a[1]), lambda f, a: f.seek(offset=a[0], whence=a[1]),
             lambda f, a: f.seek(a[0]) if a[1] == 0 else f.seek(a[0], a[1]),
             lambda f, a: f.seek(a[0], whence=a[1])],
    "tell": [lambda f, a: f.tell()],
}
VARIANT_TEXT = {
    "read": ["read()"], "readn": ["read(%s)", "read(size=%s)"],
    "readline": ["readline()", "next()", "next(iter(m), b'')", "readline(None)", "readline(size=None)"],
    "readlinen": ["readline(%s)", "readline(size=%s)"],
    "readlines": ["readlines()", "readlines(0)", "readlines(-1)", "readlines(None)", "readlines(sizehint=0)"],
    "readlinesh": ["readlines(%s)", "readlines(sizehint=%s)"], "iter": ["list(m)", "[line for line in m]"],
    "seek": ["seek(%s, %s)", "seek(offset=%s, whence=%s)", "seek(%s[, %s])", "seek(%s, whence=%s)"], "tell": ["tell()"],
}
BYTES_OPS = ("read", "readn", "readline", "readlinen")
LIST_OPS = ("readlines", "readlinesh", "iter")
_via = [0]


def next_via(op):
    """rotate through the public variants of an abstract call"""
    _via[0] += 1
    return _via[0] % len(VARIANTS[op])


def do_call(f, op, args, via=0):
    """one call on an ArMember (variant `via`) or an io.BytesIO (via=0); any exception is an observation"""
    if op not in VARIANTS:
        raise core.MachineryError("unknown op %r" % (op,))
    try:
        v = VARIANTS[op][via](f, args)
    except Exception as e:                 # observation, not a harness failure
        return {"ret": [], "n": 0, "exc": type(e).__name__, "err": e}
    if op in BYTES_OPS:
        if not isinstance(v, bytes):
            return {"ret": [], "n": 0, "exc": "returned-" + type(v).__name__}
        return {"ret": [v], "n": 0, "exc": ""}
    if op in LIST_OPS:
        if not isinstance(v, list) or not all(isinstance(x, bytes) for x in v):
            return {"ret": [], "n": 0, "exc": "returned-" + type(v).__name__}
        out = {"ret": list(v), "n": 0, "exc": ""}
        if not isinstance(f, io.BytesIO):
            caller_edits(v)          # the list readlines() / list(member) handed out is the caller's: edited in place after
        return out                   # every such call of every leg (ACallerEdits); later calls are judged as always
    if op == "tell":
        if not isinstance(v, int):
            return {"ret": [], "n": 0, "exc": "returned-" + type(v).__name__}
        return {"ret": [], "n": v, "exc": ""}
    return {"ret": [], "n": 0, "exc": ""}      # seek: the return value is not specified (D4)


def safe_tell(f):
    try:
        t = f.tell()
        return t if isinstance(t, int) else "returned-" + type(t).__name__
    except Exception as e:
        return "EXC:" + type(e).__name__


def call_str(m, op, args, via=0):
    py = VARIANT_TEXT[op][via]
    return "member[%d].%s" % (m, py % tuple(args) if "%s" in py else py)


def short(x, n=80):
    r = repr(x)
    return r if len(r) <= n else "%s...(%d chars)" % (r[:n], len(r))


ITER_FINDING = "C06-iter-single-line"
ITER_STRICT = [True]     # list(member) is an ordinary call compared with list(io.BytesIO) (set from iter_policy in run/replay)


def iter_policy(ctx):
    """'fixed': the deviation of list(member) is a violation; 'open': KNOWN-FINDING; 'reported': not in
    known_findings.json yet -- recorded as drift and in the evidence, reported to the lead"""
    for f in ctx.findings():
        if f["id"] == ITER_FINDING:
            return "fixed" if f["status"] == "fixed" else "open"
    return "reported"


def iter_deviation(ctx, what):
    pol = iter_policy(ctx)
    if pol == "fixed":
        return False
    if pol == "open":
        ctx.known_hit(ITER_FINDING)
    else:
        n = ctx.extra.get("reported_divergence_iter_single_line", {"count": 0})
        if n["count"] == 0:
            n["example"] = what
            ctx.drift("genuine divergence (reported to the lead, not in known_findings.json): list(member) / "
                      "`for line in member` yields only the first remaining line; %s" % what)
        n["count"] += 1
        ctx.extra["reported_divergence_iter_single_line"] = n
    return True


def open_arfile(arch, mode, path, fobj, variant):
    """every public way of building an ArFile over the same archive (positional / keyword filename,
    mode, fileobj; encoding and errors when the archive asks for them)"""
    from debian.arfile import ArFile
    kw = {}
    if arch.encoding is not None:
        kw["encoding"] = arch.encoding
    if arch.errors is not None:
        kw["errors"] = arch.errors
    if mode == "byname":
        v = variant % 4
        if v == 0:
            return ArFile(path, **kw)
        if v == 1:
            return ArFile(path, "r", **kw)
        if v == 2:
            return ArFile(filename=path, **kw)
        return ArFile(filename=path, mode="r", fileobj=None, encoding=arch.encoding, errors=arch.errors)
    v = variant % 3
    if v == 0:
        return ArFile(fileobj=fobj, **kw)
    if v == 1:
        return ArFile(None, "r", fobj, **kw)
    return ArFile(mode="r", fileobj=fobj, encoding=arch.encoding, errors=arch.errors)


FAULT_ROT = ["OSError", "private", "ValueError", "KeyError", "EOFError", "InterruptedError"]


def count(ctx, key, what):
    d = ctx.extra.setdefault(key, {})
    d[what] = d.get(what, 0) + 1


class Session:
    """an opened archive + one io.BytesIO per member as the reference library.
    mode: "shared:<kind>" = ArFile(fileobj=<a file object of that kind presenting the archive>) -- every kind of
          harness/fobj_c06.py ("shared" alone: io.BytesIO); "byname" = ArFile(filename=path);
          "fileobj:<kind>" = ArFile(fileobj=<file / file0 / shortfile object reading the file stored under path>)"""
    count = 0
    per_mode = {}

    def __init__(self, ctx, arch, mode, path=None):
        self.error = None
        self.members = []
        self.ar = None
        mode, _, kind = mode.partition(":")
        kind, fsep, fl = kind.partition("+f")      # "+f<j>": the file object is the harness' FaultProxy; j >= 1: ArFile() itself
        self.mode = mode                           # is first called with a fault at step j of the index walk
        kind, _, pre = kind.partition("@")         # "@<P>": the file object holds P prefix bytes + the archive and is handed
        self.base = int(pre or 0)                  # to ArFile positioned at P (spec: variable base)
        if self.base and mode != "shared":
            raise core.MachineryError("a prefix needs a caller-supplied file object: %r" % (mode,))
        self.kind = kind
        self.proxy = None
        self.open_fault = None
        self.closers = []
        Session.count += 1
        n = Session.per_mode[mode] = Session.per_mode.get(mode, 0) + 1     # rotates the constructor variants
        self.serial = n
        fo = None
        if mode in ("shared", "fileobj"):
            self.kind = kind = kind or ("bytesio" if mode == "shared" else "file")
            if mode == "fileobj" and kind not in fobj.PATH_BACKED:
                raise core.MachineryError("file-object kind %r does not read a path" % (kind,))
            fo, self.closers = fobj.open_kind(ctx, arch.forms(ctx, self.base), kind,
                                              path=(path or arch.file(ctx)) if mode == "fileobj" else None)
            if self.base:
                fo.seek(self.base)
                if fo.tell() != self.base:
                    raise core.MachineryError("file object of kind %r not positioned at %d" % (kind, self.base))
            if mode == "shared":
                count(ctx, "file_object_handed_over_at", "0" if not self.base else "odd offset" if self.base % 2 else "even offset")
            kinds = ctx.extra.setdefault("file_object_kinds", {})
            kinds[kind] = kinds.get(kind, 0) + 1
            rel = ctx.extra.setdefault("file_object_descriptor_vs_stream", {})
            r = fobj.fd_relation(fo, len(arch.blob) + self.base)
            rel[r] = rel.get(r, 0) + 1
            if fsep:
                fo = self.proxy = fobj.FaultProxy(fo)
                count(ctx, "file_object_kinds_behind_fault_proxy", kind)
        try:
            if fo is not None and self.proxy is not None and int(fl or 0) > 0:
                self.ar = self.open_with_fault(ctx, arch, fo, n, int(fl))
            elif fo is not None:
                self.ar = open_arfile(arch, mode, None, fo, n)
            else:
                self.ar = open_arfile(arch, mode, path or arch.file(ctx), None, n)
            # getmembers() / the members property / iteration are the same list (checked in check_index)
            if self.ar is not None:
                self.members = list((self.ar.getmembers(), self.ar.members, self.ar)[(n // 4) % 3])
        except Exception as e:
            self.error = "opening the archive raised %s: %s" % (type(e).__name__, e)
        self.datas = [m["data"] for m in arch.members]
        self.oracles = [io.BytesIO(d) for d in self.datas]
        if self.error is None and len(self.members) != len(self.datas):
            self.error = "archive has %d members, ArFile lists %d" % (len(self.datas), len(self.members))

    def open_with_fault(self, ctx, arch, fo, n, at):
        """ArFile(fileobj=f) with f failing at step `at` of the index walk: the caller's exception must come out
        (observation self.open_fault, logged as an "openfault" event); then the caller rewinds f and builds the
        archive object again -- a fresh parse of the same input through the same file object"""
        plan = {"at": at, "exc": FAULT_ROT[n % len(FAULT_ROT)], "after": bool(n % 2)}
        self.proxy.arm(plan)
        err = ar = None
        try:
            ar = open_arfile(arch, "shared", None, fo, n)
        except Exception as e:
            err = e
        fired = self.proxy.disarm()
        count(ctx, "faults_injected", "ArFile(): " + ("not reached" if fired is None else "raise at %s" % fired[2]))
        if fired is None or err is None:       # the walk had fewer steps / the implementation retried by itself
            if err is not None:
                raise err
            return ar
        if not fobj.chained(err, fired[1]):
            self.open_fault = type(err).__name__
            self.error = ("the caller's file object raised %r at step %d (%s) of ArFile(fileobj=f); ArFile raised %s: %s instead"
                          % (fired[1], fired[3], fired[2], type(err).__name__, err))
            return None
        self.open_fault = "injected"
        fo.seek(self.base)
        return open_arfile(arch, "shared", None, fo, n + 1)

    def close(self):
        for m in self.members:
            try:
                m.close()
            except Exception:
                pass
        for c in self.closers:
            try:
                c.close()
            except Exception:
                pass

    def finish(self, ctx):
        """end of a replay: every third by-name session closes its members; the others stay alive
        with UNCLOSED members (the last three are kept referenced) while later archives are written
        over the same path and opened by name again"""
        if self.mode != "byname" or self.serial % 3 == 0 or len(self.members) > 50:
            self.close()
            return
        if not hasattr(ctx, "_c06_alive"):
            import collections
            ctx._c06_alive = collections.deque(maxlen=3)
        ctx._c06_alive.append(self)

    def faulted(self, m, op, args, via, obs, fired, ftells, ctx):
        """the caller's file object failed during this call (fired = FaultProxy.fired).  None: the call completed as if
        nothing had happened (the implementation coped by itself) -- judged as an ordinary call; else (message or None,
        observation, tell).  Verdicts: the very exception of the file object comes out and the position is where the
        specification's AFault says (ftells = TLC's admissible positions of the LTS edge; recorded histories are validated
        by TLC afterwards; the io.BytesIO reference, not moved / moved line by line, is the second oracle); after a short
        delivery the bytes returned are the member's next bytes and the position is behind them (AShort)."""
        cs = call_str(m, op, args, via)
        o = self.oracles[m]
        start = o.tell()
        if fired[0] == "raise":
            if not obs["exc"]:
                count(ctx, "faults_injected", "raise: absorbed by the implementation") if ctx is not None else None
                return None
            where = "the file object's %s() raised %r at step %d of %s" % (fired[2], fired[1], fired[3], cs)
            obs["fired"] = "raise"
            injected = fobj.chained(obs.get("err"), fired[1])
            tells = [safe_tell(x) for x in self.members]
            if op in BYTES_OPS:
                adm = [start]
            else:                                  # readlines / list(): behind 0..all of the remaining lines
                adm = [start]
                while o.readline():
                    adm.append(o.tell())
                o.seek(start)
            if ftells is not None and sorted(set(ftells)) != sorted(set(adm)):
                raise core.MachineryError("specification and io.BytesIO disagree on the positions after a fault in %s: %r / %r" % (cs, ftells, adm))
            msg = None
            if not injected:
                msg = "%s; the call raised %s instead of that exception" % (where, obs["exc"])
            else:
                obs["exc"] = "injected"
            if tells[m] in adm:
                o.seek(tells[m])
            elif msg is None and op not in BYTES_OPS and isinstance(tells[m], int) and start <= tells[m] <= len(o.getvalue()):
                # readlines() / list(member) are several file-object steps: HOW FAR a call that failed half-way got is an
                # artefact of the implementation (line by line today; a block-wise readlines() - benign change C06-R -
                # stops at a block end).  The statement is silent, so this is unspecified: the member is put back to where
                # the call started by an ordinary seek (position start is what the specification's FaultLines(0) says) and
                # the history carries on; what the NEXT calls return is judged as always.
                count(ctx, "faults_injected", "raise: multi-step call stopped off a line boundary (unspecified, re-synchronised)") if ctx is not None else None
                try:
                    self.members[m].seek(start, 0)
                except Exception:
                    pass
                tells[m] = safe_tell(self.members[m])
                o.seek(start)
                if tells[m] != start:
                    msg = "%s (propagated); seek(%d) afterwards leaves tell() at %r" % (where, start, tells[m])
            elif msg is None:
                msg = "%s (propagated); tell() is %r afterwards, the specification allows %r" % (where, tells[m], adm)
            rtells = [x.tell() for x in self.oracles]
            if msg is None and tells != rtells:
                msg = "%s (propagated); tell() of the members is %r afterwards, expected %r" % (where, tells, rtells)
            return msg, obs, tells[m]
        # short delivery
        where = "the file object's %s() returned %d of %d bytes at step %d of %s" % (fired[3], fired[2], fired[1], fired[4], cs)
        tells = [safe_tell(x) for x in self.members]
        if obs["exc"]:
            # raising on an unexpectedly short stream is a legitimate reaction: unspecified, never a verdict.  The
            # member is put back to where the call started (an ordinary seek) so that the history stays comparable.
            obs["fired"] = "short-exc"
            try:
                self.members[m].seek(start, 0)
            except Exception:
                pass
            return None, obs, safe_tell(self.members[m])
        obs["fired"] = "short"
        flat = b"".join(obs["ret"])
        ref = o.read(len(flat))
        msg = None
        if ref != flat:
            msg = "%s; the call returned %s, the member's next %d bytes are %s" % (where, short(obs["ret"]), len(flat), short(ref))
        rtells = [x.tell() for x in self.oracles]
        if msg is None and tells != rtells:
            msg = "%s; the call returned %d bytes and tell() of the members is %r, expected %r" % (where, len(flat), tells, rtells)
        return msg, obs, tells[m]

    def step(self, m, op, args, exp=None, via=None, ctx=None, fault=None, ftells=None):
        """call on member m (0-based) through API variant `via`; exp = TLC's expectation {"ret", "n",
        "tell"[, "dev"]} or None. Returns (message or None, observation, tell of m).
        readlines(h >= 1) and list(member) have several admissible outcomes: they are judged by TLC
        (expectation `exp` of an LTS edge, or trace validation), not against io.BytesIO; the reference
        is moved to where the observed result ends so that later calls stay comparable."""
        if via is None:
            via = next_via(op)
        armed = fault is not None and self.proxy is not None and op in BYTES_OPS + LIST_OPS
        if armed:
            self.proxy.arm(fault)
        obs = do_call(self.members[m], op, args, via)
        obs["fired"] = None
        if armed:
            steps = self.proxy.calls
            fired = self.proxy.disarm()
            if ctx is not None:
                count(ctx, "faults_injected", "not reached (the call had %s steps)" % ("< 3" if steps < 3 else ">= 3") if fired is None
                      else "%s at %s()" % (fired[0], fired[-2]))
            if fired is not None:
                r = self.faulted(m, op, args, via, obs, fired, ftells, ctx)
                if r is not None:
                    return r
        cs = call_str(m, op, args, via)
        if op == "readlinesh" or (op == "iter" and not ITER_STRICT[0]):
            o = self.oracles[m]
            start = o.tell()
            full = o.readlines()
            tells = [safe_tell(x) for x in self.members]
            msg = None
            if exp is not None:
                if exp["ret"] != full or exp["tell"] != o.tell():
                    raise core.MachineryError("specification and io.BytesIO disagree on %s over %s" % (cs, short(self.datas[m])))
                if obs["exc"] or obs["ret"] != exp["ret"] or tells[m] != exp["tell"]:
                    dev = exp.get("dev")
                    if dev is not None and not obs["exc"] and obs["ret"] == dev["ret"] and tells[m] == dev["tell"] \
                            and ctx is not None and iter_deviation(ctx, "%s over %s returned %s" % (cs, short(self.datas[m]), short(obs["ret"]))):
                        pass
                    else:
                        msg = "%s returned %s%s and tell() = %r; the specification (TLC) says %s and %r" % (
                            cs, short(obs["ret"]), (" / " + obs["exc"]) if obs["exc"] else "", tells[m], short(exp["ret"]), exp["tell"])
            if not obs["exc"] and isinstance(tells[m], int):
                o.seek(tells[m])               # keep the reference where the member says it is
            else:
                o.seek(start + sum(len(x) for x in obs["ret"]))
            rtells = [x.tell() for x in self.oracles]
            if msg is None and [t for i, t in enumerate(tells) if i != m] != [t for i, t in enumerate(rtells) if i != m]:
                msg = "after %s: tell() of the members is %r; io.BytesIO says %r" % (cs, tells, rtells)
            self.last_full = full
            return msg, obs, tells[m]
        ref = do_call(self.oracles[m], op, args)
        if ref["exc"]:
            raise core.MachineryError("io.BytesIO raised %s for %s: generator left the domain" % (ref["exc"], cs))
        tells = [safe_tell(x) for x in self.members]
        rtells = [x.tell() for x in self.oracles]
        if exp is not None and (exp["ret"] != ref["ret"] or exp["n"] != ref["n"] or exp["tell"] != rtells[m]):
            raise core.MachineryError("specification and io.BytesIO disagree on %s over %s: TLC %s, BytesIO %s tell %r"
                                      % (cs, short(self.datas[m]), short(exp), short(ref), rtells[m]))
        who = "the specification (TLC) and io.BytesIO say" if exp is not None else "io.BytesIO says"
        msg = None
        if obs["exc"]:
            msg = "%s raised/returned %s; %s %s" % (cs, obs["exc"], who, short(ref["ret"] if op != "tell" else ref["n"]))
        elif obs["ret"] != ref["ret"]:
            msg = "%s returned %s; %s %s" % (cs, short(obs["ret"] if op in LIST_OPS else obs["ret"][0]),
                                             who, short(ref["ret"] if op in LIST_OPS else ref["ret"][0]))
        elif obs["n"] != ref["n"]:
            msg = "%s returned %r; %s %r" % (cs, obs["n"], who, ref["n"])
        elif tells != rtells:
            msg = "after %s: tell() of the members is %r; %s %r" % (cs, tells, who, rtells)
        return msg, obs, tells[m]


_sparse = [0]


def pick_mode(i, arch, fd=None, sparse=False, flaky=False, prefix=True):
    """opening mode of the i-th case over `arch`: by name for odd i, else through a shared file object whose
    KIND rotates over everything ArFile(fileobj=...) accepts (fd: the class the specification's case names).
    The resolved string is what a recorded case stores, so a replayed case uses the same kind.
    sparse (the bulk replay of all LTS transitions): two of three shared sessions use io.BytesIO."""
    if i % 2:
        return "byname"
    pre = prefix_suffix() if prefix else ""      # (prefix=False: the aligned leg places offsets of the archive FILE on block boundaries)
    if sparse:
        _sparse[0] += 1
        if _sparse[0] % 3:
            return "shared:bytesio" + pre + flaky_suffix()
    return "shared:" + fobj.pick_kind(len(arch.blob) + int(pre[1:] or 0), fd) + pre + (flaky_suffix() or ("+f" if flaky else ""))


_prefix = [0]


def prefix_suffix():
    """every third shared session hands ArFile a file object that holds a prefix in front of the archive and is positioned
    behind it ("@<P>", P rotating over odd / even / block-sized lengths): the archive need not start at byte 0 of f"""
    _prefix[0] += 1
    if _prefix[0] % 3:
        return ""
    return "@%d" % fobj.PREFIX_ROT[(_prefix[0] // 3) % len(fobj.PREFIX_ROT)]


_flaky = [0]


def flaky_suffix():
    """every other shared session hands ArFile the harness' FaultProxy around the file object ("+f": calls of the history
    may be hit by a fault of the file object); every tenth moreover starts with an ArFile() call that fails at step
    1..9 of the index walk ("+f<j>") and is repeated on the rewound file object"""
    _flaky[0] += 1
    if _flaky[0] % 2:
        return ""
    return "+f%d" % (1 + (_flaky[0] // 10) % 9) if _flaky[0] % 10 == 0 else "+f"


def run_ops(ctx, arch, mode, ops, unspecified=()):
    """replay a sequence of calls [{m, op, args, exp?, via?}] on a fresh ArFile; None or a message.
    `unspecified`: calls outside the domain (D4) executed at the very end; any outcome is accepted,
    an exception other than IOError/ValueError is recorded as drift (never a verdict)"""
    s = Session(ctx, arch, mode)
    try:
        if s.error:
            return s.error
        for i, o in enumerate(ops):
            if o.get("via") is None:
                o["via"] = next_via(o["op"])          # recorded: a replayed case uses the same variant
            msg, obs, _ = s.step(o["m"], o["op"], o["args"], o.get("exp"), o["via"], ctx, o.get("fault"), o.get("ftells"))
            if msg:
                return "call %d of %d (%s mode, member data %s): %s" % (i + 1, len(ops), mode, short(s.datas[o["m"]]), msg)
            if "resync" in o and s.oracles[o["m"]].tell() != o["resync"]:
                # a fault edge of the specification has several admissible outcomes (and the fault may not be reached at
                # all): an ordinary seek puts member and reference where the rest of TLC's path continues
                try:
                    s.members[o["m"]].seek(o["resync"], 0)
                except Exception as e:
                    return "call %d of %d (%s mode): seek(%d) after %s raised %s" % (i + 1, len(ops), mode, o["resync"], o["op"], type(e).__name__)
                s.oracles[o["m"]].seek(o["resync"])
        for (m, what) in unspecified:
            f = s.members[m]
            try:
                if what == "read0":
                    f.read(0)
                elif what == "seekneg":
                    f.seek(-1 - len(s.datas[m]), 2)
                elif what == "seekwhence3":
                    f.seek(0, 3)
            except (IOError, ValueError):
                pass
            except Exception as e:
                ctx.drift("unspecified call %s raised %s" % (what, type(e).__name__))
        return None
    finally:
        s.finish(ctx)


# ------------------------------------------------------------------ concretization of model archives

BIG_K = [8191, 8192, 8193, 65535, 65536, 65537, 524288, 1048576, 127, 128, 129, 4095, 4096, 4097]


class Conc:
    """model archive (list of cell lists over {10, 120}) -> real archive. Every cell becomes K bytes:
    an NL cell = K-1 non-newline bytes + b'\\n', an x cell = K non-newline bytes; positions, sizes and
    call arguments scale by K, so TLC's expected cells map to byte slices for ANY K (1..5 ordinarily;
    8191..65537, 512 KiB, 1 MiB on the size-stress rotation: buffer boundaries of the underlying
    read/readline, lines longer than 64 KiB, members of 1 MiB).  With repeat = R every model member
    becomes R consecutive real members of the same name (index cases with 100 / 1000 members)."""

    def __init__(self, rng, cells, canonical=False, names=None, K=None, repeat=1, encoding=None, errors=None):
        self.K = K if K is not None else (1 if canonical else rng.choice([1, 1, 2, 3, 5]))
        self.R = repeat
        K = self.K
        style = "gnu" if canonical else rng.choice(["gnu", "bsd"])
        if names is None:
            pool = NAME_POOL + ([NAME16] if style == "bsd" else [])
            names = [pool[i] for i in range(len(cells))] if canonical else [rng.choice(pool) for _ in cells]
        names = [n if isinstance(n, dict) else {"name": n, "raw": None} for n in names]
        if any(len(n["raw"] or n["name"].encode("ascii")) >= 16 for n in names):
            style = "bsd"
        members = []
        for i, d in enumerate(cells):
            for r in range(repeat):
                data = b"".join((non_nl(rng, K - 1, canonical) + b"\n") if c == 10 else non_nl(rng, K, canonical) for c in d)
                m = rand_meta(rng, wide=(canonical and i == 0))
                m.update(name=names[i]["name"], raw=names[i]["raw"], data=data)
                members.append(m)
        self.arch = Arch(members, style, encoding=encoding, errors=errors)

    def args(self, op, args):
        K = self.K
        if op in ("readn", "readlinen"):
            return [args[0] * K if args[0] > 0 else args[0]]
        if op == "seek":
            return [args[0] * K, args[1]]
        if op == "iter":
            return []
        return list(args)

    def result(self, m, res, to):
        d = self.arch.members[m]["data"]
        K = self.K
        return {"ret": [b"".join(d[(i - 1) * K:i * K] for i in chunk) for chunk in res["v"]],
                "n": res["n"] * K, "tell": to[m] * K}

    def op(self, e):
        """model edge -> concrete call with TLC's expectation"""
        m = e["args"][0] - 1
        o = {"m": m, "op": e["op"], "args": self.args(e["op"], e["args"][1:]), "exp": self.result(m, e["res"], e["to"])}
        if e.get("_dev") is not None:
            o["exp"]["dev"] = self.result(m, e["_dev"]["res"], e["_dev"]["to"])
        return o

    def fault_op(self, g, e, i):
        """TLC's edge fault(m, kind, k) -> a concrete call of that kind (one of the calls TLC lists from the same state)
        during which the caller's file object raises: "ftells" = the positions of ALL of TLC's fault edges of that kind
        from the state (which of them is realised depends on the step the fault hits), "exp" = TLC's expectation for the
        undisturbed call (the fault may not be reached: then the call is an ordinary one), "resync" = the position
        TLC's path continues from"""
        m, kind, k = e["args"]
        outs = g.out[e["_f"]]
        cands = [x for x in outs if x["args"][0] == m and x["op"] in (BYTES_OPS if kind == "one" else ("readlines", "iter"))]
        c = cands[i % len(cands)]
        o = self.op(c)
        if kind == "one":
            at = (1, 2, 3, 2)[i % 4]
        else:                      # the code takes three steps of the file object per line: hit line k + 1
            at = 3 * k + 1 + ((i // 2) % 3 if k < len(c["res"]["v"]) else 0)
        o["fault"] = {"at": at, "exc": FAULT_ROT[i % len(FAULT_ROT)], "after": i % 3 == 2}
        o["ftells"] = sorted({x["to"][m - 1] * self.K for x in outs if x["op"] == "fault" and x["args"][:2] == [m, kind]})
        o["resync"] = e["to"][m - 1] * self.K
        return o, c

    def index_exp(self, idx):
        """TLC's index of the model archive -> expectation for the real one (R copies per member: the
        last member of a name is the last copy of the model's last member of that name)"""
        R = self.R
        members, last = [], []
        for k, x in enumerate(idx["members"]):
            for r in range(R):
                members.append({"id": (x["id"] - 1) * R + r + 1, "sizeclass": x["size"]})
                last.append((idx["last"][k] - 1) * R + R)
        return {"members": members, "last": last}


# ------------------------------------------------------------------ index

_edit = [0]


def caller_edits(lst):
    """what ordinary callers do to a list they were handed: an in-place edit, rotating; returns its name"""
    _edit[0] += 1
    k = (_edit[0] + _edit[0] // 6) % 6         # (callers that edit twice per case must not see only every other kind)
    junk = "edited-by-the-caller" if not lst or isinstance(lst[0], str) else b"edited by the caller\n"
    if k == 0:
        lst.sort()
        del lst[-1:]
        return "sort + remove the last"
    if k == 1:
        del lst[:]
        return "clear"
    if k == 2:
        lst.append(junk)
        return "append"
    if k == 3:
        lst.reverse()
        lst.insert(0, junk)
        return "reverse + insert"
    if k == 4:
        del lst[:1]
        lst.extend([junk, junk])
        return "remove the first + extend"
    lst[:] = [junk] * (len(lst) + 1)
    return "overwrite every entry"


def members_list_probe(ctx, arch, mode):
    """getmembers() / .members hand out the INTERNAL list of the ArFile (lib/debian/arfile.py: `return self.__members`): a
    caller that edits it changes what getnames() / iteration report afterwards, ON THE UNCHANGED TREE.  Reported to the
    lead as a divergence of the same class as the memoised getnames() list; until decided it is a DIAGNOSTIC: executed on
    an ArFile object of its own, recorded in the evidence, never a verdict."""
    s = Session(ctx, arch, mode)
    try:
        if s.ar is None or s.error or not arch.members:
            return
        try:
            lst = s.ar.getmembers() if Session.count % 2 else s.ar.members
            del lst[:1]
            got = s.ar.getnames()
        except Exception as e:
            got = "EXC:" + type(e).__name__
        want = [m["name"] for m in arch.members]
        d = ctx.extra.setdefault("diagnostic_getmembers_list_is_internal", {"probes": 0, "later_getnames_changed": 0})
        d["probes"] += 1
        if got != want:
            d["later_getnames_changed"] += 1
            if "example" not in d:
                d["example"] = "ArFile over members %s: del ar.getmembers()[:1]; ar.getnames() -> %s" % (short(want, 120), short(got, 120))
                ctx.sample("DIAGNOSTIC (reported, not judged): getmembers()/.members return the internal list; " + d["example"])
    finally:
        s.close()


def check_index(ctx, arch, mode, exp):
    """exp = TLC's index mapped to the real archive: {"members": [{id}], "last": [...]} (1-based
    positions in arch.members). Returns None or a message (verdict observables only).
    Entry points: getnames(), getmembers(), the members property, iteration, getmember(), ar[name],
    extractfile(name / member) (documented to return the FIRST member of the name: judged only as "a
    member of that name"), member attributes name/size/owner/group/mtime (fmode, fname: diagnostic)."""
    s = Session(ctx, arch, mode)
    try:
        if s.error and s.ar is None:
            return s.error
        ar = s.ar
        try:
            names = ar.getnames()
            members = list(ar.getmembers())
            exp_names = [arch.members[x["id"] - 1]["name"] for x in exp["members"]]
            if names != exp_names:
                return "getnames() = %s, the specification lists %s" % (short(names, 200), short(exp_names, 200))
            # results belong to the caller (ACallerEdits of the reference: no action of the archive): the list handed out
            # is edited in place -- sorted / emptied / extended / filtered, rotating -- and getnames() is asked again, here
            # and once more behind all the other queries below
            edits = caller_edits(names)
            again = ar.getnames()
            if again != exp_names:
                return ("getnames() = %s after the caller edited the list an earlier getnames() call had returned (%s); the "
                        "specification lists %s" % (short(again, 200), edits, short(exp_names, 200)))
            caller_edits(again)
            count(ctx, "results_edited_by_the_caller", "getnames(): " + edits)
            if len(members) != len(exp_names) or [m.name for m in members] != exp_names:
                return "getmembers() names %s, the specification lists %s" % (short([m.name for m in members], 200), short(exp_names, 200))
            if [m.name for m in ar] != exp_names or [id(m) for m in ar] != [id(m) for m in members]:
                return "iteration order %s differs from %s" % (short([m.name for m in ar], 200), short(exp_names, 200))
            if [id(m) for m in ar.members] != [id(m) for m in members]:
                return "the members property differs from getmembers()"
            for k, x in enumerate(exp["members"]):
                w = arch.members[x["id"] - 1]
                got = {"size": members[k].size, "owner": members[k].owner, "group": members[k].group, "mtime": members[k].mtime}
                want = {"size": len(w["data"]), "owner": w["owner"], "group": w["group"], "mtime": w["mtime"]}
                if "sizeclass" in x and (x["sizeclass"] == 0) != (len(w["data"]) == 0):
                    raise core.MachineryError("concretization changed a size class")
                if got != want:
                    return "member %d (%r): %r, recorded header fields %r" % (k, exp_names[k], got, want)
                if k < 20:
                    try:
                        fm = members[k].fmode
                        if int(fm.strip() or b"0", 8) != w["mode"]:
                            ctx.drift("fmode of member %d is %r, written %o" % (k, fm, w["mode"]))
                        if members[k].fname != (None if mode != "byname" else arch.file(ctx)):
                            ctx.drift("fname of member %d is %r in %s mode" % (k, members[k].fname, mode))
                    except Exception as e:
                        ctx.drift("fmode/fname not readable: %r" % (e,))
            step = 1 if len(members) <= 60 else 7
            for k in list(range(0, len(members), step)) + [len(members) - 1] if members else []:
                nm = exp_names[k]
                last = members[exp["last"][k] - 1]
                if ar.getmember(nm) is not last or ar[nm] is not last:
                    which = [i for i, m in enumerate(members) if m is ar.getmember(nm)]
                    return "getmember(%r) is member %r, the specification says the last of that name: %d" % (nm, which, exp["last"][k] - 1)
                for arg in (nm, members[k]):
                    x = ar.extractfile(arg)
                    if not any(x is m for m in members) or x.name != nm:
                        return "extractfile(%r) returned %r, not a member named %r" % (arg, getattr(x, "name", x), nm)
            if ar.extractfile("no/such member") is not None:
                return "extractfile() of an absent name returned a member"
            third = ar.getnames()
            if third != exp_names or [m.name for m in ar.getmembers()] != exp_names:
                return ("getnames() = %s / getmembers() names %s after the caller edited the lists of earlier getnames() calls; the "
                        "specification lists %s" % (short(third, 200), short([getattr(m, "name", m) for m in ar.getmembers()], 200),
                                                    short(exp_names, 200)))
            # exactness of the offsets found by the index walk: whole content of every member
            for k in range(len(members)):
                got = members[k].read()
                if got != s.datas[k]:
                    return "member %d: read() returned %s, its data is %s" % (k, short(got), short(s.datas[k]))
                if len(members) > 50:
                    members[k].close()
        except core.MachineryError:
            raise
        except Exception as e:
            return "index access raised %s: %s" % (type(e).__name__, e)
        return None
    finally:
        s.finish(ctx)


# ------------------------------------------------------------------ trace recording (code -> spec)

SIZE_EDGES = [7, 8, 9, 15, 16, 17, 31, 32, 33, 63, 64, 65, 71, 72, 73, 127, 128, 129, 255, 256, 257]
NUMS6 = [0, 9, 10, 99, 100, 2 ** 15, 2 ** 16, 99999, 100000, 999999]
NUMS12 = [0, 9, 10, 2 ** 31 - 1, 2 ** 31, 2 ** 32 - 1, 2 ** 32, 10 ** 11 - 1, 10 ** 11, 999999999999]


def random_data(rng, maxlen):
    n = rng.choice([0, 0, 1, 2, 3, rng.randrange(maxlen + 1), rng.randrange(maxlen + 1), maxlen,
                    rng.choice([x for x in SIZE_EDGES if x <= max(maxlen, 9)])])
    kind = rng.randrange(6)
    if kind == 0 and n >= 8:         # looks like an archive itself
        d = (b"!<arch>\n" + b"%-16s%-12d%-6d%-6d%-8o%-10d`\n" % (b"x/", 0, 0, 0, 0o644, 4) + b"abc\n")[:n]
        return d.ljust(n, b"`")
    dens = [0.0, 0.05, 0.3, 0.6, 1.0][rng.randrange(5)]
    if kind == 1 and n >= 4:         # identical lines, CR / CRLF line ends, a last line without newline
        line = non_nl(rng, rng.randrange(3)) + rng.choice([b"\n", b"\r\n", b"\r", b"\n\n"])
        return (line * n)[:n]
    return b"".join(b"\n" if rng.random() < dens else non_nl(rng, 1) for _ in range(n))


def random_arch(rng, maxmem=5, maxlen=64, nmembers=None):
    n = nmembers if nmembers is not None else rng.choice([0, 1, 1, 2, 2, 3, 4, maxmem, rng.choice([9, 10, 11, 16, 17])])
    style = rng.choice(["gnu", "bsd"])
    pool = [{"name": x, "raw": None} for x in NAME_POOL + ([NAME16] if style == "bsd" else [])]
    encoding = errors = None
    if rng.random() < 0.35:          # text names beyond ASCII, with the encoding / errors parameters
        ex = exotic_names(rng)
        _, encoding, errors = rng.choice(ex)
        pool = [{"name": decode_name(r, encoding, errors), "raw": r} for (r, e, x) in ex if (e, x) == (encoding, errors)] + pool[:3]
    members = []
    for _ in range(n):
        m = rand_meta(rng)
        if rng.random() < 0.3:       # numbers filling their fields / powers of two, zero-padded or not
            m.update(owner=rng.choice(NUMS6), group=rng.choice(NUMS6), mtime=rng.choice(NUMS12), zeros=rng.random() < 0.5)
        nm = rng.choice(pool[:4] if rng.random() < 0.3 else pool)
        m.update(name=nm["name"], raw=nm["raw"], data=random_data(rng, maxlen if n < 20 else 6))
        members.append(m)
    return Arch(members, style, encoding=encoding, errors=errors)


READ_OPS = ["readn", "readn", "readn", "readlinen", "readlinen", "readline", "read", "readlines", "iter"]


def random_call(rng, datas, tells, big=False, marks=None, m=None, ops=None):
    """one in-domain call (D4) given the current positions of the members; marks: member -> positions of
    interest (block boundaries of the archive file falling into the member); m / ops: restrict the choice"""
    if m is None:
        m = rng.randrange(len(datas))
    L = len(datas[m])
    p = tells[m]
    near = [1, 2, 3, max(1, L), L + 1, max(1, L - 1), rng.randrange(1, L + 3)]     # all >= 1 (D4: no read(0))
    mk = [x + d for x in (marks or {}).get(m, ()) for d in (-1, 0, 1) if x + d >= 0]
    near += [x - p for x in mk if x - p >= 1]
    if big:                          # arguments around the buffer sizes of the underlying file objects
        near += [4095, 4096, 4097, 8191, 8192, 8193, 65535, 65536, 65537, 131072, 2 * L + 7]
    op = rng.choice(ops or ["read", "readn", "readn", "readline", "readline", "readlinen", "readlinen", "readlines",
                            "seek", "seek", "seek", "tell", "readlinesh", "iter"] + (["seek", "seek", "readn", "readlinen"] if big else []))
    if op == "readn":
        args = [rng.choice([-1, -7] + near)]
    elif op == "readlinen":
        args = [rng.choice([-1, 0, -3] + near)]
    elif op == "readlinesh":
        args = [rng.choice(near)]
    elif op == "seek":
        wh = rng.randrange(3)
        t = rng.choice([0, rng.randrange(L + 1), rng.randrange(L + 1), L, L + 1, L + 5, max(0, L - 1)]
                       + ([x for x in (8191, 8192, 8193, 65536) if x <= L + 5] if big else []) + mk)
        args = [t - (0 if wh == 0 else p if wh == 1 else L), wh]
    else:
        args = []
    return (m, op, args)


def random_plan(rng, op, nlines):
    """a fault of the caller's file object during one call: an exception at the first / a middle / the last step (a
    one-step call seeks, reads, asks the position; a multi-line call does so per line -- if the call has fewer
    steps the fault is not reached and the call is an ordinary one), before or after the underlying operation took
    effect; or a short delivery / early end of file at one of its reads"""
    if rng.random() < 0.3:
        at = rng.choice([1, 1, 2]) if op in BYTES_OPS else rng.choice([1, 2, max(1, nlines // 2), max(1, nlines - 1), nlines])
        return {"at": at, "short": rng.choice([0, 1, 2, -1, 5, 100])}
    if op in BYTES_OPS:
        at = rng.choice([1, 2, 2, 3])
    else:
        at = rng.choice([1, 2, 3, 4, 5, 3 * (nlines // 2) + 2, 3 * nlines - 2, 3 * nlines - 1, 3 * nlines, 3 * nlines + 1])
    return {"at": max(1, at), "exc": rng.choice(FAULT_ROT), "after": rng.random() < 0.3}


def meta_strs(m):
    return [str(m["owner"]), str(m["group"]), str(m["mtime"])]


def record(ctx, arch, mode, calls=None, rng=None, n=0, big=False, log=True, pre=(), marks=None, episodes=0.25):
    """execute calls on the real classes and log one event per call. calls = None: n random in-domain
    calls are generated on the fly from the positions of the io.BytesIO references (which follow the
    real member after the calls with several admissible outcomes), preceded by the scripted calls `pre`.
    Returns (trace, message of the io.BytesIO cross-check or None, the calls made)."""
    spec_mem = [{"name": name_hex(m["name"]), "data": list(m["data"]) if log else [], "meta": meta_strs(m)} for m in arch.members]
    s = Session(ctx, arch, mode)
    events = []
    made = []
    oracle_msg = None
    try:
        ev = {"op": "open", "members": [], "last": [], "exc": ""}
        if s.ar is None:
            ev["exc"] = s.error
        else:
            try:
                members = list(s.ar.getmembers())
                names = s.ar.getnames()
                first = {}
                for k, m in enumerate(members):
                    first.setdefault(id(m), k + 1)
                for k, m in enumerate(members):
                    ev["members"].append({"name": name_hex(names[k]) if m.name == names[k] else "%r/%r" % (m.name, names[k]),
                                          "size": m.size, "meta": [str(m.owner), str(m.group), str(m.mtime)]})
                    ev["last"].append(first.get(id(s.ar.getmember(m.name)), 0))
            except Exception as e:
                ev["exc"] = type(e).__name__
        if s.open_fault is not None:
            events.append({"op": "openfault", "exc": s.open_fault})
        events.append(ev)
        held = []

        def names_again():
            """the caller edits in place every list getnames() handed out so far ("edit": no action of the archive) and asks
            again ("names"): TLC's ANames says what the answer is"""
            e = {"op": "names", "m": 0, "args": [], "ret": [], "names": [], "exc": ""}
            try:
                what = [caller_edits(x) for x in held]
                got = s.ar.getnames()
                e["names"] = [name_hex(x) for x in got]
                held.append(got)
                held[:] = held[-2:]
            except Exception as x:
                e["exc"] = type(x).__name__
            events.append({"op": "edit", "m": 0, "args": what if not e["exc"] else [], "ret": []})
            events.append(e)
            if not e["exc"]:
                count(ctx, "results_edited_by_the_caller", "getnames() within a recorded history")

        if s.ar is not None and not ev["exc"]:
            held.append(names)
            if not s.datas:
                names_again()
        if not s.error and s.datas:
            k = 0
            retry = None
            queue, same = [], None
            while (k < n + len(pre)) if calls is None else (k < len(calls)):
                plan = None
                if calls is None and k < len(pre):
                    m, op, args = pre[k][:3]
                    plan = pre[k][3] if len(pre[k]) > 3 else None
                elif calls is None and (queue or (s.proxy is not None and rng.random() < episodes)):
                    # a fault episode (SIZE_STRESS part 5) as ordinary steps of the history: some reading call at one
                    # position of a member, the same (or another) reading call at another position during which the
                    # caller's file object fails, the caller tries again, the history goes on
                    if not queue:
                        em = rng.randrange(len(s.datas))
                        queue = [("seek", em), ("rd", em), ("seek", em), ("flt", em), ("retry", em), ("rd", em)]
                        same = None
                    what, em = queue.pop(0)
                    tl = [o.tell() for o in s.oracles]
                    if what == "seek" and rng.random() < 0.75:      # mostly inside the data
                        m, op, args = em, "seek", [rng.randrange(max(1, len(s.datas[em]))), 0]
                    elif what == "seek":
                        m, op, args = random_call(rng, s.datas, tl, big, marks, m=em, ops=["seek"])
                    elif what == "retry":
                        if retry is None:
                            continue
                        m, op, args = retry
                    elif what == "flt" and same is not None and rng.random() < 0.7:
                        m, op, args = same
                    else:
                        m, op, args = random_call(rng, s.datas, tl, big, marks, m=em, ops=READ_OPS)
                        same = (m, op, args)
                    if what == "flt":
                        o = s.oracles[m]
                        plan = random_plan(rng, op, s.datas[m][o.tell():].count(b"\n") + 1)
                elif calls is None:
                    if retry is not None and rng.random() < 0.6:
                        m, op, args = retry                 # the caller tries the failed call again
                    else:
                        m, op, args = random_call(rng, s.datas, [o.tell() for o in s.oracles], big, marks)
                        if s.proxy is not None and op in BYTES_OPS + LIST_OPS and rng.random() < 0.3:
                            o = s.oracles[m]
                            plan = random_plan(rng, op, s.datas[m][o.tell():].count(b"\n") + 1)
                else:
                    m, op, args = calls[k][:3]
                    plan = calls[k][3] if len(calls[k]) > 3 else None
                k += 1
                retry = None
                if log and k in (3, 11):
                    names_again()
                if op == "seek" and args[1] == 1 and s.oracles[m].tell() + args[0] < 0:
                    continue            # a recorded relative seek that would leave the domain on this tree
                if s.proxy is None:
                    plan = None
                made.append([m, op, list(args)] + ([plan] if plan else []))
                before = s.oracles[m].tell()
                msg, obs, t = s.step(m, op, args, ctx=ctx, fault=plan)
                if obs["fired"] is not None:
                    retry = (m, op, args)
                    if msg and oracle_msg is None:
                        oracle_msg = "call %d: %s" % (len(made), msg)
                    if log and obs["fired"] == "short-exc":      # unspecified outcome + the harness' seek back
                        events.append({"op": "seek", "m": m + 1, "args": [before, 0], "ret": [], "n": 0,
                                       "tell": t if isinstance(t, int) else -1, "exc": "" if isinstance(t, int) else str(t)})
                    elif log:
                        events.append({"op": "fault" if obs["fired"] == "raise" else "short", "m": m + 1,
                                       "kind": "one" if op in BYTES_OPS else "lines", "args": [op] + [str(a) for a in args],
                                       "ret": [list(c) for c in obs["ret"]], "n": 0, "tell": t if isinstance(t, int) else -1,
                                       "exc": obs["exc"] or ("" if isinstance(t, int) else str(t))})
                    continue
                if op == "iter" and not ITER_STRICT[0] and not obs["exc"] and len(obs["ret"]) < len(s.last_full):
                    if iter_policy(ctx) != "fixed":
                        iter_deviation(ctx, "%s over %s returned %s" % (call_str(m, op, args), short(s.datas[m]), short(obs["ret"])))
                if msg and oracle_msg is None:
                    oracle_msg = "call %d: %s" % (len(made), msg)
                if log:
                    events.append({"op": op, "m": m + 1, "args": list(args), "ret": [list(c) for c in obs["ret"]],
                                   "n": obs["n"], "tell": t if isinstance(t, int) else -1,
                                   "exc": obs["exc"] or ("" if isinstance(t, int) else str(t))})
            if log:
                names_again()
    finally:
        s.finish(ctx)
    return {"mem": spec_mem, "events": events}, oracle_msg, made


def corrupt(t, how):
    """negative controls: a history the specification must NOT accept (None if not applicable)"""
    import copy
    t = copy.deepcopy(t)
    ev = t["events"]
    op0 = [e for e in ev if e["op"] == "open"][0]
    cev = [e for e in ev if e["op"] not in ("open", "openfault", "names", "edit")]
    if how == "names":               # a later getnames() that lost / reordered a name (what an edited, memoised list gives)
        for e in ev:
            if e["op"] == "names" and len(e["names"]) >= 1:
                e["names"] = sorted(e["names"])[:-1] if len(e["names"]) > 1 else e["names"] + e["names"]
                return t
        return None
    if how == "last":
        if op0["last"]:
            op0["last"][0] = 0
            return t
    elif how == "size":
        if op0["members"]:
            op0["members"][-1]["size"] += 1
            return t
    elif how == "byte":
        for e in cev:
            for c in e["ret"]:
                if c:
                    c[-1] = c[-1] ^ 1 if (c[-1] ^ 1) != 10 and c[-1] != 10 else c[-1] ^ 2
                    return t
    elif how == "tell":
        for e in cev:
            if e["op"] not in ("fault", "short"):      # (after a failed readlines() several positions are admissible)
                e["tell"] += 1
                return t
    elif how == "dropread":
        # remove a read that returned something when the same member is used again before any
        # absolute seek: every later result/position of that member is then off by its length
        for i in range(len(ev)):
            e = ev[i]
            if e["op"] in ("read", "readn", "readline", "readlinen", "readlines") and any(e["ret"]):
                for f in ev[i + 1:]:
                    if f["m"] == e["m"]:
                        if (f["op"] == "seek" and f["args"][1] != 1) or f["op"] in ("fault", "short"):
                            break
                        del ev[i]
                        return t
    elif how == "faultmove":         # a failed one-step call that moved the position
        for e in cev:
            if e["op"] == "fault" and e["kind"] == "one":
                e["tell"] += 1
                return t
    elif how == "faultother":        # a failed call from which another exception came out
        for e in cev:
            if e["op"] == "fault":
                e["exc"] = "OSError"
                return t
    elif how == "shortskip":         # a short delivery whose bytes are not the next ones
        for e in cev:
            if e["op"] == "short" and any(e["ret"]):
                e["tell"] += 1
                return t
    elif how == "openfault":         # ArFile() failed with something else than the file object's exception
        for e in ev:
            if e["op"] == "openfault":
                e["exc"] = "ArError"
                return t
    return None


CONTROL_KINDS = ("last", "size", "byte", "tell", "dropread", "faultmove", "faultother", "shortskip", "openfault", "names")


def trace_cfg(ctx):
    """TraceArMember.cfg. known_findings.json lists C06-iter-single-line as fixed, so the former deviation
    IterSingleLine stays FALSE (a fixed entry suppresses nothing); the switch is only flipped if that entry
    were ever re-opened (DESIGN 2.3: deviations are named actions enabled by a constant)"""
    cfg = open(os.path.join(core.SPEC, "TraceArMember.cfg")).read()
    if "IterSingleLine = FALSE" not in cfg:
        raise core.MachineryError("constant IterSingleLine not found in TraceArMember.cfg")
    if iter_policy(ctx) != "fixed":
        cfg = cfg.replace("IterSingleLine = FALSE", "IterSingleLine = TRUE")
    return cfg


def validate(ctx, traces, with_controls=True):
    controls = []
    if with_controls:
        for how in CONTROL_KINDS:
            for t in traces:
                c = corrupt(t, how)
                if c:
                    controls.append(c)
                    break
        if len(controls) < 3:
            raise core.MachineryError("could not derive corrupted control traces")
    cfg = trace_cfg(ctx)
    # the recursive BytesIO operators go ~260 deep on 257-byte members: give the TLC threads room
    jopts = ["-XX:TieredStopAtLevel=1", "-Xss64m"]
    acc, _, _ = core.validate_traces(ctx, "TraceArMember", cfg, traces,
                                     extra_env={"TRACE_DIAG": "0"}, controls=controls, java_opts=jopts)
    rejected = [i for i in range(1, len(traces) + 1) if i not in acc]
    info = {}
    if rejected:
        sub = [traces[i - 1] for i in rejected[:20]]
        _, prog, _ = core.validate_traces(ctx, "TraceArMember", cfg, sub,
                                          extra_env={"TRACE_DIAG": "1"}, java_opts=jopts)
        for j, i in enumerate(rejected[:20]):
            info[i] = prog.get(j + 1, 0)
    return rejected, info


def trace_leg(ctx, jobs, label, rng):
    """jobs: [(arch, mode, number of calls)]; record, cross-check with io.BytesIO, let TLC validate"""
    traces, made = [], []
    for job in jobs:
        arch, mode, n = job[:3]
        t, omsg, calls = record(ctx, arch, mode, rng=rng, n=n, episodes=job[3] if len(job) > 3 else 0.25)
        traces.append(t)
        made.append(calls)
        if omsg and len(ctx.violations) < 5:
            ctx.violation({"kind": "calls", "arch": arch.to_json(), "mode": mode, "calls": calls},
                          "%s archive, %s mode: %s" % (label, mode, omsg))
    if not traces:
        return
    rejected, info = validate(ctx, traces)
    ctx.traces += len(traces)
    ctx.evaluations += sum(len(t["events"]) for t in traces)
    for i in range(len(traces)):
        ctx.distinct.add((label, i))
    for i in rejected[:5]:
        arch, mode = jobs[i - 1][:2]
        t = traces[i - 1]
        at = info.get(i, 0)
        ev = t["events"][at] if at < len(t["events"]) else None
        if ev is None or ev["op"] in ("open", "openfault", "names", "edit"):
            what = "ArFile listing %s%s" % ("(getnames() after the caller edited the lists of earlier calls) " if ev and ev["op"] == "names" else "",
                                            short(ev, 600))
        elif ev["op"] in ("fault", "short"):
            what = "member[%d].%s%s hit by a fault of the file object -> %s" % (ev["m"] - 1, ev["args"][0], tuple(ev["args"][1:]), short(ev, 400))
        else:
            what = "%s -> %s" % (call_str(ev["m"] - 1, ev["op"], ev["args"]), short(ev, 400))
        ctx.violation({"kind": "calls", "arch": arch.to_json(), "mode": mode, "calls": made[i - 1],
                       "first_unexplained_event": at + 1},
                      "%s archive, %s mode: recorded history not explained by ArMemberRef at event %d (%s); member data %s"
                      % (label, mode, at + 1, what, short([m["data"] for m in arch.members], 400)))
    ctx.extra["traces_recorded_" + label] = len(traces)
    ctx.extra["traces_rejected_" + label] = len(rejected)
    return traces


# ------------------------------------------------------------------ size stress beyond what TLC can scan

BIG_SIZES = [0, 1, 2, 8191, 8192, 8193, 65535, 65536, 65537, 1048576, 131071, 131072, 4095, 4096, 4097]


def big_data(rng, n):
    """n bytes: long lines (also > 64 KiB), many short lines, or no newline at all; last line with or
    without newline"""
    kind = rng.randrange(4)
    if kind == 0 or n < 4:
        d = non_nl(rng, n)
    elif kind == 1:
        line = non_nl(rng, rng.choice([1, 2, 61, 79, 127, 4095, 8191, 8192])) + b"\n"
        d = (line * (n // len(line) + 1))[:n]
    elif kind == 2:                  # one line longer than 64 KiB (if the member is), then short ones
        first = min(n, rng.choice([65535, 65536, 65537, 70000]))
        d = non_nl(rng, first - 1) + b"\n" + (b"ab\n" * n)[:n - first]
    else:
        d = bytearray(non_nl(rng, n))
        for x in (8191, 8192, 65535, 65536, n - 1):
            if 0 <= x < n and rng.random() < 0.7:
                d[x] = 10
        d = bytes(d)
    if len(d) != n:
        raise core.MachineryError("big_data: %d != %d" % (len(d), n))
    return d


def big_leg(ctx, rng, narch, ncalls):
    """archives whose members have the boundary sizes (8 KiB / 64 KiB / 1 MiB +-1, lines longer than
    64 KiB), calls with arguments around those boundaries and larger than the member, many interleaved
    seeks. Too big for TLC to scan: judged against io.BytesIO over the member data (reference library
    named in DESIGN.md); the TLC-derived counterpart is the K-scaled replay of the reference LTS."""
    nbig = 0
    for i in range(narch):
        if len(ctx.violations) >= 5:
            break
        sizes = [BIG_SIZES[(i * 3 + j) % len(BIG_SIZES)] for j in range(rng.choice([1, 2, 3]))]
        if i % 4 == 3:
            sizes.append(rng.choice(BIG_SIZES))
        members = []
        for n in sizes:
            m = rand_meta(rng)
            m.update(name=rng.choice(NAME_POOL), raw=None, data=big_data(rng, n))
            members.append(m)
        arch = Arch(members, rng.choice(["gnu", "bsd"]))
        mode = pick_mode(i, arch, flaky=i % 8 != 0)
        _, omsg, calls = record(ctx, arch, mode, rng=rng, n=ncalls, big=True, log=False)
        nbig += 1
        ctx.case_seen(("big", i), True)
        if omsg:
            ctx.violation({"kind": "calls", "arch": arch.to_json(), "mode": mode, "calls": calls, "big": True},
                          "size-stress archive (member sizes %r), %s mode: %s" % (sizes, mode, omsg))
    ctx.extra["size_stress_archives"] = nbig
    return nbig


# ------------------------------------------------------------------ faults of the caller's file object (SIZE_STRESS part 5)

FAULT_SIZES = [5, 8, 13, 21, 34, 64, 100, 257, 600, 4097, 8193, 20000]


def fault_arch(rng, small):
    members = []
    for _ in range(rng.choice([1, 2, 2, 3])):
        n = rng.choice(FAULT_SIZES[:6] if small else FAULT_SIZES)
        m = rand_meta(rng)
        d = bytes(rng.randrange(256) for _ in range(n)) if n <= 600 and rng.random() < 0.5 else big_data(rng, n)
        m.update(name=rng.choice(NAME_POOL), raw=None, data=d)
        members.append(m)
    return Arch(members, rng.choice(["gnu", "bsd"]))


def fault_leg(ctx, rng, narch, ncalls):
    """histories made of fault episodes only (record(): reading call at one position, a reading call at another one hit by
    a fault of the caller's file object -- exception at its first / middle / last step or a short delivery --, the retry,
    a further call), on members of 5 bytes .. 20 KB through every kind of file object, some sessions starting with a failed
    ArFile() call.  Volume leg judged against io.BytesIO like the size-stress leg (a failed call does not move the
    reference); the same episodes on small members are part of the traces validated by TLC."""
    n = 0
    for i in range(narch):
        if len(ctx.violations) >= 5:
            break
        arch = fault_arch(rng, small=False)
        mode = pick_mode(0, arch, flaky=True)
        _, omsg, calls = record(ctx, arch, mode, rng=rng, n=ncalls, big=i % 3 == 0, log=False, episodes=1.0)
        n += 1
        ctx.case_seen(("faults", i), True)
        if omsg:
            ctx.violation({"kind": "calls", "arch": arch.to_json(), "mode": mode, "calls": calls, "big": True},
                          "history with faults of the caller's file object (member sizes %r), %s mode: %s"
                          % ([len(m["data"]) for m in arch.members], mode, omsg))
    ctx.extra["fault_episode_histories"] = n
    return n


# ------------------------------------------------------------------ block-boundary alignment (SIZE_STRESS part 4)

ALIGN_T = [(1 << k) + d for k in range(9, 18) for d in (-1, 0, 1)]
ALIGN_WHAT = ["data_end", "line_end", "data_start", "header_start", "archive_end"]


def aligned_arch(rng, T, what):
    """an archive in which a boundary of its structure falls exactly at offset T of the archive FILE:
    the end of a member's data, the end of a line inside a member, the start of a member's data, the start
    of a member header, the end of the archive.  Data always starts at even offsets (60-byte headers, pad
    bytes), so the last three exist for even T only (None otherwise).  Returns (members, marks) with
    marks: member -> member-relative positions at offset T."""
    first = 8 + 60                     # offset of the first member's data
    lines = lambda n: (non_nl(rng, rng.choice([1, 7, 61])) + b"\n") * (n // 2 + 1)
    if what == "data_end":
        sizes = [T - first, rng.choice([0, 1, 6])]
    elif what == "line_end":
        sizes = [T - first + rng.choice([0, 1, 5, 100]), rng.choice([0, 3])]
    elif T % 2:
        return None
    elif what == "data_start":
        sizes = [T - first - 60, rng.choice([1, 100, 8193])]
    elif what == "header_start":
        sizes = [T - first - rng.choice([0, 1]), 9, 0]
    else:                              # archive_end
        sizes = [2, T - first - 2 - 60 - rng.choice([0, 1])]
    datas = []
    for i, n in enumerate(sizes):
        kind = rng.randrange(3)
        d = bytearray(non_nl(rng, n) if kind == 0 else lines(n)[:n] if kind == 1 else big_data(rng, n))
        datas.append(d)
    if what == "line_end":
        datas[0][T - 1 - first] = 10       # the line ends exactly at T
        if T - 2 - first >= 0 and rng.random() < 0.5:
            datas[0][T - 2 - first] = 10   # ... and is a lone newline
    members, marks, off = [], {}, 8
    for i, d in enumerate(datas):
        m = rand_meta(rng)
        m.update(name=NAME_POOL[i], raw=None, data=bytes(d))
        members.append(m)
        off += 60
        if 0 <= T - off <= len(d) + 1:
            marks[i] = [T - off]
        off += len(d) + len(d) % 2
    where = {"data_end": first + sizes[0], "line_end": T, "data_start": first + sizes[0] + 60,
             "header_start": first + sizes[0] + sizes[0] % 2, "archive_end": off}[what]
    if where != T:
        raise core.MachineryError("aligned_arch(%d, %s): boundary at %d" % (T, what, where))
    return members, marks


def aligned_leg(ctx, rng, quick):
    """archives with a structural boundary at, one before and one after 2^k (k = 9..17), read through every kind
    of file object and by name: scripted calls that start, end and cross the boundary, then random ones.  Judged
    against io.BytesIO like the size-stress leg (same call semantics as the K-scaled TLC cases, sizes TLC cannot scan)."""
    done = {}
    if quick:       # 2^k: a line end inside the data + one of the other boundaries; 2^k -+ 1: the two that exist for odd offsets
        cases = []
        for i, T in enumerate(ALIGN_T):
            cases += [(T, "line_end"), (T, ALIGN_WHAT[i % len(ALIGN_WHAT)])] if T % 2 == 0 else [(T, ("data_end", "line_end")[(i // 3) % 2])]
    else:
        cases = [(T, w) for r in range(2) for T in ALIGN_T for w in ALIGN_WHAT]
    for i, (T, what) in enumerate(cases):
        if len(ctx.violations) >= 5:
            break
        built = aligned_arch(rng, T, what)
        if built is None:
            continue
        members, marks = built
        arch = Arch(members, rng.choice(["gnu", "bsd"]))
        pre = []
        by_n = [("readn", [1]), ("readn", [3]), ("readn", [8192]), ("readn", [2])]
        by_line = [("readline", []), ("readlinen", [2]), ("readlinen", [70000]), ("readlinen", [1])]
        rest = [("read", []), ("iter", []), ("readlines", []), ("readn", [-1])]
        for m, xs in sorted(marks.items()):
            for x in xs:
                for j, d in enumerate((0, -1, 1, -2)):   # every call form STARTING at, before and after the boundary
                    if x + d < 0:
                        continue
                    for group in (by_n, by_line, rest):
                        op, args = group[(i + j) % 4 if j else 0]
                        pre += [(m, "seek", [x + d, 0]), (m, op, list(args))]
                        if len(members) > 1 and (i + j) % 2:     # another member in between moves a shared file position
                            pre.append(((m + 1) % len(members), "readn", [1]))
                        pre.append((m, "readline", []))
                if x >= 1:                               # reads that END at the boundary
                    pre += [(m, "seek", [max(0, x - 3), 0]), (m, "readn", [min(3, x)]), (m, "readline", [])]
        mode = "byname" if i % 4 == 3 else pick_mode(0, arch, flaky=i % 8 != 0, prefix=False)
        _, omsg, calls = record(ctx, arch, mode, rng=rng, n=12, big=True, log=False, pre=pre, marks=marks)
        done[what] = done.get(what, 0) + 1
        ctx.case_seen(("aligned", T, what), True)
        if omsg:
            ctx.violation({"kind": "calls", "arch": arch.to_json(), "mode": mode, "calls": calls, "big": True,
                           "aligned": {"offset": T, "boundary": what}},
                          "archive with its %s at offset %d of the file (member sizes %r), %s mode: %s"
                          % (what, T, [len(m["data"]) for m in members], mode, omsg))
    ctx.extra["aligned_cases"] = {"offsets": "2^k-1, 2^k, 2^k+1 for k = 9..17", "per_boundary": done}
    return sum(done.values())


# ------------------------------------------------------------------ archives written by ar(1)

def ar_binary_archive(ctx, rng, idx):
    """members written by GNU ar (q = append, so duplicate names are possible; U = real uid/gid/mtime;
    S = no symbol table: binutils otherwise prepends a special "/" member as soon as a BFD plugin takes
    some random member data for an object file, and special members are outside "short member names");
    the expected header fields come from os.stat of the input files"""
    base = os.path.join(ctx.work, "arbin%04d" % idx)
    n = rng.choice([0, 1, 2, 3, 5])
    members, files = [], []
    pool = [x for x in NAME_POOL if len(x) <= 15]
    for i in range(n):
        d = os.path.join(base, "d%d" % i)
        os.makedirs(d)
        name = rng.choice(pool[:3] if rng.random() < 0.4 else pool)
        data = random_data(rng, 64)
        p = os.path.join(d, name)
        with open(p, "wb") as f:
            f.write(data)
        mode = rng.choice([0o644, 0o755, 0o600])
        os.chmod(p, mode)
        mt = rng.choice([0, 1, 1234567890, rng.randrange(2 ** 31)])
        os.utime(p, (mt, mt))
        st = os.stat(p)
        members.append({"name": name, "data": data, "owner": st.st_uid, "group": st.st_gid, "mtime": int(st.st_mtime),
                        "mode": st.st_mode})
        files.append(p)
    os.makedirs(base, exist_ok=True)
    path = os.path.join(base, "t.ar")
    if files:
        p = subprocess.run([AR_BIN, "qcUS", path] + files, capture_output=True, text=True)
    else:
        p = subprocess.run([AR_BIN, "qcUS", path], capture_output=True, text=True)
    if p.returncode != 0 or not os.path.exists(path):
        raise core.MachineryError("ar failed: %s" % p.stderr)
    with open(path, "rb") as f:
        blob = f.read()
    return Arch(members, "gnu", blob=blob)      # by-name mode stores the blob under a re-used pool path


# ------------------------------------------------------------------ process-level layer (ArMemberProc)

PROC_ALPHABETS = {1: [b"abc", b"XYZ", b"159"], 2: [b"def", b"UVW", b"260"]}


def proc_versions(rng, paths, maxversion):
    """(path, version) -> archive; successive archives of a path use disjoint byte alphabets (a stale
    read can never look right) and, half of the time, the same layout (a stale read stays in bounds)"""
    out = {}
    for p in paths:
        sizes = [rng.randrange(1, 24) for _ in range(rng.randrange(1, 4))]
        for v in range(1, maxversion + 1):
            if rng.random() < 0.5:
                sizes = [rng.randrange(1, 24) for _ in range(rng.randrange(1, 4))]
            alpha = PROC_ALPHABETS[p][(v - 1) % 3]
            members = []
            for i, n in enumerate(sizes):
                m = rand_meta(rng)
                data = bytes(10 if rng.random() < 0.2 else alpha[rng.randrange(len(alpha))] for _ in range(n))
                m.update(name=NAME_POOL[i], data=data)
                members.append(m)
            out[(p, v)] = Arch(members, rng.choice(["gnu", "bsd"]))
    return out


def proc_replay(ctx, edges, versions, script=None, rng=None):
    """replay one behaviour of ArMemberProc on real files. edges: EDGE records of TLC (op, args, res);
    versions: (path, version) -> Arch. A judged read (TLC: res.judged, expected content res.content)
    runs calls that are compared with io.BytesIO over the data of THAT content; reads through objects
    older than the last rewrite of their path are executed but not judged. `script` = the concrete calls
    of every read step (recorded on the first run, re-used by --replay). Returns (message, script)."""
    record_script = script is None
    script = [] if record_script else [list(x) for x in script]
    si = 0
    paths = sorted({p for (p, _) in versions})
    fname = {p: os.path.join(ctx.work, "proc%d.ar" % p) for p in paths}
    cur = {}
    for p in paths:
        write_file(fname[p], versions[(p, 1)].blob, "inplace" if os.path.exists(fname[p]) and p % 2 else "replace")
        cur[p] = 1
    objs = []
    try:
        for k, e in enumerate(edges):
            op, a = e["op"], e["args"]
            if op == "open":
                p, byname = a
                s = Session(ctx, versions[(p, cur[p])], "byname" if byname else "fileobj:" + fobj.PATH_BACKED[k % 3],
                            path=fname[p])
                s.born = (p, cur[p])
                objs.append(s)
                if s.error:
                    return "step %d open(%s): %s" % (k + 1, "by name" if byname else "by file object", s.error), script
            elif op == "rewrite":
                p, kind = a
                cur[p] += 1
                write_file(fname[p], versions[(p, cur[p])].blob, kind)
            elif op == "close":
                objs[a[0] - 1].close()
            elif op == "read":
                s = objs[a[0] - 1]
                judged = e["res"]["judged"]
                if judged and (s.born[1] != e["res"]["content"] or cur[s.born[0]] != s.born[1]):
                    raise core.MachineryError("process-level replay out of step with the model at step %d" % (k + 1))
                calls = None if record_script else script[si]
                si += 1
                done = []
                if record_script:
                    script.append(done)
                    m0 = rng.randrange(len(s.datas))
                for ci in range(4 if record_script else len(calls)):
                    if not record_script:
                        c = calls[ci]
                    elif ci == 0:
                        c = (m0, "seek", [0, 0])
                    elif ci == 1:
                        c = (m0, rng.choice(["read", "readline", "readlines"]), [])
                    else:        # generated against the live reference positions
                        c = random_call(rng, s.datas, [o.tell() if judged else 0 for o in s.oracles])
                    m, cop, cargs = c
                    done.append([m, cop, list(cargs)])
                    if not judged:
                        do_call(s.members[m], cop, cargs)          # unspecified: executed, not judged
                        continue
                    msg, _, _ = s.step(m, cop, cargs)
                    if msg:
                        hist = " ".join("%s%s" % (x["op"], tuple(x["args"])) for x in edges[:k + 1])
                        return ("process history [%s]: the object was built from archive #%d of its path and the path "
                                "still holds it, but %s" % (hist, s.born[1], msg)), script
        return None, script
    finally:
        # every behaviour starts from a clean process state (members closed), so that a recorded case
        # reproduces on its own; leftovers across archives are the business of the other legs
        for s in objs:
            s.close()


def proc_leg(ctx, quick, rng):
    cfg = "MC_ArMemberProc_lts_quick.cfg" if quick else "MC_ArMemberProc_lts.cfg"
    r = ctx.tlc_must_hold("ArMemberProc", cfg, workers=1, want_tags={"EDGE"})
    text = open(os.path.join(core.SPEC, "MC_ArMemberProc_lts_quick.cfg")).read()
    if "SharedHandlePerPath = FALSE" not in text:
        raise core.MachineryError("constant SharedHandlePerPath not found")
    nc = ctx.tlc("ArMemberProc", text.replace("SharedHandlePerPath = FALSE", "SharedHandlePerPath = TRUE")
                 .replace("Emit = TRUE", "Emit = FALSE").replace("INVARIANT SnapNotOlder\n", ""), count=False, workers=1)
    if nc.violated != "FreshSeesOwn":
        raise core.MachineryError("spec-level negative control SharedHandlePerPath = TRUE: expected FreshSeesOwn violated, TLC says %r" % (nc.violated,))
    ctx.extra.setdefault("spec_negative_controls", {})["SharedHandlePerPath=TRUE"] = nc.violated
    edges = r.printed.get("EDGE", [])
    edges.sort(key=lambda e: (skey(e["from"]), e["op"], skey(e["args"])))
    if not edges:
        raise core.MachineryError("no EDGE lines from ArMemberProc")
    init = {"files": edges[0]["from"]["files"], "objs": []}
    npaths = len(init["files"])
    init["files"] = [1] * npaths
    g = LTS(edges, init)
    paths = g.paths()
    maxv = max(max(e["to"]["files"]) for e in g.edges)
    per_op = {}
    n = 0
    versions = None
    # only judged reads produce verdicts: every such edge is replayed behind the shortest history leading to its state
    # (open / rewrite / close edges are covered as steps of those histories and of the walks)
    todo = [(paths[e["_f"]] + [e], "transition") for e in g.edges if e["op"] == "read" and e["res"]["judged"]]
    nw = 60 if quick else 500
    for w in range(nw):
        todo.append((g.walk(rng, g.init, 12, weight=lambda x: 1 if x["op"] == "open" else 2), "walk"))
    for pi, (path, what) in enumerate(todo):
        if len(ctx.violations) >= 5:
            break
        if versions is None or pi % 25 == 0:
            versions = proc_versions(rng, range(1, npaths + 1), maxv)
        msg, script = proc_replay(ctx, path, versions, rng=rng)
        n += 1
        for e in path[-1:]:
            per_op[e["op"]] = per_op.get(e["op"], 0) + 1
        ctx.case_seen(("proc", what, pi), True)
        if msg:
            ctx.violation({"kind": "proc", "edges": [strip(e) for e in path], "script": script,
                           "versions": [[p, v, a.to_json()] for (p, v), a in sorted(versions.items())]},
                          "%s of the process-level model: %s" % (what, msg))
    ctx.extra["process_layer"] = {"states": len(g.states), "edges": len(g.edges), "behaviours_replayed": n,
                                  "last_action": per_op, "paths": npaths, "max_version": maxv}
    rd = [e for e in g.edges if e["op"] == "read" and e["res"]["judged"] and len(e["from"]["objs"]) > 1]
    if rd:
        ctx.sample("process-level edge: " + json.dumps(strip(rd[len(rd) // 2]), separators=(",", ":")))
    return n


# ------------------------------------------------------------------ the check

def lts_per_archive(edges):
    """EDGE lines -> {archive key: (cells, LTS)}; the member index goes into args. list(member) has one
    outcome (every remaining line; IterSingleLine = FALSE in the LTS configurations). Were the constant
    enabled, the second outcome would be attached to the edge as e["_dev"] and kept out of the graph."""
    groups = {}
    for e in edges:
        k = skey(e["a"])
        g = groups.setdefault(k, (e["a"], []))
        g[1].append({"from": e["f"], "to": e["t"], "op": e["op"], "args": [e["m"]] + e["args"], "res": e["res"]})
    out = {}
    for k in sorted(groups):
        cells, es = groups[k]
        es.sort(key=lambda x: (skey(x["from"]), x["op"], skey(x["args"])))
        iters = {}
        for e in es:
            if e["op"] == "iter":
                iters.setdefault((skey(e["from"]), e["args"][0]), []).append(e)
        keep = []
        for e in es:
            if e["op"] != "iter":
                keep.append(e)
                continue
            sib = iters[(skey(e["from"]), e["args"][0])]
            top = max(x["args"][1] for x in sib)
            if e["args"][1] != top:
                continue                       # the deviation outcome
            e = dict(e)
            dev = [x for x in sib if x["args"][1] != top]
            e["dev"] = {"res": dev[0]["res"], "to": dev[0]["to"]} if dev else None
            keep.append(e)
        g = LTS(keep, [0] * len(cells))
        for i, e in enumerate(g.edges):
            e["_n"] = i
            if e["op"] == "iter":
                e["_dev"] = e.pop("dev")
        out[k] = (cells, g)
    return out


def negative_control(ctx, base_cfg, const, expect, off="TRUE", on="FALSE"):
    """the design constant `const` (value `off` in the configurations) switched to the defect `on`"""
    cfg = open(os.path.join(core.SPEC, base_cfg)).read()
    if ("%s = %s" % (const, off)) not in cfg:
        raise core.MachineryError("constant %s not found in %s" % (const, base_cfg))
    r = ctx.tlc("ArMember", cfg.replace("%s = %s" % (const, off), "%s = %s" % (const, on)).replace("Emit = TRUE", "Emit = FALSE"),
                count=False, workers=4)
    if r.violated not in expect:
        raise core.MachineryError("spec-level negative control %s = %s: expected one of %r violated, TLC says %r"
                                  % (const, on, expect, r.violated))
    ctx.extra.setdefault("spec_negative_controls", {})["%s=%s" % (const, on)] = r.violated


def run(ctx):
    quick = ctx.tier == "quick"
    rng = ctx.rng
    ITER_STRICT[0] = iter_policy(ctx) == "fixed"
    ctx.assumptions += [
        "model archives: <= 2 members x <= %d data cells over {newline, other}, index cases <= 3 members x sizes 0/1/2 x 2 names; closed state space: histories of any length over this alphabet" % (2 if quick else 3),
        "domain D4: read()/read(n>=1 or n<0), readline(any n), readlines() without hint, seek to non-negative targets (whence 0/1/2); read(0) excluded; the return value of seek() is not compared",
        "each model cell is concretized to 1-5 bytes (sampled, seeded); member names are ASCII and fit the 16-byte header field",
        "trusted: TLC, the harness' ar writer, io.BytesIO (second oracle), os.stat for archives written by ar(1), the standard library's file objects (gzip/bz2/lzma/tarfile/zipfile/tempfile/io) presenting the archive bytes",
        "file objects given to ArFile(fileobj=) are seekable binary streams whose read(n) returns n bytes unless the stream ends and whose readline(n) honours n; zipfile.ZipExtFile (readline(limit) overshoots on long lines in CPython 3.12) only for archives of <= 500 bytes",
        "faults of the caller's file object: one fault per call (raise at the at-th seek/read/readline/tell, or one short read/readline), injected by a proxy in front of the real file object; short deliveries during ArFile() itself are out of domain; after a short delivery only 'own next bytes, position behind them' is required; an exception raised in reaction to a short delivery is unspecified",
        "process level: members of an ArFile whose path was rewritten after the object was built are unspecified (executed, not judged); every object built after the last rewrite is judged, whatever was opened or left unclosed before",
    ]
    # 1. design level: the implementation-layer model refines the reference (any history), index exact
    #    (quick: shared file object at 2 data cells + by-name mode at 1 data cell; thorough: 3 and 2).
    #    These runs do not feed the replay, so they proceed in a background thread while the LTSs are
    #    emitted and replayed; a failure is re-raised when the thread is joined at the end of run().
    design = {}

    def design_runs():
        try:
            r = ctx.tlc_must_hold("ArMember", "MC_ArMember_quick.cfg" if quick else "MC_ArMember.cfg", workers=4)
            design["states"] = r.distinct
            design["states"] += ctx.tlc_must_hold("ArMember", "MC_ArMember_quick_byname.cfg" if quick
                                                  else "MC_ArMember_byname.cfg", workers=4).distinct
            negative_control(ctx, "MC_ArMember_quick.cfg", "ClampReadline", ("Refines", "SameResult"))
            # __iter__ as before 225a5e1 (one line per iterator) must not refine the reference
            negative_control(ctx, "MC_ArMember_quick.cfg", "IterYieldsAll", ("Refines", "SameResult"))
            # an index walk that asks the DESCRIPTOR underneath the file object for the size of the archive
            # must lose members as soon as the descriptor names a smaller file (a decompressing wrapper)
            negative_control(ctx, "MC_ArMember_index.cfg", "TrustFd", ("IndexExact",), off="FALSE", on="TRUE")
            # a position committed BEFORE the underlying read succeeded: a call that fails inside the caller's file
            # object leaves the member somewhere else although nothing was returned
            negative_control(ctx, "MC_ArMember_quick.cfg", "CommitAfterRead", ("Refines",))
            # member offsets from a running count that takes the global header for byte 0 of the caller's file object:
            # every data window is shifted as soon as the archive is handed over behind a prefix
            negative_control(ctx, "MC_ArMember_index.cfg", "TellOffsets", ("IndexExact",))
            # getnames() handing out one memoised list: a caller's in-place edit changes every later answer
            negative_control(ctx, "MC_ArMember_quick_byname.cfg", "FreshLists", ("NamesExact",))
            if not quick:
                negative_control(ctx, "MC_ArMember_quick.cfg", "PadOdd", ("IndexExact",))
                negative_control(ctx, "MC_ArMember_quick.cfg", "SeekFirst", ("Refines", "SameResult", "Isolation"))
                ctx.tlc_must_hold("ArMemberProc", "MC_ArMemberProc.cfg", workers=4)
        except BaseException as e:      # re-raised by join_design()
            design["error"] = e

    import threading
    th = threading.Thread(target=design_runs)
    th.start()

    def join_design():
        th.join()
        if "error" in design:
            raise design["error"]
        ctx.extra["lts"]["impl_layer_states"] = design["states"]

    try:
        run_binding(ctx, quick, rng)
    except BaseException:
        th.join()
        raise
    join_design()


def run_binding(ctx, quick, rng):
    import time
    t_phase = [time.time()]
    phases = ctx.extra.setdefault("phase_s", {})

    cpu = ctx.extra.setdefault("phase_python_cpu_s", {})
    c_phase = [time.process_time()]

    def phase(name):
        phases[name] = round(time.time() - t_phase[0], 1)
        cpu[name] = round(time.process_time() - c_phase[0], 1)     # (other jobs on the machine do not count here)
        t_phase[0] = time.time()
        c_phase[0] = time.process_time()

    # 2. index cases (and IndexExact for <= 3 members with duplicate names) -- in a thread, while
    # 3. the complete reference LTS is emitted
    import threading
    box = {}

    def idx_run():
        try:
            box["r"] = ctx.tlc_must_hold("ArMember", "MC_ArMember_index.cfg", workers=2, want_tags={"INDEX", "IOPEN"})
        except BaseException as e:
            box["error"] = e

    th = threading.Thread(target=idx_run)
    th.start()
    try:
        r_lts = ctx.tlc_must_hold("ArMemberRef", "MC_ArMemberRef_lts_quick.cfg" if quick else "MC_ArMemberRef_lts.cfg",
                                  workers=1 if quick else 4, want_tags={"EDGE"})
    finally:
        th.join()
    if "error" in box:
        raise box["error"]
    r_idx = box["r"]
    archives = lts_per_archive(r_lts.printed.get("EDGE", []))
    nedges = sum(len(g.edges) for _, g in archives.values())
    ops_count = {}
    for _, g in archives.values():
        for e in g.edges:
            ops_count[e["op"]] = ops_count.get(e["op"], 0) + 1
    ctx.extra["lts"] = {"archives": len(archives), "states": sum(len(g.states) for _, g in archives.values()),
                        "edges": nedges, "index_walk_states": r_idx.distinct}
    ctx.extra["edges_per_action"] = ops_count
    ctx.extra["model_constants"] = {"Bytes": [10, 120], "MaxMembers": 2, "MaxData": 2 if quick else 3,
                                    "RdSizes": [-1, 1, 2] + ([] if quick else [4]),
                                    "RlSizes": [-1, 0, 1, 2] + ([] if quick else [4]),
                                    "SeekMax": 3 if quick else 4, "index": {"MaxMembers": 3, "Names": 2, "sizes": [0, 1, 2]},
                                    "impl_layer": ("shared mode: MaxData 2; by-name mode: MaxData 1, SeekMax 2" if quick
                                                   else "shared mode: MaxData 3, SeekMax 4; by-name mode: MaxData 2, SeekMax 3")}
    missing = [o for o in ("read", "readn", "readline", "readlinen", "readlines", "seek", "tell", "iter", "fault") if not ops_count.get(o)]
    if not nedges or missing:
        raise core.MachineryError("reference LTS incomplete: %d EDGE lines, actions never taken: %r" % (nedges, missing))

    n_replayed = 0
    phase("tlc_emission")

    # 2'. replay the index cases
    seen = set()
    idx_cases = []
    for c in r_idx.printed.get("INDEX", []):
        k = skey(c["a"])
        if k not in seen:
            seen.add(k)
            idx_cases.append(c)
    idx_cases.sort(key=lambda c: skey(c["a"]))
    # how the archive is handed to ArFile is part of TLC's case: (mode, what is underneath the shared file object)
    combos = {}
    for c in r_idx.printed.get("IOPEN", []):
        combos.setdefault(skey(c["a"]), set()).add((c["mode"], c["fd"], c["base"]))
    # (base: where the archive starts in the caller's file object -- 0 / an odd / an even number of prefix cells)
    want_combos = sorted([("byname", "same", 0)] + [("shared", k, b) for k in ("none", "same", "less", "more") for b in (0, 1, 2)])
    if any(sorted(combos.get(skey(c["a"]), ())) != want_combos for c in idx_cases):
        raise core.MachineryError("IOPEN lines of the index configuration incomplete: %r" % (sorted(combos.values(), key=sorted)[:2],))
    per_fd = ctx.extra.setdefault("index_replays_per_opening_form", {})
    nidx = 0
    big_counts = 0
    for ci, c in enumerate(idx_cases):
        if len(ctx.violations) >= 5:
            break
        for j in range(2 if quick else 6):
            canonical = j == 0
            encoding = errors = None
            repeat = 1
            if canonical:
                two = [{"name": NAME_POOL[0], "raw": None}, {"name": NAME_POOL[1], "raw": None}]
            elif (ci + j) % 3 == 0:       # text names beyond ASCII (consecutive entries: NFC/NFD twins etc.)
                ex = exotic_names(rng)
                _, encoding, errors = ex[rng.randrange(len(ex))]
                grp = [r for (r, e, x) in ex if (e, x) == (encoding, errors)]
                a = rng.randrange(len(grp))
                raws = [grp[a], grp[(a + 1) % len(grp)]] if len(grp) > 1 else [grp[0], b"plain"]
                two = [{"name": decode_name(r, encoding, errors), "raw": r} for r in raws]
                if two[0]["name"] == two[1]["name"]:
                    two[1] = {"name": "plain", "raw": None}
            else:
                two = [{"name": x, "raw": None} for x in rng.sample(NAME_POOL + [NAME16], 2)]
            if not canonical and c["a"]:
                if ci % 40 == 7:          # count stress: ~100 members
                    repeat = 34
                elif ci in ((60, 200) if quick else (20, 60, 100, 140, 200, 240)) and j == 1:
                    repeat = 334          # ~1000 members
            names_of = {1: two[0], 2: two[1]}
            conc = Conc(rng, [m["data"] for m in c["a"]], canonical, names=[names_of[m["name"]] for m in c["a"]],
                        repeat=repeat, encoding=encoding, errors=errors)
            exp = conc.index_exp(c["idx"])
            cmode, cfd, cbase = want_combos[(ci * (2 if quick else 6) + j) % len(want_combos)]
            if cmode == "byname":
                mode = "byname"
            else:
                pre = 0 if not cbase else fobj.PREFIXES[cbase][(ci + j) % len(fobj.PREFIXES[cbase])]
                if pre > 70000 and quick:
                    pre = fobj.PREFIXES[cbase][0]
                kind, measured = fobj.pick_kind_for(conc.arch.forms(ctx, pre), cfd)
                mode = "shared:" + kind + ("@%d" % pre if pre else "")
                if (ci + j) % 2:          # ArFile(fileobj=f) first fails at step 1..8 of the index walk, then is repeated
                    mode += "+f%d" % (1 + (ci // 2 + j) % 8)
                if measured is not None and measured != cfd:      # a tiny archive does not shrink
                    ctx.extra["index_replays_descriptor_class_not_concretizable"] = \
                        ctx.extra.get("index_replays_descriptor_class_not_concretizable", 0) + 1
            per_fd["%s/%s/base %s" % (cmode, cfd, ("0", "odd", "even")[cbase])] = per_fd.get("%s/%s/base %s" % (cmode, cfd, ("0", "odd", "even")[cbase]), 0) + 1
            msg = check_index(ctx, conc.arch, mode, exp)
            if nidx % 16 == 3 and repeat == 1:
                members_list_probe(ctx, conc.arch, mode)
            nidx += 1
            big_counts += repeat > 1
            ctx.case_seen(("index", skey(c["a"]), j), True)
            if msg:
                ctx.violation({"kind": "index", "arch": conc.arch.to_json(), "mode": mode, "idx": exp, "model": c,
                               "opening_form": [cmode, cfd, cbase]},
                              "%s mode, %s-style archive (encoding=%r, errors=%r) with %d members %s: %s"
                              % (mode, conc.arch.style, encoding, errors, len(conc.arch.members),
                                 short([(m["name"], len(m["data"])) for m in conc.arch.members], 300), msg))
                break
    ctx.extra["index_cases_with_100_or_1000_members"] = big_counts
    ctx.extra["index_cases"] = len(idx_cases)
    ctx.extra["index_replays"] = nidx
    n_replayed += nidx
    if idx_cases:
        c = idx_cases[len(idx_cases) * 2 // 3]
        ctx.sample("index case: " + json.dumps(c, separators=(",", ":")))

    # 2''. process-level layer: what a by-name archive reads must not depend on what the process
    #      opened under the same path before (ArMemberProc: complete LTS + walks replayed on real files)
    phase("index_replay")
    n_replayed += proc_leg(ctx, quick, rng)
    phase("process_layer")

    # 3a. every transition of the LTS, both opening modes, canonical + random concretizations
    nconc = 2
    nwalk, wlen = (6, 16) if quick else (40, 30)
    nwalks = 0
    npaths2 = 0
    np2 = 0
    nbigk = 0
    ai = 0
    for k, (cells, g) in archives.items():
        if len(ctx.violations) >= 5:
            break
        concs = [Conc(rng, cells, canonical=(j == 0)) for j in range(nconc)]
        paths = paths_without(g, ("iter", "fault") if not ITER_STRICT[0] else ("fault",))   # (a tolerated deviation of
        ai += 1                               # list(member) would leave the model: then only as the last call)
        ncell = sum(len(d) for d in cells)
        bigk = [x for x in BIG_K if x * ncell <= (4 << 20) and (x < 500000 or ncell <= 2)]
        bigconc = Conc(rng, cells, K=bigk[ai % len(bigk)]) if ncell else None
        every = 37 if quick else 11

        def replay_path(path, conc, mode, what, unspecified=()):
            ops = [conc.op(e) if e["op"] != "fault" else conc.fault_op(g, e, e["_n"] + ai)[0] for e in path]
            msg = run_ops(ctx, conc.arch, mode, ops, unspecified)
            if msg:
                ctx.violation({"kind": "ops", "arch": conc.arch.to_json(), "mode": mode, "ops": ops,
                               "model": {"archive": cells, "path": [strip(e) for e in path], "K": conc.K}},
                              "%s on model archive %s (K=%d, %s-style): %s" % (what, json.dumps(cells), conc.K, conc.arch.style, msg))
            return msg

        bad = False
        for idx, e in enumerate(g.edges):
            path = paths[e["_f"]] + [e]
            if e["op"] == "fault":
                # behind a short random history of the same archive (what earlier calls left inside the implementation
                # is not part of the abstract state), and then the caller tries the same call again
                pre = g.walk(rng, g.init, 3, weight=lambda x: 0 if x["op"] in ("fault", "iter", "tell") else 3 if x["op"] != "seek" else 1)
                back = return_path(g, pre[-1]["_t"] if pre else g.init, e["_f"])
                if back is not None:
                    path = pre + back + [e]
                c = conc_call(g, e, e["_n"] + ai)
                again = edge_from(g, e["_t"], c["op"], c["args"])
                if again is not None:
                    path = path + [again]
            for j, conc in enumerate(concs):
                if quick and e["op"] == "fault" and j != idx % 2:
                    continue                  # quick: fault edges alternate between the canonical and the random concretization
                if quick or j > 0:
                    todo = [pick_mode(idx + j, conc.arch, sparse=True)]
                elif e["op"] == "fault":
                    todo = [pick_mode(0, conc.arch, flaky=True)]   # (a by-name archive has no caller-supplied file object)
                else:
                    todo = [pick_mode(0, conc.arch), "byname"]     # thorough: the canonical concretization in both modes
                for mode in todo:
                    n_replayed += 1
                    if replay_path(path, conc, mode, "transition"):
                        bad = True
                        break
                if bad:
                    break
            if not bad and bigconc is not None and idx % every == ai % every:
                n_replayed += 1               # size stress: the same abstract case with K-byte cells
                nbigk += 1
                if replay_path(path, bigconc, pick_mode(idx + ai, bigconc.arch), "transition (size stress)"):
                    bad = True
            ctx.case_seen(("edge", k, e["_f"], e["op"], skey(e["args"])), e["from"] != e["to"] or bool(e["res"]["v"]))
            if bad:
                break
        # 3b. random walks: long interleaved histories
        if cells and not bad:
            for w in range(nwalk):
                conc = concs[w % len(concs)] if w % 3 else (bigconc if w == 3 and bigconc is not None else Conc(rng, cells))
                path = fault_walk(g, rng, wlen, ai, lambda x: (3 if x["from"] != x["to"] or x["op"] == "fault" else 1) if ITER_STRICT[0] or x["op"] != "iter" else 0)
                if w % 2 and path:            # end with list(member) / for line in member
                    its = [x for x in g.out.get(path[-1]["_t"], []) if x["op"] == "iter"]
                    if its:
                        path = path + [rng.choice(its)]
                mode = pick_mode(w, conc.arch)
                n_replayed += 1
                nwalks += 1
                ctx.case_seen(("walk", k, w), True)
                unspec = [(rng.randrange(len(cells)), rng.choice(["read0", "seekneg", "seekwhence3"]))]
                if replay_path(path, conc, mode, "walk", unspec):
                    bad = True
                    break
        # 3c. thorough: all paths of depth 2 from the initial state (canonical concretization)
        if not quick and cells and not bad:
            for path in g.all_paths(2):
                np2 += 1
                if (path[0]["op"] == "iter" and not ITER_STRICT[0]) or np2 % 2:
                    continue
                mode = pick_mode(npaths2 + np2 // 2, concs[0].arch)
                npaths2 += 1
                n_replayed += 1
                if replay_path(path, concs[0], mode, "path"):
                    break
    ctx.extra["size_stress_replays_K"] = nbigk
    ctx.evaluations += npaths2
    ctx.extra["walks"] = nwalks
    ctx.extra["unspecified_calls_executed"] = nwalks
    ctx.extra["all_paths_depth2"] = npaths2
    ctx.extra["behaviours_replayed"] = n_replayed
    ctx.traces += n_replayed
    some = [v for v in archives.values() if len(v[0]) == 2 and v[0][0] and v[0][1]]
    if some:
        cells, g = some[len(some) // 2]
        conc = Conc(rng, cells)
        e = [x for x in g.edges if x["res"]["v"] and x["res"]["v"][0]][:1] or g.edges[:1]
        ctx.sample("lts edge: archive %s %s  -> concrete call %r" % (json.dumps(cells), json.dumps(strip(e[0]), separators=(",", ":")), conc.op(e[0])))

    phase("lts_replay")
    # 4. code -> spec: random histories on larger archives, validated by TLC
    ntr, nops = (300, 25) if quick else (4000, 30)
    jobs = []
    for i in range(ntr):
        if i in (5, 150) or (not quick and i % 400 == 7):
            arch = random_arch(rng, nmembers=rng.choice([99, 100, 101]))      # count stress
        else:
            arch = random_arch(rng, maxlen=64 if i % 10 else 257)
        jobs.append((arch, pick_mode(i, arch, flaky=i % 8 != 0), nops))
    for i in range(60 if quick else 600):      # histories of fault episodes on small members (see fault_leg)
        arch = fault_arch(rng, small=True)
        jobs.append((arch, pick_mode(0, arch, flaky=True), 13, 1.0))
    traces = trace_leg(ctx, jobs, "random", rng)
    if traces:
        t = max(traces[:20], key=lambda t: len(t["mem"]) if len(t["mem"]) < 20 else 0)
        ctx.sample("recorded trace (layout, first 3 events): " + json.dumps(
            {"mem": [{"name": m["name"], "size": len(m["data"])} for m in t["mem"]], "events": t["events"][:3]}, separators=(",", ":")))

    phase("trace_leg")
    # 4'. size stress beyond what TLC can scan (judged against io.BytesIO)
    n_big = big_leg(ctx, rng, 30 if quick else 400, 40 if quick else 60)
    ctx.traces += n_big
    phase("size_stress_leg")
    ctx.traces += fault_leg(ctx, rng, 800 if quick else 4000, 13)
    phase("fault_leg")
    ctx.traces += aligned_leg(ctx, rng, quick)
    phase("aligned_leg")

    # 5. thorough: archives written by ar(1)
    if not quick:
        if os.path.exists(AR_BIN):
            jobs = []
            for i in range(150):
                a = ar_binary_archive(ctx, rng, i)
                jobs.append((a, pick_mode(i, a), 25))
            trace_leg(ctx, jobs, "ar_binary", rng)
            ctx.extra["ar_binary"] = "archives written by %s qcUS" % AR_BIN
        else:
            ctx.extra["ar_binary"] = "skipped: %s not present" % AR_BIN


def edge_from(g, st, op, args):
    for x in g.out.get(st, []):
        if x["op"] == op and x["args"] == args:
            return x
    return None


def return_path(g, st, to):
    """absolute seeks leading from state st to state `to` of the LTS (positions per member)"""
    path = []
    want = g.states[to]
    for m in range(len(want)):
        if g.states[st][m] != want[m]:
            x = edge_from(g, st, "seek", [m + 1, want[m], 0])
            if x is None:
                return None
            path.append(x)
            st = x["_t"]
    return path if st == to else None


def conc_call(g, e, i):
    """the ordinary edge standing for the concrete call Conc.fault_op(g, e, i) makes"""
    m, kind, _ = e["args"]
    cands = [x for x in g.out[e["_f"]] if x["args"][0] == m and x["op"] in (BYTES_OPS if kind == "one" else ("readlines", "iter"))]
    return cands[i % len(cands)]


def fault_walk(g, rng, n, ai, weight):
    """random walk through TLC's LTS; after a fault edge the caller usually tries the very same call again"""
    st = g.init
    path = []
    while len(path) < n:
        outs = g.out.get(st)
        if not outs:
            break
        e = rng.choices(outs, weights=[weight(x) for x in outs])[0]
        path.append(e)
        st = e["_t"]
        if e["op"] == "fault" and rng.random() < 0.7:
            c = conc_call(g, e, e["_n"] + ai)
            again = edge_from(g, st, c["op"], c["args"])
            if again is not None:
                path.append(again)
                st = again["_t"]
    return path


def paths_without(g, op):
    """shortest path from the initial state to every state, not using edges of the actions `op`"""
    from collections import deque
    p = {g.init: []}
    q = deque([g.init])
    while q:
        st = q.popleft()
        for e in g.out.get(st, []):
            if e["op"] not in op and e["_t"] not in p:
                p[e["_t"]] = p[st] + [e]
                q.append(e["_t"])
    return p


def replay(ctx, case):
    ITER_STRICT[0] = iter_policy(ctx) == "fixed"
    if case["kind"] == "proc":
        versions = {(p, v): Arch.from_json(a) for p, v, a in case["versions"]}
        msg, _ = proc_replay(ctx, case["edges"], versions, script=case["script"])
        return msg
    arch = Arch.from_json(case["arch"])
    keep = None
    if case.get("mode") == "byname":
        # re-create the history of the path: the archives stored there before, each opened by name,
        # its members read and left unclosed, then replaced the way it was replaced in the run
        arch.path = os.path.join(ctx.work, "replay.ar")
        keep = []
        kind = "inplace"
        for blob, nxt in arch.history:
            write_file(arch.path, blob, kind)
            kind = nxt
            try:
                from debian.arfile import ArFile
                ms = list(ArFile(filename=arch.path).getmembers())
                keep.append(ms)
                for m in ms:
                    m.read()
            except Exception:
                pass
        write_file(arch.path, arch.blob, kind)
    try:
        if case["kind"] == "ops":
            return run_ops(ctx, arch, case["mode"], case["ops"])
        if case["kind"] == "index":
            return check_index(ctx, arch, case["mode"], case["idx"])
        if case["kind"] == "calls":
            calls = [tuple(c) for c in case["calls"]]
            big = bool(case.get("big"))
            t, omsg, _ = record(ctx, arch, case["mode"], calls, big=big, log=not big)
            if omsg:
                return omsg
            if big:
                return None
            rejected, info = validate(ctx, [t], with_controls=False)
            if rejected:
                return "history still not explained by the specification at event %d" % (info.get(1, 0) + 1)
            return None
        return "unknown case kind"
    finally:
        del keep
