"""C06 -- ar members are exact, isolated, file-like views of the archive.

spec:      spec/ArMemberRef.tla  reference layer: the index of an archive + one independent
                                 (data, pos) file per member with io.BytesIO semantics
           spec/ArMember.tla     implementation layer transcribed from lib/debian/arfile.py
                                 (flat cell sequence, index walk, offset/end/cur per member, shared
                                 or per-member file position); TLC checks Refines + SameResult,
                                 Isolation, IndexExact in a closed state space
           spec/TraceArMember.tla  trace validation against the reference actions
           spec/ArMemberProc.tla process-level layer (files: path -> content, ArFile objects with the
                                 content snapshot of their file object, Open / RewritePath / Read /
                                 Close): a read through an object whose path was not rewritten since
                                 it was built returns that archive's bytes, whatever the process
                                 opened under the same name before; negative control
                                 SharedHandlePerPath = TRUE (one memoised file object per path name)
binding:   (a) spec -> code: the complete reference LTS emitted by TLC (every archive of <= 2
               members x <= 2/3 data cells over {NL, x}, every call, expected cells and positions)
               is replayed on real archives written by the harness, through
               ArFile(fileobj=BytesIO) and ArFile(filename=...): every transition, random walks
               interleaving the members, (thorough) all paths of depth 2; the INDEX cases emitted
               by the index configuration (<= 3 members, duplicate names, sizes 0/odd/even) are
               replayed on getnames/getmembers/getmember;
           (a') the complete LTS of ArMemberProc + walks are replayed on real files: archives opened by
               name and through a real file object on the same path, the path rewritten in place / by
               os.replace while earlier objects are alive, closed or unclosed; reads judged exactly
               where TLC says (object not older than the last rewrite), others executed unjudged.
               All by-name legs moreover RE-USE five path names for all archives of a run (archive k+1
               is written over archive k, alternately in place and by rename) and leave two of three
               by-name sessions unclosed and alive; recorded cases carry the history of their path;
           (b) code -> spec: random histories on archives of <= 5 members with <= 64 data bytes
               (and on archives written by /usr/bin/ar in the thorough tier) are recorded and
               validated by TLC, which recomputes every returned byte and position from the
               logged data layout; corrupted control traces must be rejected.
oracles:   expected values come from TLC (EDGE/INDEX lines, trace validation); a real io.BytesIO
           over each member's data driven by the same calls is the additional reference named
           in DESIGN.md.  If TLC's expectation and io.BytesIO ever disagree the run is a
           machinery failure (the specification would be wrong), not a verdict.
negative controls at specification level (run in every check): ClampReadline = FALSE (readline
           as before commit f810caf) must violate Refines/SameResult; thorough also PadOdd = FALSE
           (IndexExact) and SeekFirst = FALSE (Refines/SameResult/Isolation); SharedHandlePerPath =
           TRUE must violate FreshSeesOwn (every run).
domain (DESIGN D4): read() / read(n) with n >= 1 or n < 0 (read(0) excluded), readline(n) any n,
           readlines() without hint, seek(off, whence) with a non-negative target; the return
           value of seek() is not compared (ArMember.seek returns None like Python 2 files).
"""
import io
import json
import os
import subprocess

import core
from lts import LTS, skey, strip

MANIFEST = dict(
    technique="TLA+ spec (ArMemberRef reference with io.BytesIO semantics + ArMember implementation layer over a flat cell archive) model-checked by TLC; complete reference LTS and index cases replayed on real archives through ArFile(fileobj) and ArFile(filename) with io.BytesIO as second oracle; recorded histories validated by TLC (TraceArMember)",
    text="TLC explores the closed state space of the implementation-level model of arfile.py (archive as one flat cell sequence with headers and pad bytes, index walk, per-member offset/end/cur, one shared or per-member file position) for every archive of up to 2 members with up to 3 data bytes over {newline, other} and checks in every reachable state / on every transition that it refines independent BytesIO-like files (same cells returned, same positions), that no cell outside the member is returned and that the member table is exact, i.e. for interleaved histories of any length over that alphabet. The binding is two-way: every transition of the reference LTS, random interleaved walks and the emitted index cases (duplicate names, empty/odd/even sizes, 0 members) are replayed on real archives in both opening modes with all members' tell() compared after each call, and random histories on larger archives (5 members, 64 bytes, archives written by GNU ar) are validated by TLC against the same actions. A process-level model (ArMemberProc: path contents, ArFile objects, rewrite of a path in place or by rename, close) is model-checked and its complete LTS replayed on real files, and all by-name legs re-use a handful of path names with earlier archives' members left unclosed, so that what an archive opened by name returns cannot silently depend on what the process opened under that name before.",
    note="Small-scope: model archives have <= 2 members x <= 3 cells (index: <= 3 members); concretization of cells to bytes (1-5 bytes per cell, arbitrary non-newline bytes) is sampled. Domain D4: read(0) excluded, non-negative seek targets, readlines() without hint; seek()'s return value is not compared. Trusted: TLC, the harness' ar writer, io.BytesIO. Members of an archive whose file was replaced underneath them are unspecified (executed, not judged). Spec-level negative controls (ClampReadline/PadOdd/SeekFirst = FALSE, SharedHandlePerPath = TRUE) and corrupted control traces are required to fail in every run.",
    design="5 (C06)")

AR_BIN = "/usr/bin/ar"

# ------------------------------------------------------------------ real archives

NAME_POOL = ["debian-binary", "control.tar.gz", "data.tar.xz", "a", "x.y", "_gpgorigin", "control.tar.zst",
             "data.tar", "f", "README", "lib+x-1.0_a", "0", "a.b.c.d.e.f.g.h", "Zz9"]
NAME16 = "sixteen_chars_nm"          # fills the name field completely (BSD style only)
SPECIAL_BYTES = [b"\r", b"\0", b"`", b"!", b"<", b">", b"/", b" ", b"\xff", b"\x7f", b"x", b"0", b"\t",
                 b"\x0b", b"\x0c", b"\x85", b"\x1c", b"a", b"r", b"c", b"h"]
OWNERS = [0, 1000, 999999, 65534, 7]
MTIMES = [0, 1, 1234567890, 999999999999, 1790457577]
MODES = [0o100644, 0o100755, 0o644, 0o40755]


def rand_meta(rng, wide=False):
    if wide:      # canonical: maximal field widths
        return {"owner": 999999, "group": 123456, "mtime": 999999999999, "mode": 0o100644}
    return {"owner": rng.choice(OWNERS + [rng.randrange(10 ** 6)]), "group": rng.choice(OWNERS + [rng.randrange(10 ** 6)]),
            "mtime": rng.choice(MTIMES + [rng.randrange(10 ** 10)]), "mode": rng.choice(MODES)}


def non_nl(rng, n, canonical=False):
    if canonical:
        return b"x" * n
    out = []
    for _ in range(n):
        if rng.random() < 0.6:
            out.append(rng.choice(SPECIAL_BYTES))
        else:
            b = rng.randrange(255)
            out.append(bytes([b if b < 10 else b + 1]))
    return b"".join(out)


def header(m, style):
    name = m["name"].encode("ascii")
    if style == "gnu" and len(name) < 16:
        name += b"/"
    h = b"%-16s%-12d%-6d%-6d%-8o%-10d`\n" % (name, m["mtime"], m["owner"], m["group"], m["mode"], len(m["data"]))
    if len(h) != 60:
        raise core.MachineryError("ar writer: header of %d bytes for %r" % (len(h), m))
    return h


def build_ar(members, style="gnu"):
    out = [b"!<arch>\n"]
    for m in members:
        out.append(header(m, style))
        out.append(m["data"])
        if len(m["data"]) % 2:
            out.append(b"\n")
    return b"".join(out)


def write_file(path, blob, kind):
    """store blob under path: 'inplace' writes over the existing file (same inode), 'replace' writes a
    new file and renames it into place"""
    if kind == "replace":
        with open(path + ".new", "wb") as f:
            f.write(blob)
        os.replace(path + ".new", path)
    else:
        with open(path, "wb") as f:
            f.write(blob)


class PathPool:
    """The by-name legs deliberately REUSE a few path names for all archives of a run: archive k+1 is
    written over the path of archive k (alternately in place and by os.replace of a new file), while
    ArFile objects of earlier archives of that path may still be alive with unclosed members (see
    Session.finish).  What a new ArFile(filename=path) reads must not depend on that history."""

    def __init__(self, ctx, n=5):
        self.paths = [os.path.join(ctx.work, "pool%d.ar" % i) for i in range(n)]
        self.owner = [None] * n
        self.next = 0
        self.writes = 0

    def ensure(self, arch):
        if arch.slot is not None and self.owner[arch.slot] is arch:
            return self.paths[arch.slot]
        i = self.next
        self.next = (i + 1) % len(self.paths)
        prev = self.owner[i]
        kind = "replace" if self.writes % 2 else "inplace"
        self.writes += 1
        write_file(self.paths[i], arch.blob, kind)
        if prev is not None:
            prev.slot = None
            arch.history = (prev.history + [[prev.blob, kind]])[-3:]
        self.owner[i] = arch
        arch.slot = i
        return self.paths[i]


def pool(ctx):
    if not hasattr(ctx, "_c06_pool"):
        ctx._c06_pool = PathPool(ctx)
    return ctx._c06_pool


class Arch:
    """a concrete archive: blob + what was written into it. For by-name mode it is stored under one
    of the re-used pool paths (or under `path` when the caller manages the file itself)."""

    def __init__(self, members, style="gnu", blob=None, path=None):
        self.members = members
        self.style = style
        self.blob = build_ar(members, style) if blob is None else blob
        self.path = path
        self.slot = None
        self.history = []            # [blob, how it was replaced] of the last archives stored under the
                                     # same path before this one (part of a recorded case)

    def file(self, ctx):
        if self.path is not None:
            return self.path
        return pool(ctx).ensure(self)

    def drop(self):
        pass                         # pool paths are re-used on purpose; ctx.work is removed at exit

    def to_json(self):
        j = {"blob": self.blob, "style": self.style, "members": [dict(m) for m in self.members]}
        if self.history:
            j["history"] = [list(h) for h in self.history]
        return j

    @classmethod
    def from_json(cls, j):
        a = cls(j["members"], j["style"], blob=j["blob"])
        a.history = [list(h) for h in j.get("history", [])]
        return a


# ------------------------------------------------------------------ driving the real objects

def do_call(f, op, args):
    """one call on an ArMember or an io.BytesIO; any exception is an observation"""
    try:
        if op == "read":
            v = f.read()
        elif op == "readn":
            v = f.read(args[0])
        elif op == "readline":
            v = f.readline()
        elif op == "readlinen":
            v = f.readline(args[0])
        elif op == "readlines":
            v = f.readlines()
        elif op == "seek":
            f.seek(args[0], args[1])
            v = None                       # return value of seek is not specified (D4)
        elif op == "tell":
            v = f.tell()
        else:
            raise core.MachineryError("unknown op %r" % (op,))
    except core.MachineryError:
        raise
    except Exception as e:                 # observation, not a harness failure
        return {"ret": [], "n": 0, "exc": type(e).__name__}
    if op in ("read", "readn", "readline", "readlinen"):
        if not isinstance(v, bytes):
            return {"ret": [], "n": 0, "exc": "returned-" + type(v).__name__}
        return {"ret": [v], "n": 0, "exc": ""}
    if op == "readlines":
        if not isinstance(v, list) or not all(isinstance(x, bytes) for x in v):
            return {"ret": [], "n": 0, "exc": "returned-" + type(v).__name__}
        return {"ret": list(v), "n": 0, "exc": ""}
    if op == "tell":
        if not isinstance(v, int):
            return {"ret": [], "n": 0, "exc": "returned-" + type(v).__name__}
        return {"ret": [], "n": v, "exc": ""}
    return {"ret": [], "n": 0, "exc": ""}


def safe_tell(f):
    try:
        t = f.tell()
        return t if isinstance(t, int) else "returned-" + type(t).__name__
    except Exception as e:
        return "EXC:" + type(e).__name__


def call_str(m, op, args):
    py = {"read": "read()", "readn": "read(%s)", "readline": "readline()", "readlinen": "readline(%s)",
          "readlines": "readlines()", "seek": "seek(%s, %s)", "tell": "tell()"}[op]
    return "member[%d].%s" % (m, py % tuple(args) if args else py)


class Session:
    """an opened archive + one io.BytesIO per member as the reference library.
    mode: "shared" = ArFile(fileobj=io.BytesIO), "byname" = ArFile(filename=path),
          "fileobj" = ArFile(fileobj=open(path, "rb")) (a real file object on the same path)"""
    count = 0

    def __init__(self, ctx, arch, mode, path=None):
        from debian.arfile import ArFile
        self.error = None
        self.members = []
        self.ar = None
        self.mode = mode
        self.fh = None
        try:
            if mode == "shared":
                self.ar = ArFile(fileobj=io.BytesIO(arch.blob))
            elif mode == "fileobj":
                self.fh = open(path or arch.file(ctx), "rb")
                self.ar = ArFile(fileobj=self.fh)
            else:
                self.ar = ArFile(filename=path or arch.file(ctx))
            self.members = list(self.ar.getmembers())
        except Exception as e:
            self.error = "opening the archive raised %s: %s" % (type(e).__name__, e)
        self.datas = [m["data"] for m in arch.members]
        self.oracles = [io.BytesIO(d) for d in self.datas]
        if self.error is None and len(self.members) != len(self.datas):
            self.error = "archive has %d members, ArFile lists %d" % (len(self.datas), len(self.members))

    def close(self):
        for m in self.members:
            try:
                m.close()
            except Exception:
                pass
        if self.fh is not None:
            self.fh.close()

    def finish(self, ctx):
        """end of a replay: every third by-name session closes its members; the others stay alive
        with UNCLOSED members (the last three are kept referenced) while later archives are written
        over the same path and opened by name again"""
        Session.count += 1
        if self.mode != "byname" or Session.count % 3 == 0:
            self.close()
            return
        if not hasattr(ctx, "_c06_alive"):
            import collections
            ctx._c06_alive = collections.deque(maxlen=3)
        ctx._c06_alive.append(self)

    def step(self, m, op, args, exp=None):
        """call on member m (0-based); exp = TLC's expectation {"ret", "n", "tell"} or None.
        returns (message or None, observation, tell of m)"""
        obs = do_call(self.members[m], op, args)
        ref = do_call(self.oracles[m], op, args)
        if ref["exc"]:
            raise core.MachineryError("io.BytesIO raised %s for %s: generator left the domain" % (ref["exc"], call_str(m, op, args)))
        tells = [safe_tell(x) for x in self.members]
        rtells = [x.tell() for x in self.oracles]
        if exp is not None and (exp["ret"] != ref["ret"] or exp["n"] != ref["n"] or exp["tell"] != rtells[m]):
            raise core.MachineryError("specification and io.BytesIO disagree on %s over %r: TLC %r, BytesIO %r tell %r"
                                      % (call_str(m, op, args), self.datas[m], exp, ref, rtells[m]))
        who = "the specification (TLC) and io.BytesIO say" if exp is not None else "io.BytesIO says"
        msg = None
        if obs["exc"]:
            msg = "%s raised/returned %s; %s %r" % (call_str(m, op, args), obs["exc"], who, ref["ret"] if op != "tell" else ref["n"])
        elif obs["ret"] != ref["ret"]:
            msg = "%s returned %r; %s %r" % (call_str(m, op, args), obs["ret"] if op == "readlines" else obs["ret"][0],
                                             who, ref["ret"] if op == "readlines" else ref["ret"][0])
        elif obs["n"] != ref["n"]:
            msg = "%s returned %r; %s %r" % (call_str(m, op, args), obs["n"], who, ref["n"])
        elif tells != rtells:
            msg = "after %s: tell() of the members is %r; %s %r" % (call_str(m, op, args), tells, who, rtells)
        return msg, obs, tells[m]


def run_ops(ctx, arch, mode, ops, unspecified=()):
    """replay a sequence of calls [{m, op, args, exp?}] on a fresh ArFile; None or a message.
    `unspecified`: calls outside the domain (D4) executed at the very end; any outcome is accepted,
    an exception other than IOError/ValueError is recorded as drift (never a verdict)"""
    s = Session(ctx, arch, mode)
    try:
        if s.error:
            return s.error
        for i, o in enumerate(ops):
            msg, _, _ = s.step(o["m"], o["op"], o["args"], o.get("exp"))
            if msg:
                return "call %d of %d (%s mode, member data %r): %s" % (i + 1, len(ops), mode, s.datas[o["m"]], msg)
        for (m, what) in unspecified:
            f = s.members[m]
            try:
                if what == "read0":
                    f.read(0)
                elif what == "seekneg":
                    f.seek(-1 - len(s.datas[m]), 2)
                elif what == "readlines-hint":
                    f.readlines(1)
            except (IOError, ValueError):
                pass
            except Exception as e:
                ctx.drift("unspecified call %s raised %s" % (what, type(e).__name__))
        return None
    finally:
        s.finish(ctx)


# ------------------------------------------------------------------ concretization of model archives

class Conc:
    """model archive (list of cell lists over {10, 120}) -> real archive. Every cell becomes K bytes:
    an NL cell = K-1 non-newline bytes + b'\\n', an x cell = K non-newline bytes; positions and sizes
    scale by K, so TLC's expected cells map to byte slices."""

    def __init__(self, rng, cells, canonical=False, names=None):
        self.K = 1 if canonical else rng.choice([1, 1, 2, 3, 5])
        K = self.K
        datas = []
        for d in cells:
            datas.append(b"".join((non_nl(rng, K - 1, canonical) + b"\n") if c == 10 else non_nl(rng, K, canonical)
                                  for c in d))
        style = "gnu" if canonical else rng.choice(["gnu", "bsd"])
        if names is None:
            pool = NAME_POOL + ([NAME16] if style == "bsd" else [])
            names = [pool[i] for i in range(len(cells))] if canonical else [rng.choice(pool) for _ in cells]
        members = []
        for i, d in enumerate(datas):
            m = rand_meta(rng, wide=(canonical and i == 0))
            m.update(name=names[i], data=d)
            members.append(m)
        self.arch = Arch(members, style)

    def args(self, op, args):
        K = self.K
        if op in ("readn", "readlinen"):
            return [args[0] * K if args[0] > 0 else args[0]]
        if op == "seek":
            return [args[0] * K, args[1]]
        return list(args)

    def op(self, e):
        """model edge -> concrete call with TLC's expectation"""
        m = e["args"][0] - 1
        d = self.arch.members[m]["data"]
        K = self.K
        ret = [b"".join(d[(i - 1) * K:i * K] for i in chunk) for chunk in e["res"]["v"]]
        return {"m": m, "op": e["op"], "args": self.args(e["op"], e["args"][1:]),
                "exp": {"ret": ret, "n": e["res"]["n"] * K, "tell": e["to"][m] * K}}


# ------------------------------------------------------------------ index

def check_index(ctx, arch, mode, exp, names_of):
    """exp = TLC's index {"members": [{name, size, id}], "last": [...]} of the model archive;
    names_of: model name -> real name. Returns None or a message (verdict observables only)."""
    s = Session(ctx, arch, mode)
    try:
        if s.error and s.ar is None:
            return s.error
        ar = s.ar
        try:
            names = ar.getnames()
            members = list(ar.getmembers())
            exp_names = [names_of[x["name"]] for x in exp["members"]]
            if names != exp_names:
                return "getnames() = %r, the specification lists %r" % (names, exp_names)
            if len(members) != len(exp_names) or [m.name for m in members] != exp_names:
                return "getmembers() names %r, the specification lists %r" % ([m.name for m in members], exp_names)
            if [m.name for m in ar] != exp_names:
                return "iteration order %r differs from %r" % ([m.name for m in ar], exp_names)
            for k, x in enumerate(exp["members"]):
                w = arch.members[x["id"] - 1]
                got = {"size": members[k].size, "owner": members[k].owner, "group": members[k].group, "mtime": members[k].mtime}
                want = {"size": len(w["data"]), "owner": w["owner"], "group": w["group"], "mtime": w["mtime"]}
                if len(w["data"]) % max(1, x["size"]) != 0 or (x["size"] == 0) != (len(w["data"]) == 0):
                    raise core.MachineryError("concretization changed a size class")
                if got != want:
                    return "member %d (%r): %r, recorded header fields %r" % (k, exp_names[k], got, want)
                try:
                    fm = members[k].fmode
                    if int(fm.strip() or b"0", 8) != w["mode"]:
                        ctx.drift("fmode of member %d is %r, written %o" % (k, fm, w["mode"]))
                except Exception as e:
                    ctx.drift("fmode not readable: %r" % (e,))
            for k, x in enumerate(exp["members"]):
                nm = exp_names[k]
                last = members[exp["last"][k] - 1]
                if ar.getmember(nm) is not last or ar[nm] is not last:
                    which = [i for i, m in enumerate(members) if m is ar.getmember(nm)]
                    return "getmember(%r) is member %r, the specification says the last of that name: %d" % (nm, which, exp["last"][k] - 1)
            # exactness of the offsets found by the index walk: whole content of every member
            for k in range(len(members)):
                got = members[k].read()
                if got != s.datas[k]:
                    return "member %d: read() returned %r, its data is %r" % (k, got, s.datas[k])
        except core.MachineryError:
            raise
        except Exception as e:
            return "index access raised %s: %s" % (type(e).__name__, e)
        return None
    finally:
        s.finish(ctx)


# ------------------------------------------------------------------ trace recording (code -> spec)

def random_data(rng, maxlen):
    n = rng.choice([0, 0, 1, 2, 3, rng.randrange(maxlen + 1), rng.randrange(maxlen + 1), maxlen])
    kind = rng.randrange(6)
    if kind == 0 and n >= 8:         # looks like an archive itself
        d = (b"!<arch>\n" + b"%-16s%-12d%-6d%-6d%-8o%-10d`\n" % (b"x/", 0, 0, 0, 0o644, 4) + b"abc\n")[:n]
        return d.ljust(n, b"`")
    dens = [0.0, 0.05, 0.3, 0.6, 1.0][rng.randrange(5)]
    return b"".join(b"\n" if rng.random() < dens else non_nl(rng, 1) for _ in range(n))


def random_arch(rng, maxmem=5, maxlen=64):
    n = rng.choice([0, 1, 1, 2, 2, 3, 4, maxmem])
    style = rng.choice(["gnu", "bsd"])
    pool = NAME_POOL + ([NAME16] if style == "bsd" else [])
    members = []
    for _ in range(n):
        m = rand_meta(rng)
        m.update(name=rng.choice(pool[:4] if rng.random() < 0.3 else pool), data=random_data(rng, maxlen))
        members.append(m)
    return Arch(members, style)


def random_call(rng, datas, tells):
    """one in-domain call (D4) given the current positions of the members"""
    m = rng.randrange(len(datas))
    L = len(datas[m])
    p = tells[m]
    op = rng.choice(["read", "readn", "readn", "readline", "readline", "readlinen", "readlinen", "readlines",
                     "seek", "seek", "seek", "tell"])
    if op == "readn":
        args = [rng.choice([-1, 1, 1, 2, 3, rng.randrange(1, L + 3), L, L + 1, -7] if L else [-1, 1, 2])]
        if args[0] == 0:
            args = [1]
    elif op == "readlinen":
        args = [rng.choice([-1, 0, 1, 2, 3, rng.randrange(0, L + 3), L, L + 1, -3])]
    elif op == "seek":
        wh = rng.randrange(3)
        t = rng.choice([0, rng.randrange(L + 1), rng.randrange(L + 1), L, L + 1, L + 5])
        args = [t - (0 if wh == 0 else p if wh == 1 else L), wh]
    else:
        args = []
    return (m, op, args)


def random_calls(rng, datas, n):
    """in-domain calls (D4); relative seeks need the current position: tracked with io.BytesIO"""
    ref = [io.BytesIO(d) for d in datas]
    calls = []
    if not datas:
        return calls
    for _ in range(n):
        m, op, args = random_call(rng, datas, [r.tell() for r in ref])
        do_call(ref[m], op, args)
        calls.append((m, op, args))
    return calls


def meta_strs(m):
    return [str(m["owner"]), str(m["group"]), str(m["mtime"])]


def record(ctx, arch, mode, calls):
    """execute the calls on the real classes and log one event per call"""
    spec_mem = [{"name": m["name"], "data": list(m["data"]), "meta": meta_strs(m)} for m in arch.members]
    s = Session(ctx, arch, mode)
    events = []
    try:
        ev = {"op": "open", "members": [], "last": [], "exc": ""}
        if s.ar is None:
            ev["exc"] = s.error
        else:
            try:
                members = list(s.ar.getmembers())
                names = s.ar.getnames()
                for k, m in enumerate(members):
                    ev["members"].append({"name": names[k] if m.name == names[k] else "%r/%r" % (m.name, names[k]),
                                          "size": m.size, "meta": [str(m.owner), str(m.group), str(m.mtime)]})
                    got = s.ar.getmember(m.name)
                    ev["last"].append(([i + 1 for i, x in enumerate(members) if x is got] or [0])[0])
            except Exception as e:
                ev["exc"] = type(e).__name__
        events.append(ev)
        oracle_msg = None
        if not s.error:
            for (m, op, args) in calls:
                msg, obs, t = s.step(m, op, args)
                if msg and oracle_msg is None:
                    oracle_msg = "call %d: %s" % (len(events), msg)
                events.append({"op": op, "m": m + 1, "args": list(args), "ret": [list(c) for c in obs["ret"]],
                               "n": obs["n"], "tell": t if isinstance(t, int) else -1,
                               "exc": obs["exc"] or ("" if isinstance(t, int) else str(t))})
    finally:
        s.finish(ctx)
    return {"mem": spec_mem, "events": events}, oracle_msg


def corrupt(t, how):
    """negative controls: a history the specification must NOT accept (None if not applicable)"""
    import copy
    t = copy.deepcopy(t)
    ev = t["events"]
    if how == "last":
        if ev[0]["last"]:
            ev[0]["last"][0] = 0
            return t
    elif how == "size":
        if ev[0]["members"]:
            ev[0]["members"][-1]["size"] += 1
            return t
    elif how == "byte":
        for e in ev[1:]:
            for c in e["ret"]:
                if c:
                    c[-1] = c[-1] ^ 1 if (c[-1] ^ 1) != 10 and c[-1] != 10 else c[-1] ^ 2
                    return t
    elif how == "tell":
        for e in ev[1:]:
            e["tell"] += 1
            return t
    elif how == "dropread":
        # remove a read that returned something when the same member is used again before any
        # absolute seek: every later result/position of that member is then off by its length
        for i in range(1, len(ev)):
            e = ev[i]
            if e["op"] in ("read", "readn", "readline", "readlinen", "readlines") and any(e["ret"]):
                for f in ev[i + 1:]:
                    if f["m"] == e["m"]:
                        if f["op"] == "seek" and f["args"][1] != 1:
                            break
                        del ev[i]
                        return t
    return None


CONTROL_KINDS = ("last", "size", "byte", "tell", "dropread")


def validate(ctx, traces, with_controls=True):
    controls = []
    if with_controls:
        for how in CONTROL_KINDS:
            for t in traces:
                c = corrupt(t, how)
                if c:
                    controls.append(c)
                    break
        if len(controls) < 3:
            raise core.MachineryError("could not derive corrupted control traces")
    acc, _, _ = core.validate_traces(ctx, "TraceArMember", "TraceArMember.cfg", traces,
                                     extra_env={"TRACE_DIAG": "0"}, controls=controls)
    rejected = [i for i in range(1, len(traces) + 1) if i not in acc]
    info = {}
    if rejected:
        sub = [traces[i - 1] for i in rejected[:20]]
        _, prog, _ = core.validate_traces(ctx, "TraceArMember", "TraceArMember.cfg", sub,
                                          extra_env={"TRACE_DIAG": "1"})
        for j, i in enumerate(rejected[:20]):
            info[i] = prog.get(j + 1, 0)
    return rejected, info


def trace_leg(ctx, jobs, label):
    """jobs: [(arch, mode, calls)]; record, cross-check with io.BytesIO, let TLC validate"""
    traces = []
    for arch, mode, calls in jobs:
        t, omsg = record(ctx, arch, mode, calls)
        traces.append(t)
        if omsg and len(ctx.violations) < 5:
            ctx.violation({"kind": "calls", "arch": arch.to_json(), "mode": mode, "calls": [list(c) for c in calls]},
                          "%s archive, %s mode: %s" % (label, mode, omsg))
    if not traces:
        return
    rejected, info = validate(ctx, traces)
    ctx.traces += len(traces)
    ctx.evaluations += sum(len(t["events"]) for t in traces)
    for i in range(len(traces)):
        ctx.distinct.add((label, i))
    for i in rejected[:5]:
        arch, mode, calls = jobs[i - 1]
        t = traces[i - 1]
        at = info.get(i, 0)
        ev = t["events"][at] if at < len(t["events"]) else None
        what = ("ArFile listing %r" % (ev,)) if at == 0 else "%s -> %r" % (call_str(ev["m"] - 1, ev["op"], ev["args"]), ev)
        ctx.violation({"kind": "calls", "arch": arch.to_json(), "mode": mode, "calls": [list(c) for c in calls],
                       "first_unexplained_event": at + 1},
                      "%s archive, %s mode: recorded history not explained by ArMemberRef at event %d (%s); member data %r"
                      % (label, mode, at + 1, what, [m["data"] for m in arch.members]))
    ctx.extra["traces_recorded_" + label] = len(traces)
    ctx.extra["traces_rejected_" + label] = len(rejected)
    return traces


# ------------------------------------------------------------------ archives written by ar(1)

def ar_binary_archive(ctx, rng, idx):
    """members written by GNU ar (q = append, so duplicate names are possible; U = real uid/gid/mtime;
    S = no symbol table: binutils otherwise prepends a special "/" member as soon as a BFD plugin takes
    some random member data for an object file, and special members are outside "short member names");
    the expected header fields come from os.stat of the input files"""
    base = os.path.join(ctx.work, "arbin%04d" % idx)
    n = rng.choice([0, 1, 2, 3, 5])
    members, files = [], []
    pool = [x for x in NAME_POOL if len(x) <= 15]
    for i in range(n):
        d = os.path.join(base, "d%d" % i)
        os.makedirs(d)
        name = rng.choice(pool[:3] if rng.random() < 0.4 else pool)
        data = random_data(rng, 64)
        p = os.path.join(d, name)
        with open(p, "wb") as f:
            f.write(data)
        mode = rng.choice([0o644, 0o755, 0o600])
        os.chmod(p, mode)
        mt = rng.choice([0, 1, 1234567890, rng.randrange(2 ** 31)])
        os.utime(p, (mt, mt))
        st = os.stat(p)
        members.append({"name": name, "data": data, "owner": st.st_uid, "group": st.st_gid, "mtime": int(st.st_mtime),
                        "mode": st.st_mode})
        files.append(p)
    os.makedirs(base, exist_ok=True)
    path = os.path.join(base, "t.ar")
    if files:
        p = subprocess.run([AR_BIN, "qcUS", path] + files, capture_output=True, text=True)
    else:
        p = subprocess.run([AR_BIN, "qcUS", path], capture_output=True, text=True)
    if p.returncode != 0 or not os.path.exists(path):
        raise core.MachineryError("ar failed: %s" % p.stderr)
    with open(path, "rb") as f:
        blob = f.read()
    return Arch(members, "gnu", blob=blob)      # by-name mode stores the blob under a re-used pool path


# ------------------------------------------------------------------ process-level layer (ArMemberProc)

PROC_ALPHABETS = {1: [b"abc", b"XYZ", b"159"], 2: [b"def", b"UVW", b"260"]}


def proc_versions(rng, paths, maxversion):
    """(path, version) -> archive; successive archives of a path use disjoint byte alphabets (a stale
    read can never look right) and, half of the time, the same layout (a stale read stays in bounds)"""
    out = {}
    for p in paths:
        sizes = [rng.randrange(1, 24) for _ in range(rng.randrange(1, 4))]
        for v in range(1, maxversion + 1):
            if rng.random() < 0.5:
                sizes = [rng.randrange(1, 24) for _ in range(rng.randrange(1, 4))]
            alpha = PROC_ALPHABETS[p][(v - 1) % 3]
            members = []
            for i, n in enumerate(sizes):
                m = rand_meta(rng)
                data = bytes(10 if rng.random() < 0.2 else alpha[rng.randrange(len(alpha))] for _ in range(n))
                m.update(name=NAME_POOL[i], data=data)
                members.append(m)
            out[(p, v)] = Arch(members, rng.choice(["gnu", "bsd"]))
    return out


def proc_replay(ctx, edges, versions, script=None, rng=None):
    """replay one behaviour of ArMemberProc on real files. edges: EDGE records of TLC (op, args, res);
    versions: (path, version) -> Arch. A judged read (TLC: res.judged, expected content res.content)
    runs calls that are compared with io.BytesIO over the data of THAT content; reads through objects
    older than the last rewrite of their path are executed but not judged. `script` = the concrete calls
    of every read step (recorded on the first run, re-used by --replay). Returns (message, script)."""
    record_script = script is None
    script = [] if record_script else [list(x) for x in script]
    si = 0
    paths = sorted({p for (p, _) in versions})
    fname = {p: os.path.join(ctx.work, "proc%d.ar" % p) for p in paths}
    cur = {}
    for p in paths:
        write_file(fname[p], versions[(p, 1)].blob, "inplace" if os.path.exists(fname[p]) and p % 2 else "replace")
        cur[p] = 1
    objs = []
    try:
        for k, e in enumerate(edges):
            op, a = e["op"], e["args"]
            if op == "open":
                p, byname = a
                s = Session(ctx, versions[(p, cur[p])], "byname" if byname else "fileobj", path=fname[p])
                s.born = (p, cur[p])
                objs.append(s)
                if s.error:
                    return "step %d open(%s): %s" % (k + 1, "by name" if byname else "by file object", s.error), script
            elif op == "rewrite":
                p, kind = a
                cur[p] += 1
                write_file(fname[p], versions[(p, cur[p])].blob, kind)
            elif op == "close":
                objs[a[0] - 1].close()
            elif op == "read":
                s = objs[a[0] - 1]
                judged = e["res"]["judged"]
                if judged and (s.born[1] != e["res"]["content"] or cur[s.born[0]] != s.born[1]):
                    raise core.MachineryError("process-level replay out of step with the model at step %d" % (k + 1))
                calls = None if record_script else script[si]
                si += 1
                done = []
                if record_script:
                    script.append(done)
                    m0 = rng.randrange(len(s.datas))
                for ci in range(4 if record_script else len(calls)):
                    if not record_script:
                        c = calls[ci]
                    elif ci == 0:
                        c = (m0, "seek", [0, 0])
                    elif ci == 1:
                        c = (m0, rng.choice(["read", "readline", "readlines"]), [])
                    else:        # generated against the live reference positions
                        c = random_call(rng, s.datas, [o.tell() if judged else 0 for o in s.oracles])
                    m, cop, cargs = c
                    done.append([m, cop, list(cargs)])
                    if not judged:
                        do_call(s.members[m], cop, cargs)          # unspecified: executed, not judged
                        continue
                    msg, _, _ = s.step(m, cop, cargs)
                    if msg:
                        hist = " ".join("%s%s" % (x["op"], tuple(x["args"])) for x in edges[:k + 1])
                        return ("process history [%s]: the object was built from archive #%d of its path and the path "
                                "still holds it, but %s" % (hist, s.born[1], msg)), script
        return None, script
    finally:
        # every behaviour starts from a clean process state (members closed), so that a recorded case
        # reproduces on its own; leftovers across archives are the business of the other legs
        for s in objs:
            s.close()


def proc_leg(ctx, quick, rng):
    cfg = "MC_ArMemberProc_lts_quick.cfg" if quick else "MC_ArMemberProc_lts.cfg"
    r = ctx.tlc_must_hold("ArMemberProc", cfg, workers=1, want_tags={"EDGE"})
    text = open(os.path.join(core.SPEC, "MC_ArMemberProc_lts_quick.cfg")).read()
    if "SharedHandlePerPath = FALSE" not in text:
        raise core.MachineryError("constant SharedHandlePerPath not found")
    nc = ctx.tlc("ArMemberProc", text.replace("SharedHandlePerPath = FALSE", "SharedHandlePerPath = TRUE")
                 .replace("Emit = TRUE", "Emit = FALSE").replace("INVARIANT SnapNotOlder\n", ""), count=False, workers=1)
    if nc.violated != "FreshSeesOwn":
        raise core.MachineryError("spec-level negative control SharedHandlePerPath = TRUE: expected FreshSeesOwn violated, TLC says %r" % (nc.violated,))
    ctx.extra.setdefault("spec_negative_controls", {})["SharedHandlePerPath=TRUE"] = nc.violated
    edges = r.printed.get("EDGE", [])
    edges.sort(key=lambda e: (skey(e["from"]), e["op"], skey(e["args"])))
    if not edges:
        raise core.MachineryError("no EDGE lines from ArMemberProc")
    init = {"files": edges[0]["from"]["files"], "objs": []}
    npaths = len(init["files"])
    init["files"] = [1] * npaths
    g = LTS(edges, init)
    paths = g.paths()
    maxv = max(max(e["to"]["files"]) for e in g.edges)
    per_op = {}
    n = 0
    versions = None
    todo = [(paths[e["_f"]] + [e], "transition") for e in g.edges]
    nw = 60 if quick else 1500
    for w in range(nw):
        todo.append((g.walk(rng, g.init, 12, weight=lambda x: 1 if x["op"] == "open" else 2), "walk"))
    for pi, (path, what) in enumerate(todo):
        if len(ctx.violations) >= 5:
            break
        if versions is None or pi % 25 == 0:
            versions = proc_versions(rng, range(1, npaths + 1), maxv)
        msg, script = proc_replay(ctx, path, versions, rng=rng)
        n += 1
        for e in path[-1:]:
            per_op[e["op"]] = per_op.get(e["op"], 0) + 1
        ctx.case_seen(("proc", what, pi), True)
        if msg:
            ctx.violation({"kind": "proc", "edges": [strip(e) for e in path], "script": script,
                           "versions": [[p, v, a.to_json()] for (p, v), a in sorted(versions.items())]},
                          "%s of the process-level model: %s" % (what, msg))
    ctx.extra["process_layer"] = {"states": len(g.states), "edges": len(g.edges), "behaviours_replayed": n,
                                  "last_action": per_op, "paths": npaths, "max_version": maxv}
    rd = [e for e in g.edges if e["op"] == "read" and e["res"]["judged"] and len(e["from"]["objs"]) > 1]
    if rd:
        ctx.sample("process-level edge: " + json.dumps(strip(rd[len(rd) // 2]), separators=(",", ":")))
    return n


# ------------------------------------------------------------------ the check

def lts_per_archive(edges):
    """EDGE lines -> {archive key: (cells, LTS)}; the member index goes into args"""
    groups = {}
    for e in edges:
        k = skey(e["a"])
        g = groups.setdefault(k, (e["a"], []))
        g[1].append({"from": e["f"], "to": e["t"], "op": e["op"], "args": [e["m"]] + e["args"], "res": e["res"]})
    out = {}
    for k in sorted(groups):
        cells, es = groups[k]
        es.sort(key=lambda x: (skey(x["from"]), x["op"], skey(x["args"])))
        out[k] = (cells, LTS(es, [0] * len(cells)))
    return out


def negative_control(ctx, base_cfg, const, expect):
    cfg = open(os.path.join(core.SPEC, base_cfg)).read()
    if ("%s = TRUE" % const) not in cfg:
        raise core.MachineryError("constant %s not found in %s" % (const, base_cfg))
    r = ctx.tlc("ArMember", cfg.replace("%s = TRUE" % const, "%s = FALSE" % const), count=False, workers=4)
    if r.violated not in expect:
        raise core.MachineryError("spec-level negative control %s = FALSE: expected one of %r violated, TLC says %r"
                                  % (const, expect, r.violated))
    ctx.extra.setdefault("spec_negative_controls", {})[const + "=FALSE"] = r.violated


def run(ctx):
    quick = ctx.tier == "quick"
    rng = ctx.rng
    ctx.assumptions += [
        "model archives: <= 2 members x <= %d data cells over {newline, other}, index cases <= 3 members x sizes 0/1/2 x 2 names; closed state space: histories of any length over this alphabet" % (2 if quick else 3),
        "domain D4: read()/read(n>=1 or n<0), readline(any n), readlines() without hint, seek to non-negative targets (whence 0/1/2); read(0) excluded; the return value of seek() is not compared",
        "each model cell is concretized to 1-5 bytes (sampled, seeded); member names are ASCII and fit the 16-byte header field",
        "trusted: TLC, the harness' ar writer, io.BytesIO (second oracle), os.stat for archives written by ar(1)",
        "process level: members of an ArFile whose path was rewritten after the object was built are unspecified (executed, not judged); every object built after the last rewrite is judged, whatever was opened or left unclosed before",
    ]
    # 1. design level: the implementation-layer model refines the reference (any history), index exact
    #    (quick: shared file object at 2 data cells + by-name mode at 1 data cell; thorough: both at 3).
    #    These runs do not feed the replay, so they proceed in a background thread while the LTSs are
    #    emitted and replayed; a failure is re-raised when the thread is joined at the end of run().
    design = {}

    def design_runs():
        try:
            r = ctx.tlc_must_hold("ArMember", "MC_ArMember_quick.cfg" if quick else "MC_ArMember.cfg", workers=8)
            design["states"] = r.distinct
            if quick:
                design["states"] += ctx.tlc_must_hold("ArMember", "MC_ArMember_quick_byname.cfg", workers=4).distinct
            negative_control(ctx, "MC_ArMember_quick.cfg", "ClampReadline", ("Refines", "SameResult"))
            if not quick:
                negative_control(ctx, "MC_ArMember_quick.cfg", "PadOdd", ("IndexExact",))
                negative_control(ctx, "MC_ArMember_quick.cfg", "SeekFirst", ("Refines", "SameResult", "Isolation"))
                ctx.tlc_must_hold("ArMemberProc", "MC_ArMemberProc.cfg", workers=4)
        except BaseException as e:      # re-raised by join_design()
            design["error"] = e

    import threading
    th = threading.Thread(target=design_runs)
    th.start()

    def join_design():
        th.join()
        if "error" in design:
            raise design["error"]
        ctx.extra["lts"]["impl_layer_states"] = design["states"]

    try:
        run_binding(ctx, quick, rng)
    except BaseException:
        th.join()
        raise
    join_design()


def run_binding(ctx, quick, rng):
    # 2. index cases (and IndexExact for <= 3 members with duplicate names)
    r_idx = ctx.tlc_must_hold("ArMember", "MC_ArMember_index.cfg", workers=1, want_tags={"INDEX"})
    # 3. reference LTS, complete
    r_lts = ctx.tlc_must_hold("ArMemberRef", "MC_ArMemberRef_lts_quick.cfg" if quick else "MC_ArMemberRef_lts.cfg",
                              workers=1 if quick else 4, want_tags={"EDGE"})
    archives = lts_per_archive(r_lts.printed.get("EDGE", []))
    nedges = sum(len(g.edges) for _, g in archives.values())
    ops_count = {}
    for _, g in archives.values():
        for e in g.edges:
            ops_count[e["op"]] = ops_count.get(e["op"], 0) + 1
    ctx.extra["lts"] = {"archives": len(archives), "states": sum(len(g.states) for _, g in archives.values()),
                        "edges": nedges, "index_walk_states": r_idx.distinct}
    ctx.extra["edges_per_action"] = ops_count
    ctx.extra["model_constants"] = {"Bytes": [10, 120], "MaxMembers": 2, "MaxData": 2 if quick else 3,
                                    "RdSizes": [-1, 1, 2] + ([] if quick else [4]),
                                    "RlSizes": [-1, 0, 1, 2] + ([] if quick else [4]),
                                    "SeekMax": 3 if quick else 4, "index": {"MaxMembers": 3, "Names": 2, "sizes": [0, 1, 2]},
                                    "impl_layer": ("shared mode: MaxData 2; by-name mode: MaxData 1, SeekMax 2" if quick
                                                   else "both modes: MaxData 3, SeekMax 4")}
    missing = [o for o in ("read", "readn", "readline", "readlinen", "readlines", "seek", "tell") if not ops_count.get(o)]
    if not nedges or missing:
        raise core.MachineryError("reference LTS incomplete: %d EDGE lines, actions never taken: %r" % (nedges, missing))

    modes = ["shared", "byname"]
    n_replayed = 0

    # 2'. replay the index cases
    seen = set()
    idx_cases = []
    for c in r_idx.printed.get("INDEX", []):
        k = skey(c["a"])
        if k not in seen:
            seen.add(k)
            idx_cases.append(c)
    idx_cases.sort(key=lambda c: skey(c["a"]))
    nidx = 0
    for ci, c in enumerate(idx_cases):
        if len(ctx.violations) >= 5:
            break
        for j in range(2 if quick else 6):
            canonical = j == 0
            two = [NAME_POOL[0], NAME_POOL[1]] if canonical else rng.sample(NAME_POOL + [NAME16], 2)
            names_of = {1: two[0], 2: two[1]}
            conc = Conc(rng, [m["data"] for m in c["a"]], canonical, names=[names_of[m["name"]] for m in c["a"]])
            if NAME16 in two and conc.arch.style != "bsd":
                conc.arch = Arch(conc.arch.members, "bsd")
            mode = modes[(ci + j) % 2]
            msg = check_index(ctx, conc.arch, mode, c["idx"], names_of)
            conc.arch.drop()
            nidx += 1
            ctx.case_seen(("index", skey(c["a"]), j), True)
            if msg:
                ctx.violation({"kind": "index", "arch": conc.arch.to_json(), "mode": mode, "idx": c["idx"],
                               "names_of": {str(a): b for a, b in names_of.items()}},
                              "%s mode, %s-style archive with members %r: %s"
                              % (mode, conc.arch.style, [(m["name"], len(m["data"])) for m in conc.arch.members], msg))
                break
    ctx.extra["index_cases"] = len(idx_cases)
    ctx.extra["index_replays"] = nidx
    n_replayed += nidx
    if idx_cases:
        c = idx_cases[len(idx_cases) * 2 // 3]
        ctx.sample("index case: " + json.dumps(c, separators=(",", ":")))

    # 2''. process-level layer: what a by-name archive reads must not depend on what the process
    #      opened under the same path before (ArMemberProc: complete LTS + walks replayed on real files)
    n_replayed += proc_leg(ctx, quick, rng)

    # 3a. every transition of the LTS, both opening modes, canonical + random concretizations
    nconc = 2 if quick else 3
    nwalk, wlen = (6, 16) if quick else (40, 30)
    nwalks = 0
    npaths2 = 0
    for k, (cells, g) in archives.items():
        if len(ctx.violations) >= 5:
            break
        concs = [Conc(rng, cells, canonical=(j == 0)) for j in range(nconc)]
        paths = g.paths()

        def replay_path(path, conc, mode, what, unspecified=()):
            ops = [conc.op(e) for e in path]
            msg = run_ops(ctx, conc.arch, mode, ops, unspecified)
            if msg:
                ctx.violation({"kind": "ops", "arch": conc.arch.to_json(), "mode": mode, "ops": ops,
                               "model": {"archive": cells, "path": [strip(e) for e in path], "K": conc.K}},
                              "%s on model archive %s (K=%d, %s-style): %s" % (what, json.dumps(cells), conc.K, conc.arch.style, msg))
            return msg

        bad = False
        for idx, e in enumerate(g.edges):
            path = paths[e["_f"]] + [e]
            for j, conc in enumerate(concs):
                if quick or j > 0:
                    todo = [modes[(idx + j) % 2]]
                else:
                    todo = modes          # thorough: the canonical concretization in both modes
                for mode in todo:
                    n_replayed += 1
                    if replay_path(path, conc, mode, "transition"):
                        bad = True
                        break
                if bad:
                    break
            ctx.case_seen(("edge", k, e["_f"], e["op"], skey(e["args"])), e["from"] != e["to"] or bool(e["res"]["v"]))
            if bad:
                break
        # 3b. random walks: long interleaved histories
        if cells and not bad:
            for w in range(nwalk):
                conc = concs[w % len(concs)] if w % 3 else Conc(rng, cells)
                path = g.walk(rng, g.init, wlen, weight=lambda x: 3 if x["from"] != x["to"] else 1)
                mode = modes[w % 2]
                n_replayed += 1
                nwalks += 1
                ctx.case_seen(("walk", k, w), True)
                unspec = [(rng.randrange(len(cells)), rng.choice(["read0", "seekneg", "readlines-hint"]))]
                if replay_path(path, conc, mode, "walk", unspec):
                    bad = True
                    break
                if conc not in concs:
                    conc.arch.drop()
        # 3c. thorough: all paths of depth 2 from the initial state (canonical concretization)
        if not quick and cells and not bad:
            for path in g.all_paths(2):
                mode = modes[npaths2 % 2]
                npaths2 += 1
                n_replayed += 1
                if replay_path(path, concs[0], mode, "path"):
                    break
        for c in concs:
            c.arch.drop()
    ctx.evaluations += npaths2
    ctx.extra["walks"] = nwalks
    ctx.extra["unspecified_calls_executed"] = nwalks
    ctx.extra["all_paths_depth2"] = npaths2
    ctx.extra["behaviours_replayed"] = n_replayed
    ctx.traces += n_replayed
    some = [v for v in archives.values() if len(v[0]) == 2 and v[0][0] and v[0][1]]
    if some:
        cells, g = some[len(some) // 2]
        conc = Conc(rng, cells)
        e = [x for x in g.edges if x["res"]["v"] and x["res"]["v"][0]][:1] or g.edges[:1]
        ctx.sample("lts edge: archive %s %s  -> concrete call %r" % (json.dumps(cells), json.dumps(strip(e[0]), separators=(",", ":")), conc.op(e[0])))

    # 4. code -> spec: random histories on larger archives, validated by TLC
    ntr, nops = (300, 25) if quick else (4000, 30)
    jobs = []
    for i in range(ntr):
        arch = random_arch(rng)
        jobs.append((arch, modes[i % 2], random_calls(rng, [m["data"] for m in arch.members], nops)))
    traces = trace_leg(ctx, jobs, "random")
    for arch, _, _ in jobs:
        arch.drop()
    if traces:
        t = max(traces[:20], key=lambda t: len(t["mem"]))
        ctx.sample("recorded trace (layout, first 3 events): " + json.dumps(
            {"mem": [{"name": m["name"], "size": len(m["data"])} for m in t["mem"]], "events": t["events"][:3]}, separators=(",", ":")))

    # 5. thorough: archives written by ar(1)
    if not quick:
        if os.path.exists(AR_BIN):
            jobs = []
            for i in range(150):
                arch = ar_binary_archive(ctx, rng, i)
                calls = random_calls(rng, [m["data"] for m in arch.members], 25)
                jobs.append((arch, modes[i % 2], calls))
            trace_leg(ctx, jobs, "ar_binary")
            ctx.extra["ar_binary"] = "archives written by %s qcUS" % AR_BIN
        else:
            ctx.extra["ar_binary"] = "skipped: %s not present" % AR_BIN


def replay(ctx, case):
    if case["kind"] == "proc":
        versions = {(p, v): Arch.from_json(a) for p, v, a in case["versions"]}
        msg, _ = proc_replay(ctx, case["edges"], versions, script=case["script"])
        return msg
    arch = Arch.from_json(case["arch"])
    keep = None
    if case.get("mode") == "byname":
        # re-create the history of the path: the archives stored there before, each opened by name,
        # its members read and left unclosed, then replaced the way it was replaced in the run
        arch.path = os.path.join(ctx.work, "replay.ar")
        keep = []
        kind = "inplace"
        for blob, nxt in arch.history:
            write_file(arch.path, blob, kind)
            kind = nxt
            try:
                from debian.arfile import ArFile
                ms = list(ArFile(filename=arch.path).getmembers())
                keep.append(ms)
                for m in ms:
                    m.read()
            except Exception:
                pass
        write_file(arch.path, arch.blob, kind)
    try:
        if case["kind"] == "ops":
            return run_ops(ctx, arch, case["mode"], case["ops"])
        if case["kind"] == "index":
            return check_index(ctx, arch, case["mode"], case["idx"], {int(a): b for a, b in case["names_of"].items()})
        if case["kind"] == "calls":
            calls = [(c[0], c[1], c[2]) for c in case["calls"]]
            t, omsg = record(ctx, arch, case["mode"], calls)
            if omsg:
                return omsg
            rejected, info = validate(ctx, [t], with_controls=False)
            if rejected:
                return "history still not explained by the specification at event %d" % (info.get(1, 0) + 1)
            return None
        return "unknown case kind"
    finally:
        del keep
