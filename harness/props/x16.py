"""X16 (extra) -- the reading / writing OPTIONS and the mapping helpers of debian.deb822 that the property checks
treat as fixed (C02 rotates through them with one expectation, C08 / C09 / X03 do not look at them).

STATEMENT
  R. Reading.  The paragraphs of a document are its maximal blocks of non-blank lines; a white-space-only line is a
     blank line exactly when strict['whitespace-separates-paragraphs'] is true (default True; False for
     Packages.iter_paragraphs / Sources.iter_paragraphs when strict is None or empty); with False such a line of two or
     more characters is a continuation line and one of a single character is ignored.  iter_paragraphs(seq, fields=F)
     yields, in order, every paragraph that has a field named in F, restricted to those fields: order and spelling of
     the INPUT are kept, names are compared case-insensitively, names of F that do not occur and the order of F are
     irrelevant, a dropped field leaves with its continuation lines -- it is the restriction of what fields=None
     yields; Deb822(seq, fields=F) is the restriction of the FIRST paragraph (empty when there is none); use_apt_pkg /
     shared_storage never change a result.  split_gpg_and_payload(lines) returns (gpg_pre_lines, lines,
     gpg_post_lines) as lists of bytes without line ends: ([], first block, []) for unsigned input, (BEGIN line +
     armor headers, payload, signature block from its BEGIN to its END line) for a clearsigned paragraph, EOFError
     without any non-blank line; gpg_stripped_paragraph is the middle part; parsing the signed form gives the
     paragraph of the payload.
  W. Writing.  All renderings of a paragraph are ONE text T: per field in order `Name:` + (a blank unless the value is
     empty or starts with a newline) + value + newline.  dump() / dump(None, any encoding, any text_mode) / str()
     return T; dump(fd, text_mode=True) writes T as str, dump(fd[, encoding]) writes T encoded with the argument or,
     when None, with the encoding the object was created with; both return None, append to fd and leave it open;
     bytes() is T in the object's encoding; UnicodeEncodeError when the encoding cannot represent T;
     get_as_string(k) = str(self[k]).
  M. Helpers.  get / setdefault / pop / in / keys / values / items / len are those of an ordered, case-insensitive,
     case-preserving mapping: get changes nothing and returns the default OBJECT for an absent key; setdefault
     returns the stored value or appends the (validated) default under the caller's spelling and returns it, a
     refused default changes nothing; p == q iff both have the same fields with equal values whatever the order, !=
     is its negation, a comparison with something that is not a mapping is False / True and never raises; a query
     never changes any live object, a mutator only the addressed field of its own object.
  A. Accessors.  Changes.get_pool_path() = pool/<component>/<prefix>/<source>: component = the part before '/' of the
     section of the FIRST Files entry ('main' without '/'), prefix = the first four characters of a source name
     starting with 'lib', else its first; get_version() = Version(self['Version']); set_version(v) stores str(v)
     under Version in place; Packages.source / source_version come from `Source: name (version)` and fall back on
     Package / Version.
  Unspecified (executed, any outcome accepted, divergences recorded as drift): == between paragraphs that spell a
  common field differently; documents outside the reading domain (continuation lines without field, blocks without
  field, duplicate fields, stray PGP lines, several paragraphs in one signature, comments in front of a blank line
  for the gpg-aware classes -- C02's zone); lines with trailing white space handed to split_gpg_and_payload; a strict
  dictionary without the known key given to Packages / Sources; sections with two '/', a source named 'lib';
  fields= together with a mapping; dump(fd) when fd cannot take what text_mode says; payload characters that
  str.splitlines() treats as line boundaries (D1 / C08 domain), white space at the ends of data.

spec:     spec/Deb822Opts.tla        pure operators: the reader as left folds (SStep = split_gpg_and_payload, AStep =
                                     _internal_parser, IStep = iter_paragraphs), EffWs (defaults of the strictness flag),
                                     OCall (one branch per public call on live objects), DumpT, EqOutcome, PoolPath, PkgSource
          spec/Deb822OptsDocs.tla    every document of <= 3 (thorough 4) lines over 10 line symbols x both flags x 6
                                     filters: FilterIsRestriction, CtorIsFirst, CaseInsensitiveFilter, FilterIsASet,
                                     StrictLaw, CommentLaw, SplitUnsigned, SplitFeedsParser, ArmorLaw (24 armor shapes),
                                     ResultsUnique, DefaultsLaw; CASE / ARMOR / TABLE lines for documents of <= 4 (5) lines
          spec/Deb822OptsObjs.tla    closed LTS of the calls on live objects (one edited object + frozen bystanders, two
                                     scenarios): MapsOK, EqIsSetEquality, EqSymmetric, RenderingsAgree, DumpFollowsKeys,
                                     QueriesPure, ErrAtomic, Frame, KeepsPlace, ReadBack, NeNegatesEq, NonMappingNeverEqual,
                                     ObjEncUsed, GetIsTotal; EDGE / ENV / ACC lines
          spec/TraceDeb822Opts.tla   trace validation (events call / read / split / acc) with interned payloads
          Spec-level negative controls, re-run in every check (each must make TLC report the named property):
          FExact -> CaseInsensitiveFilter, FStop -> FilterIsRestriction, FKeepCont -> FilterIsRestriction,
          FWsFlip -> DefaultsLaw, FEqRaise -> NonMappingNeverEqual, FObjEnc -> ObjEncUsed, FSdMove -> KeepsPlace.
binding:  spec -> code: (a) every CASE line (document, both flags, six filters; Deb822(..), iter_paragraphs,
          split_gpg_and_payload with TLC's expected results) and every ARMOR line is concretized (tame / odd characters /
          boundary sizes / Latin-1 bytes, block-aligned line ends) and read through rotating input forms (21: str, bytes,
          lists, tuples, generators, StringIO / BytesIO, real files buffered / unbuffered / text, short-read readers,
          gzip / bz2 / lzma, spooled files), classes (Deb822, Release, PdiffIndex, Removals, Dsc, Changes, BuildInfo;
          Packages, Sources), call styles (positional / keyword / sequence=), use_apt_pkg / shared_storage / encoding
          values, the strictness flag given as None / {} / explicit / unknown key -- the flag in force is looked up in
          TLC's EffWs table; probes: the objects of the previous case stay alive and are re-verified, results are
          mutated between two parses of the same text, two generators are advanced alternately, the fields / strict
          arguments must come back unchanged; (b) the complete LTS of Deb822OptsObjs is replayed edge by edge on real
          objects of eight classes with long-lived sinks (StringIO, BytesIO, real files, spooled) plus random walks;
          (c) the accessor tables are replayed on Changes / Dsc / Packages / BuildInfo objects.
          code -> spec: random histories (documents of up to 1000 paragraphs / 1000 fields read with random options,
          every helper / rendering / comparison on up to 40 live objects, accessor calls) are recorded with all live
          objects observed after every event and validated by TLC (TraceDeb822Opts) together with corrupted control
          traces that must be rejected.  Payloads are interned ids in the traces and opaque tokens in the models:
          verdicts are length-independent by construction (notes/SIZE_STRESS.md: lengths 1..8193, counts 0..1000,
          non-NFC / case-hazard / invisible / non-BMP characters, every UTF-8 trailing byte at line ends, line ends
          at 2^k-1 / 2^k / 2^k+1).

API surface (notes/API_SURFACE.md)
  entry point / variant                                                exercised by
  Deb822(seq) / (seq, fields) / (seq, fields, None, encoding, strict) /
    keywords / sequence=, for nine classes                             replay (a) ctor + trace (read)
  Cls.iter_paragraphs(seq, fields, use_apt_pkg, shared_storage,
    encoding, strict) positional / keyword / sequence=; Packages /
    Sources overrides and their defaults                               replay (a) iter + trace (read)
  fields as list / tuple; None; []; unknown names; other spelling      replay (a) + trace (findings X16-fields-*)
  strict None / {} / {key: True} / {key: False} / unknown key          replay (a) + trace
  encoding='utf-8' / 'UTF-8' / 'latin-1' (bytes input)                 replay (a) (stress 3) + trace
  split_gpg_and_payload(lines[, strict]) / strict= / through a
    subclass; gpg_stripped_paragraph                                   replay (a) split + ARMOR + trace (split)
  dump() / dump(None) / dump(fd=None, encoding, text_mode) ;
    dump(fd, text_mode=True) ; dump(fd) / (fd, enc) / keywords;
    str / __str__ / __unicode__ / format / '%s'; bytes / __bytes__     replay (b) + trace (call dump / str / bytes)
  get_as_string, p[k], get(k) / (k, d) / default=, setdefault, pop,
    in / __contains__ / operator.contains, keys / values / items /
    iter / len, p[k] = v / update, del                                 replay (b) + trace
  == / != / __eq__ with paragraph, dict, OrderedDict, other Mapping,
    reflected; None, numbers, empty sequences, list(p)                 replay (b) + trace (finding X16-eq-non-mapping)
  Changes.get_pool_path, get_version / set_version (Dsc, Changes,
    Packages, BuildInfo), Packages.source / source_version             replay (c) + trace (acc, call set / getitem)
  use_apt_pkg=True with python-apt installed                           out of domain here (apt_pkg is not installed: the
                                                                       internal parser runs after a warning; counted)
  popitem, clear, copy, order_*, sort_fields, merge_fields             other checks (C09, C02 (e), X03)
  hash(p)                                                              probe: unhashable (TypeError), diagnostic only

findings (KNOWN): three divergences of the pinned code from the statement, each a defect switch of the specification;
          a divergence is reported as KNOWN-FINDING only when TLC's result under that switch explains it exactly,
          anything else is a VIOLATION.
verdict observables: fields (name, spelling, value lines) of every object obtained / alive, results and exception
          types of calls, bytes / text appended to sinks, return values.
"""
import json
import os
import random
import re
import shutil
import time
from concurrent.futures import ThreadPoolExecutor

import core
import opts_x16 as OX
from lts import skey

MANIFEST = None
LEVEL = "model_checking"

EXTRA = dict(
    title="deb822 reading / writing options and mapping helpers: fields=, strict, class defaults, split_gpg_and_payload, "
          "dump(fd, encoding, text_mode), get / setdefault / ==, Changes.get_pool_path and version accessors",
    statement=(
        "Reading: a white-space-only line separates paragraphs exactly when strict['whitespace-separates-paragraphs'] is "
        "true (default True; False for Packages / Sources.iter_paragraphs without strict), otherwise it continues the "
        "value (two or more characters) or is ignored; iter_paragraphs(seq, fields=F) yields every paragraph that has a "
        "field named in F restricted to those fields (input order and spelling kept, names compared case-insensitively, "
        "unknown names and the order of F irrelevant, dropped fields leave with their continuation lines), Deb822(seq, "
        "fields=F) the restricted first paragraph; use_apt_pkg / shared_storage never change a result; "
        "split_gpg_and_payload returns (armor head, payload lines, signature block) as bytes lines, ([], first block, []) "
        "for unsigned input, EOFError without a non-blank line. "
        "Writing: dump() / str() return one text T (Name: value lines in order, no blank after the colon of an empty or "
        "newline-first value), dump(fd, text_mode=True) appends T, dump(fd[, encoding]) appends T in the given or else "
        "the object's encoding, both return None and leave fd open, bytes() is T in the object's encoding, "
        "UnicodeEncodeError when T cannot be encoded. "
        "Helpers: get / setdefault / pop / in / keys / values / items behave as on an ordered case-insensitive "
        "case-preserving mapping (default object returned for absent keys, setdefault appends the validated default, a "
        "refused value changes nothing); p == q iff same fields with equal values in any order, != negates it, comparing "
        "with a non-mapping is False and never raises; queries never change a live object. "
        "Accessors: Changes.get_pool_path() = pool/<component of the first file's section or main>/<first 4 characters "
        "of a lib* source, else the first>/<source>; get_version / set_version read and write Version in place; "
        "Packages.source / source_version parse 'Source: name (version)' and fall back on Package / Version."),
    technique=(
        "TLA+ specs Deb822Opts (reader as left folds over line classes, EffWs, OCall, DumpT, EqOutcome, accessor tables), "
        "Deb822OptsDocs (all documents of <= 4 lines x 2 flags x 6 filters: 11 algebraic laws incl. 24 clearsign shapes) "
        "and Deb822OptsObjs (closed LTS of every helper / rendering / comparison on live objects, 14 invariants and action "
        "properties) model-checked by TLC with 7 spec-level negative controls; every emitted CASE / ARMOR / EDGE / ACC "
        "line replayed into the real classes through 21 input forms, 9 classes, all call styles and 7 kinds of sinks with "
        "tame / Unicode / size-stressed / block-aligned payloads and state-leak probes; recorded histories validated by "
        "TLC (TraceDeb822Opts) with corrupted control traces."))

K_EXACT = "X16-fields-exact-spelling"
K_STOP = "X16-filter-stops-iteration"
K_EQ = "X16-eq-non-mapping"
KNOWN = [
    dict(id=K_EXACT,
         signature="fields= is compared with the exact spelling although every other key lookup is case-insensitive (and the "
                   "apt_pkg code path of the same function matches case-insensitively): "
                   "list(Deb822.iter_paragraphs('Package: x\\n', fields=['package'])) == [] (expected the paragraph "
                   "with Package: x), Deb822('Package: x\\n', fields=['package']) is empty"),
    dict(id=K_STOP,
         signature="iter_paragraphs(..., fields=F) ends at the first paragraph without a field of F and silently loses the "
                   "rest of the document (`if not x: break` takes it for the end of input; the apt_pkg path skips it and "
                   "goes on): Deb822.iter_paragraphs('A: 1\\n\\nB: 2\\n\\nA: 3\\n', fields=['A']) yields only A: 1 "
                   "(expected A: 1 and A: 3)"),
    dict(id=K_EQ,
         signature="== / != with an operand that is not a mapping raise TypeError instead of answering False / True: "
                   "Deb822() == None -> TypeError: 'NoneType' object is not iterable (also int; list(p) for a non-empty "
                   "p), while an empty paragraph compares EQUAL to '' / [] / ()"),
]
KNOWN_IDS = {k["id"] for k in KNOWN}

DOC_INVS = ["FilterIsRestriction", "CtorIsFirst", "CaseInsensitiveFilter", "FilterIsASet", "StrictLaw", "CommentLaw",
            "SplitUnsigned", "SplitFeedsParser", "ArmorLaw", "ResultsUnique", "DefaultsLaw"]
OBJ_INVS = ["MapsOK", "EqIsSetEquality", "EqSymmetric", "RenderingsAgree", "DumpFollowsKeys"]
OBJ_PROPS = ["QueriesPure", "ErrAtomic", "Frame", "KeepsPlace", "ReadBack", "NeNegatesEq", "NonMappingNeverEqual",
             "ObjEncUsed", "GetIsTotal"]
NEG_DOCS = [("FExact", "CaseInsensitiveFilter"), ("FStop", "FilterIsRestriction"), ("FKeepCont", "FilterIsRestriction"),
            ("FWsFlip", "DefaultsLaw")]
NEG_OBJS = [("FEqRaise", "NonMappingNeverEqual"), ("FObjEnc", "ObjEncUsed"), ("FSdMove", "KeepsPlace")]


def docs_cfg(maxlines, emitmin, emit, invs, flag=None):
    t = lambda b: "TRUE" if b else "FALSE"     # noqa: E731
    out = ["CONSTANTS", "  MaxLines = %d" % maxlines, "  EmitMin = %d" % emitmin]
    out += ["  %s = %s" % (f, t(f == flag)) for f in ("FExact", "FStop", "FKeepCont", "FWsFlip")]
    out += ["  Emit = %s" % t(emit), "SPECIFICATION DSpec"] + ["INVARIANT " + i for i in invs] + ["CHECK_DEADLOCK FALSE", ""]
    return "\n".join(out)


def objs_cfg(emit, flag=None, props=True):
    t = lambda b: "TRUE" if b else "FALSE"     # noqa: E731
    out = ["CONSTANTS", '  Which = {"plain", "multi"}', "  MaxLen = 2"]
    out += ["  %s = %s" % (f, t(f == flag)) for f in ("FEqRaise", "FObjEnc", "FSdMove")]
    out += ["  Emit = %s" % t(emit), "SPECIFICATION OSpec"] + ["INVARIANT " + i for i in OBJ_INVS]
    if props:
        out += ["PROPERTY " + p for p in OBJ_PROPS]
    out += ["VIEW OView", ""]
    return "\n".join(out)


_LINE = re.compile(r'^<<"([A-Z]+)", "(.*)">>$')


def read_emission(path, tags):
    """fast reader of the printed JSON lines of a TLC run (core's generic parser is too slow for ~10^4 long lines)"""
    out = {t: [] for t in tags}
    with open(path, errors="replace") as f:
        for line in f:
            if line.startswith('<<"'):
                m = _LINE.match(line.rstrip("\n"))
                if m and m.group(1) in out:
                    out[m.group(1)].append(json.loads(m.group(2).replace('\\"', '"').replace("\\\\", "\\")))
    return out


def short(x, n=300):
    s = x if isinstance(x, str) else json.dumps(x, ensure_ascii=False, default=repr)
    return s if len(s) <= n else s[:n] + "..."


class Known(object):
    def __init__(self):
        self.hits = {}
        self.example = {}

    def hit(self, kid, example):
        self.hits[kid] = self.hits.get(kid, 0) + 1
        self.example.setdefault(kid, example)


class Stats(object):
    def __init__(self):
        self.n = {}
        self.sets = {}
        self.drifts = []

    def count(self, k, d=1):
        self.n[k] = self.n.get(k, 0) + d

    def add(self, k, v):
        self.sets.setdefault(k, set()).add(v)

    def drift(self, msg):
        if len(self.drifts) < 12:
            self.drifts.append(msg)


# ------------------------------------------------------------------ (a) spec -> code: documents and options

STYLES = ["pos", "kw", "kwall", "kwseq"]
SARGS = ["none", "empty", "T", "F", "other"]


def match_lines(doc, recs):
    """indexes of the document lines the records of a split result stand for (a subsequence, in order)"""
    out, j = [], 0
    for r in recs:
        while j < len(doc) and not all(doc[j][k] == r[k] for k in ("c", "n", "s", "t")):
            j += 1
        if j >= len(doc):
            raise core.MachineryError("split result of the specification is not a subsequence of the document")
        out.append(j)
        j += 1
    return out


def pick_class(rng, kind, doc, api):
    has_comment = any(ln["c"] == "#" for ln in doc)
    if kind == "lenient":
        return "Packages" if has_comment or rng.random() < 0.6 else "Sources"
    pool = [c for c in OX.PLAIN_CLASSES if not (has_comment and c in OX.GPG_CLASSES)]
    return rng.choice(pool)


def read_job(case, idx, seed, quick):
    """the plan of one CASE / ARMOR line: everything random is drawn here, from the per-case seed"""
    return {"kind": "read", "case": case, "idx": idx, "seed": seed, "quick": quick}


class ReadWorld(object):
    """what stays alive between two cases: the objects of the previous case with their expected fields"""

    def __init__(self, workdir, table, stats, known):
        self.workdir, self.table, self.stats, self.known = workdir, table, stats, known
        self.alive = []          # (object, vocab, expected fields, description)
        self.prev_input = None   # (DocReal, expected list for iter all / ws TRUE or None)


def expected_for(case, table, clskind, api, sarg, widx):
    ws = table["effws"][clskind][api][sarg]
    side = case["T" if ws else "F"]
    return ws, side, side["w"][widx]


def run_read_job(job, world):
    """-> list of violations (message strings); known findings / drift / counts go to world.known / world.stats"""
    case, idx = job["case"], job["idx"]
    rng = random.Random(job["seed"])
    stats, known, table = world.stats, world.known, world.table
    doc = case["doc"]
    armor = "sh" in case
    viol = []
    stress = [0, 1, 2, 0, 3, 1][idx % 6] if not job.get("canonical") else 0
    real = OX.DocReal(doc, rng, stress)
    enc_doc = "latin-1" if stress == 3 else "utf-8"
    aligned = None
    if idx % 7 == 3 and stress in (0, 1):
        k = [13, 12, 9, 10, 11, 14, 15, 16, 17][(idx // 7) % 9]
        if k <= (14 if job["quick"] else 17):
            li = rng.randrange(len(doc))
            delta = rng.choice([-1, 0, 1])
            got = real.pad_to(rng, li, (1 << k) - 1 + delta)
            if got is not None:
                aligned = (k, delta, li)
                stats.count("aligned_cases")
                stats.add("aligned_powers", k)
    text = real.joined(final_newline=rng.random() < 0.8)
    keep = []
    live_now = []

    def describe(what, opts):
        return "%s on %s with %s" % (what, short(text, 200), opts)

    def judge(what, opts, obs, want_stmt, built, dom, unspecified):
        """built: {finding id(s) tuple: expected} alternatives of the as-built switches"""
        stats.count("evaluations")
        if obs == want_stmt:
            return True
        if not dom or unspecified:
            stats.count("unspecified_divergences")
            if not any(obs == exp for ids, exp in built):
                stats.drift("UNSPECIFIED zone: %s gave %s, the model of the code says %s" % (describe(what, opts), short(obs), short(want_stmt)))
            return False
        for ids, exp in built:
            if obs == exp and all(i in KNOWN_IDS for i in ids):
                for i in ids:
                    known.hit(i, describe(what, opts) + " -> " + short(obs, 200))
                return False
        viol.append("%s: got %s, the specification says %s" % (describe(what, opts), short(obs), short(want_stmt)))
        return False

    try:
        ncalls = 2 if job["quick"] else 3
        first_objs = None
        for call_no in range(ncalls):
            api = "ctor" if (idx + call_no) % 3 == 2 else "iter"
            clskind = "lenient" if rng.random() < 0.35 else "plain"
            sarg = rng.choice(SARGS if rng.random() < 0.7 else ["T", "F"])
            if armor:
                widx, clskind = 0, "plain"
                sarg = rng.choice(["none", "empty", "T"])
            else:
                widx = (idx + call_no * 2 + rng.randrange(2)) % 6
            clsname = pick_class(rng, clskind, doc, api)
            if armor:
                ws, side, ex = True, None, None
                dom, unspecified = True, False
                want = {"all": True, "l": []}
                exp_stmt = case["i"] if api == "iter" else case["c"]
                built = []
            else:
                ws, side, ex = expected_for(case, table, clskind, api, sarg, widx)
                dom = side["dom"]
                unspecified = clskind == "lenient" and sarg == "other"
                want = table["wants"][widx]
                if api == "iter":
                    exp_stmt = ex["i"]
                    built = [] if ex["ki"] == "=" else [((K_EXACT,), ex["ki"]["e"]), ((K_STOP,), ex["ki"]["s"]), ((K_EXACT, K_STOP), ex["ki"]["b"])]
                else:
                    exp_stmt = ex["c"]
                    built = [] if ex["kc"] == "=" else [((K_EXACT,), ex["kc"])]
            form = rng.choice(OX.BYTE_FORMS if stress == 3 else OX.ALL_FORMS)
            if aligned and call_no == 0:
                form = rng.choice([f for f in OX.FILE_FORMS if stress != 3 or f in OX.BYTE_FORMS])
            enc = "latin-1" if stress == 3 else rng.choice([None, None, "utf-8", "UTF-8"])
            style = rng.choice(STYLES)
            fields = real.fields_arg(want, rng)
            fields_before = None if fields is None else list(fields)
            inp = OX.make_input(form, text, enc_doc, rng, world.workdir, keep)
            apt = rng.choice([None, None, False, True])
            shared = rng.choice([None, None, True, False])
            opts = "%s.%s(<%s>, fields=%r, strict=%s, encoding=%r, style=%s%s)" % (
                clsname, "iter_paragraphs" if api == "iter" else "__init__", form, fields, sarg, enc, style,
                ", use_apt_pkg=%r, shared_storage=%r" % (apt, shared) if api == "iter" else "")
            stats.add("input_forms", form)
            stats.add("classes", clsname)
            stats.add("call_styles", api + ":" + style)
            stats.count("flag:%s" % ("T" if ws else "F"))
            try:
                with OX.Quiet() as q:
                    if api == "iter":
                        objs = OX.call_iter(clsname, inp, fields, sarg, style, apt, shared, enc)
                    else:
                        objs = [OX.call_ctor(clsname, inp, fields, sarg, style, enc)]
                stats.count("apt_warnings", q.apt_warnings())
            except Exception as ex_:      # noqa: BLE001
                if not core.raised_by_code_under_test(ex_):
                    raise
                if dom and not unspecified:
                    viol.append("%s: unexpected %s: %s" % (describe("reading", opts), type(ex_).__name__, ex_))
                else:
                    stats.count("unspecified_divergences")
                continue
            if fields is not None and list(fields) != fields_before:
                viol.append("%s: the fields argument was modified: %r" % (describe("reading", opts), fields))
            obs = [real.vocab.para([(k, o[k]) for k in o]) for o in objs]
            if api == "iter":
                kept = [(o, p) for o, p in zip(objs, obs) if p]
                obs = [p for o, p in kept]
                objs = [o for o, p in kept]
                ok = judge("iter_paragraphs", opts, obs, exp_stmt, built, dom, unspecified)
            else:
                ok = judge("Deb822(...)", opts, obs[0], exp_stmt, built, dom, unspecified)
                obs = [obs[0]]
            for o in objs:
                if type(o).__name__ != clsname:
                    viol.append("%s: returned an object of class %s" % (describe("reading", opts), type(o).__name__))
                want_enc = enc if enc is not None else "utf-8"
                if getattr(o, "encoding", None) != want_enc:
                    viol.append("%s: object.encoding is %r, expected %r" % (describe("reading", opts), getattr(o, "encoding", None), want_enc))
            live_now += [(o, real.vocab, p, opts) for o, p in zip(objs, obs)]
            # probe: the caller ruins what he got; the next parse of the same text must not care
            if call_no == 0 and objs:
                first_objs = objs
                victim = objs[0]
                live_now = [x for x in live_now if x[0] is not victim]
                try:
                    for k in list(victim)[:1]:
                        del victim[k]
                    victim["X-Poison"] = "poisoned by the caller"
                except Exception:      # noqa: BLE001
                    pass
        # ---- split_gpg_and_payload / gpg_stripped_paragraph on a clean rendering (no trailing white space)
        if armor or idx % 2 == 0:
            sreal = OX.DocReal(doc, rng, stress if stress != 2 or idx % 4 == 0 else 0, clean=True)
            stext = sreal.joined(final_newline=rng.random() < 0.8)
            sarg = rng.choice(["none", "empty", "T", "other"]) if armor else rng.choice(SARGS)
            ws = table["effws"]["plain"]["ctor"][sarg]
            smodel = case["split"] if armor else case["T" if ws else "F"]["split"]
            form = rng.choice(["lines_str", "lines_str_noeol", "tuple_str", "gen_str", "lines_bytes", "lines_bytes_noeol", "gen_bytes"]
                              + ([] if stress == 3 else ["StringIO", "file_text"]) + ["BytesIO", "file_bin", "BufferedReader_short", "GzipFile"])
            if stress == 3:
                form = rng.choice(["lines_bytes", "lines_bytes_noeol", "gen_bytes", "BytesIO", "file_bin"])
            inp = OX.make_input(form, stext, enc_doc, rng, world.workdir, keep)
            which = "split" if rng.random() < 0.75 else "strip"
            style = rng.choice(["pos", "kw", "possub", "kwsub"])
            opts = "%s(<%s>, strict=%s, style=%s)" % ("split_gpg_and_payload" if which == "split" else "gpg_stripped_paragraph", form, sarg, style)
            stats.count("split_calls")
            try:
                r = OX.call_split(inp, sarg, style, which)
                if which == "split":
                    ok_shape = isinstance(r, tuple) and len(r) == 3 and all(isinstance(p, list) and all(isinstance(b, bytes) for b in p) for p in r)
                    obs = ("split", [list(p) for p in r]) if ok_shape else ("?", repr(r)[:300])
                else:
                    ok_shape = isinstance(r, list) and all(isinstance(b, bytes) for b in r)
                    obs = ("strip", list(r)) if ok_shape else ("?", repr(r)[:300])
            except EOFError:
                obs = ("err", "EOFError")
            except Exception as ex_:      # noqa: BLE001
                if not core.raised_by_code_under_test(ex_):
                    raise
                obs = ("err", type(ex_).__name__)
            if smodel["t"] == "err":
                exp = ("err", smodel["x"])
            else:
                parts = [[sreal.text[j].encode("utf-8" if form in OX.STR_FORMS else enc_doc) for j in match_lines(doc, smodel["x"][p])]
                         for p in ("pre", "pay", "post")]
                exp = ("split", parts) if which == "split" else ("strip", parts[1])
            stats.count("evaluations")
            if obs != exp:
                viol.append("%s on %s: got %s, the specification says %s" % (opts, short(stext, 200), short(repr(obs)), short(repr(exp))))
        # ---- probe: two generators advanced alternately (this document / the previous one), default options
        if world.prev_input is not None and not armor and idx % 5 == 1:
            preal, pexp, ptext = world.prev_input
            exp_here = case["T"]["w"][0]["i"]
            if case["T"]["dom"]:
                from debian.deb822 import Deb822
                g1 = Deb822.iter_paragraphs(OX.make_input(rng.choice(OX.STR_FORMS), text, "utf-8", rng, world.workdir, keep)) if stress != 3 else None
                g2 = Deb822.iter_paragraphs(OX.make_input(rng.choice(OX.STR_FORMS), ptext, "utf-8", rng, world.workdir, keep))
                if g1 is not None:
                    a, b = [], []
                    try:
                        for _ in range(12):
                            x = next(g1, None)
                            y = next(g2, None)
                            if x is not None:
                                a.append(real.vocab.para([(k, x[k]) for k in x]))
                            if y is not None:
                                b.append(preal.vocab.para([(k, y[k]) for k in y]))
                            if x is None and y is None:
                                break
                    except Exception as ex_:      # noqa: BLE001
                        if not core.raised_by_code_under_test(ex_):
                            raise
                        viol.append("two interleaved generators: unexpected %s: %s" % (type(ex_).__name__, ex_))
                    stats.count("interleaved_generators")
                    if a != exp_here or b != pexp:
                        viol.append("two generators advanced alternately over %s and %s gave %s / %s, the specification says %s / %s"
                                    % (short(text, 120), short(ptext, 120), short(a), short(b), short(exp_here), short(pexp)))
        # ---- probe: the objects of the previous case are still what they were
        for o, vocab, exp, opts in world.alive:
            now = vocab.para([(k, o[k]) for k in o])
            stats.count("kept_alive_checked")
            if now != exp:
                viol.append("an object obtained earlier (%s) changed while other documents were read: now %s, was %s" % (opts, short(now), short(exp)))
        world.alive = live_now[-6:]
        if not armor and stress != 3 and case["T"]["dom"]:
            world.prev_input = (real, case["T"]["w"][0]["i"], text)
    finally:
        OX.release(keep)
    return viol


# ------------------------------------------------------------------ (b) spec -> code: the LTS of calls on live objects

OBJ_CLASSES = ["Deb822", "Deb822", "Dsc", "Changes", "Packages", "Sources", "Release", "BuildInfo", "Removals", "PdiffIndex"]


class ObjReal(object):
    """realisation of one scenario of Deb822OptsObjs: names, spellings and tokens as real strings.
    stress: 0 tame, 1 odd characters, 2 sizes"""

    def __init__(self, env, seed, stress):
        self.env, self.seed, self.stress = env, seed, stress
        rng = random.Random("objreal-%s-%s-%s" % (env["id"], seed, stress))
        self.vocab = OX.Vocab()
        names = OX.pick_names(rng, len(env["names"]), 2 if stress == 2 else 0)      # the scenarios say: ASCII names
        self.name, self.alt = {}, {}
        for n, c in zip(env["names"], names):
            self.name[n], self.alt[n] = c, OX.ascii_variant(rng, c)
            self.vocab.add_key(c, n, "C")
            self.vocab.add_key(self.alt[n], n, "L")
        cont = {t for v in list(env["vals"]) + [o_["m"][i]["v"] for o_ in env["objs"] for i in range(len(o_["m"]))] for t in v[1:] if t}
        for t, cl in sorted(env["tcl"].items()):
            if t == "":
                continue
            for _ in range(50):
                x = OX.data_text(rng, stress if cl != "l" else (3 if stress != 2 else 2), cls=cl)
                if t in cont:
                    x = rng.choice([" ", "\t", "  "]) + x
                if x not in self.vocab.tok:
                    break
            self.vocab.add_tok(x, t)
        self.clsname = rng.choice(OBJ_CLASSES)

    def key(self, n, s, rng=None, loose=False):
        if loose and rng is not None and rng.random() < 0.3:
            return OX.ascii_variant(rng, self.name[n]) or self.name[n]
        return self.name[n] if s == "C" else self.alt[n]

    def value(self, v):
        return self.vocab.val_text(v)


class ObjWorld(object):
    """the live objects of one realisation + long-lived sinks"""

    def __init__(self, real, rng, workdir):
        self.real = real
        env = real.env
        self.objs = []
        for i, o in enumerate(env["objs"]):
            cls = OX.get_class(real.clsname if i == 0 else rng.choice(OBJ_CLASSES))
            how = rng.randrange(3)
            if how == 0:
                p = cls(encoding=o["enc"])
            elif how == 1:
                p = cls(None, None, None, o["enc"])
            else:
                p = cls([], encoding=o["enc"])
            for e in o["m"]:
                p[real.key(e["n"], e["s"])] = real.value(e["v"])
            self.objs.append(p)
        self.sinks = [OX.Sink(k, rng, workdir) for k in rng.sample(OX.TEXT_SINKS, 2) + rng.sample(OX.BIN_SINKS, 2)]

    def set_state(self, m):
        p = self.objs[0]
        for k in list(p):
            del p[k]
        for e in m:
            p[self.real.key(e["n"], e["s"])] = self.real.value(e["v"])

    def observe(self):
        return [OX.observe(p, self.real.vocab) for p in self.objs]

    def close(self):
        for s in self.sinks:
            s.close()


def edge_compare(edge, obs_res, obs_m):
    """-> None | ('known', id) | ('viol', message)"""
    res_ok = edge["any"] or OX.res_match(edge["res"], obs_res)
    if res_ok and obs_m == edge["to"]:
        return None
    kres = edge["res"] if edge["kres"] == "=" else edge["kres"]
    kto = edge["to"] if edge["kto"] == "=" else edge["kto"]
    if (edge["kres"], edge["kto"]) != ("=", "=") and OX.res_match(kres, obs_res) and obs_m == kto and K_EQ in KNOWN_IDS:
        return ("known", K_EQ)
    return ("viol", "result %s / fields %s, the specification says %s / %s" % (short(list(obs_res)), short(obs_m), short(edge["res"]), short(edge["to"])))


def describe_edge(real, edge):
    c = edge["call"]
    bits = ["scenario %s as %s" % (real.env["id"], real.clsname), c["op"]]
    if c["n"]:
        bits.append("key %r" % real.key(c["n"], c["s"]))
    if c["v"]:
        bits.append("value %r" % short(real.value(c["v"]), 80))
    if c["k"]:
        bits.append("operand / form %s" % c["k"])
    if c["enc"]:
        bits.append("encoding %s" % c["enc"])
    if c["o"] != 1 or c["o2"]:
        bits.append("objects %s / %s" % (c["o"], c["o2"]))
    bits.append("from %s" % short([(real.key(e["n"], e["s"]), real.value(e["v"])) for e in edge["from"]], 300))
    return ", ".join(bits)


def apply_edge(world, edge, rng):
    real, c = world.real, edge["call"]
    key = real.key(c["n"], c["s"], rng, loose=c["op"] not in ("set", "setdefault")) if c["n"] else None
    value = real.value(c["v"]) if c["v"] else None
    before = world.observe()
    res = OX.perform(world.objs, c, real.vocab, rng, world.sinks, key=key, value=value)
    after = world.observe()
    for i in range(1, len(after)):
        if after[i] != before[i]:
            return res, after[0], "bystander object %d changed from %s to %s" % (i + 1, short(before[i]), short(after[i]))
    return res, after[0], None


def replay_state(world, edges, rng, known):
    """all edges leaving one state on one world -> (n_done, (edge, message) or None)"""
    state = edges[0]["from"]
    world.set_state(state)
    done = 0
    for e in edges:
        try:
            res, m, leak = apply_edge(world, e, rng)
        except Exception as ex:      # noqa: BLE001
            if not core.raised_by_code_under_test(ex):
                raise
            return done, (e, "unexpected %s from the library while observing: %s" % (type(ex).__name__, ex))
        done += 1
        if leak:
            return done, (e, leak)
        v = edge_compare(e, res, m)
        if v is not None:
            if v[0] == "known":
                known.hit(v[1], describe_edge(world.real, e) + " -> " + short(list(res), 120))
            else:
                return done, (e, v[1])
        if m != state:
            world.set_state(state)
    return done, None


def strip_edge(e):
    return {k: e[k] for k in ("cfg", "from", "call", "res", "to", "any", "kres", "kto")}


def replay_groups(real, wseed, groups, known, workdir):
    world = ObjWorld(real, random.Random(wseed), workdir)
    try:
        for g in groups:
            done, viol = replay_state(world, g["edges"], random.Random(g["seed"]), known)
            if viol:
                return viol
    finally:
        world.close()
    return None


def replay_lts(ctx, env, edges, rng, known, quick, stats):
    by_state = {}
    for e in edges:
        by_state.setdefault(skey(e["from"]), []).append(e)
    reals = [ObjReal(env, rng.getrandbits(32), st) for st in (0, 1, 2, 1)]
    worlds = [None] * len(reals)
    n = 0
    rounds = 1 if quick else 2
    for rnd in range(rounds):
        for i, (sk, es) in enumerate(by_state.items()):
            ri = (i + rnd) % len(reals)
            real = reals[ri]
            if worlds[ri] is None or len(worlds[ri][2]) >= 15:
                if worlds[ri] is not None:
                    worlds[ri][0].close()
                wseed = rng.getrandbits(32)
                worlds[ri] = (ObjWorld(real, random.Random(wseed), ctx.work), wseed, [])
            world, wseed, hist = worlds[ri]
            pseed = rng.getrandbits(32)
            hist.append({"edges": es, "seed": pseed})
            done, viol = replay_state(world, es, random.Random(pseed), known)
            n += done
            stats.add("object_classes", real.clsname)
            if viol:
                e, msg = viol
                groups = hist
                if replay_groups(real, wseed, hist[-1:], Known(), ctx.work) is not None:
                    groups = hist[-1:]
                ctx.violation({"kind": "edges", "env": env, "rseed": real.seed, "stress": real.stress, "wseed": wseed,
                               "groups": [{"edges": [strip_edge(x) for x in g["edges"]], "seed": g["seed"]} for g in groups]},
                              "%s: %s" % (describe_edge(real, e), msg))
                world.close()
                worlds[ri] = None
                if len(ctx.violations) >= 5:
                    return n, by_state
    for w in worlds:
        if w is not None:
            w[0].close()
    return n, by_state


def run_path(real, path, rng, known, workdir):
    world = ObjWorld(real, rng, workdir)
    try:
        expect = path[0]["from"]
        world.set_state(expect)
        for i, e in enumerate(path):
            if e["from"] != expect:
                world.set_state(e["from"])
            try:
                res, m, leak = apply_edge(world, e, rng)
            except Exception as ex:      # noqa: BLE001
                if not core.raised_by_code_under_test(ex):
                    raise
                return "step %d, %s: unexpected %s from the library: %s" % (i + 1, describe_edge(real, e), type(ex).__name__, ex)
            if leak:
                return "step %d of a walk, %s: %s" % (i + 1, describe_edge(real, e), leak)
            v = edge_compare(e, res, m)
            expect = e["to"]
            if v is not None:
                if v[0] == "known":
                    known.hit(v[1], describe_edge(real, e))
                    expect = e["to"] if e["kto"] == "=" else e["kto"]
                else:
                    return "step %d of a walk, %s: %s" % (i + 1, describe_edge(real, e), v[1])
    finally:
        world.close()
    return None


def walk_lts(ctx, env, by_state, rng, known, nwalks, length):
    init = skey([])
    n = 0
    for wi in range(nwalks):
        real = ObjReal(env, rng.getrandbits(32), wi % 3)
        pseed = rng.getrandbits(32)
        r = random.Random(pseed)
        path, cur = [], init
        for _ in range(length):
            outs = by_state[cur]
            e = r.choices(outs, weights=[5 if x["to"] != x["from"] else 1 for x in outs])[0]
            path.append(e)
            cur = skey(e["to"])
        msg = run_path(real, path, random.Random(pseed), known, ctx.work)
        n += 1
        if msg:
            ctx.violation({"kind": "path", "env": env, "path": [strip_edge(x) for x in path], "rseed": real.seed, "stress": real.stress,
                           "seed": pseed}, msg)
            if len(ctx.violations) >= 5:
                break
    return n


# ------------------------------------------------------------------ (c) spec -> code: the accessor tables

MD5 = "d41d8cd98f00b204e9800998ecf8427e"
COMPONENTS = ["contrib", "non-free", "non-free-firmware", "x", "Contrib", "été"]
SECTIONS = ["net", "utils", "libs", "python", "x11", "s", "Ωmega"]
VERSIONS = ["1.0-1", "2:1.0", "0", "1.0~rc1+b2", "2147483648:1-1", "4294967296:0.1", "1.0-1.1+b1", "9223372036854775808:1"]


def sec_text(rng, shape, stress):
    s = rng.choice(SECTIONS[:6] if stress != 1 else SECTIONS)
    if stress == 2:
        s = s + "x" * rng.choice([15, 16, 17, 255, 256, 257])
    if shape == "s":
        return None, s
    comp = rng.choice(COMPONENTS[:5] if stress != 1 else COMPONENTS)
    if shape == "c/s":
        return comp, comp + "/" + s
    return comp, comp + "/" + s + "/deep"


def src_text(rng, shape, stress):
    if shape == "lib":
        return "lib"
    tailp = rng.choice(["foo", "x", "z-1.0", "9", "+plus", "lib"]) if stress != 1 else rng.choice(["é", "Ω-x", "\U0001f600s", "ſ"])
    if stress == 2:
        tailp = tailp + "y" * rng.choice([1, 2, 3, 4, 5, 60, 61, 62, 1021, 1022, 8189, 8190])
    if shape == "lib+":
        return "lib" + tailp
    head = rng.choice(["foo", "x", "l", "li", "Lib", "LIB", "alib", "0ad", "glibc"]) if stress != 1 else rng.choice(["éclair", "Ωmega", "\U0001f600", "ſlib", "İx"])
    return head + (tailp if rng.random() < 0.5 else "")


def build_changes(rng, source, sections, form, workdir, keep):
    from debian.deb822 import Changes
    src_key = rng.choice(["Source", "source", "SOURCE"])
    files_key = rng.choice(["Files", "files", "FILES"])
    lines = ["Format: 1.8", "%s: %s" % (src_key, source), "Version: %s" % rng.choice(VERSIONS[:4]), "%s:" % files_key]
    for i, sec in enumerate(sections):
        lines.append(" %s %d %s optional %s_%d.deb" % (MD5, 1000 + i, sec, "pkg", i))
    lines.append("Description: something")
    text = "\n".join(lines) + "\n"
    if form == "mapping":
        return Changes({src_key: source, files_key: [dict(md5sum=MD5, size=str(1000 + i), section=sec, priority="optional", name="pkg_%d.deb" % i)
                                                      for i, sec in enumerate(sections)]})
    return Changes(OX.make_input(form, text, "utf-8", rng, workdir, keep))


def proj_pool(path, source, comp):
    """observed path -> shape in the vocabulary of the table"""
    if not isinstance(path, str):
        return {"comp": "?%r" % (path,), "pre": 0}
    parts = path.split("/")
    if len(parts) < 4 or parts[0] != "pool" or "/".join(parts[3:]) != source:
        return {"comp": "?" + path[:100], "pre": 0}
    c = "main" if parts[1] == "main" else "comp" if comp is not None and parts[1] == comp else "?" + parts[1][:60]
    pre = 1 if parts[2] == source[:1] else 4 if parts[2] == source[:4] else 0
    if source.startswith("lib") and parts[2] == source[:4]:
        pre = 4
    return {"comp": c, "pre": pre}


def acc_pool_case(rng, sec_shape, src_shape, stress, workdir):
    """-> (observed shape, description, extra violations)"""
    keep, extra = [], []
    try:
        comp, sec = sec_text(rng, sec_shape, stress)
        source = src_text(rng, src_shape, stress)
        nfiles = rng.choice([1, 1, 2, 3, 10, 33] + ([257] if stress == 2 else []))
        others = [sec_text(rng, rng.choice(["s", "c/s"]), 0)[1] for _ in range(nfiles - 1)]
        if comp is None:
            others = ["zcomp/" + o.split("/")[-1] for o in others]        # a later entry with a component must not win
        form = rng.choice(["str", "bytes", "lines_str", "lines_bytes_noeol", "StringIO", "BytesIO", "file_bin", "mapping"])
        desc = "Changes(<%s>) with Source %s and sections %s" % (form, short(source, 80), short([sec] + others[:3], 160))
        ch = build_changes(rng, source, [sec] + others, form, workdir, keep)
        bystander = build_changes(rng, "zzz-other", ["otherc/misc"], "str", workdir, keep)
        before = ch.dump()
        p1 = ch.get_pool_path()
        bystander.get_pool_path()
        p2 = ch.get_pool_path()
        if p1 != p2:
            extra.append("%s: get_pool_path() called twice gives %r then %r" % (desc, p1, p2))
        if ch.dump() != before:
            extra.append("%s: get_pool_path() changed the object" % desc)
        return proj_pool(p1, source, comp), desc + " -> %s" % short(p1, 120), extra
    finally:
        OX.release(keep)


def acc_pkg_case(rng, srcf, stress, workdir):
    from debian.deb822 import Packages
    from debian.debian_support import Version
    pkg = src_text(rng, "other", stress)
    sname = src_text(rng, rng.choice(["other", "lib+"]), stress)
    if sname == pkg:
        sname = "src-" + sname
    ver, sver = rng.sample(VERSIONS, 2)
    lines = ["%s: %s" % (rng.choice(["Package", "package"]), pkg), "%s: %s" % (rng.choice(["Version", "VERSION"]), ver)]
    if srcf == "plain":
        lines.insert(rng.randrange(3), "%s: %s" % (rng.choice(["Source", "source"]), sname))
    elif srcf == "ver":
        lines.insert(rng.randrange(3), "%s: %s (%s)" % (rng.choice(["Source", "source"]), sname, sver))
    text = "\n".join(lines) + "\n"
    keep = []
    try:
        form = rng.choice(["str", "bytes", "lines_str", "BytesIO", "iter"])
        if form == "iter":
            with OX.Quiet():
                p = list(Packages.iter_paragraphs(text))[0]
        else:
            p = Packages(OX.make_input(form, text, "utf-8", rng, workdir, keep))
        desc = "Packages(<%s> %s)" % (form, short(text, 160))
        name, sv = p.source, p.source_version
        extra = []
        if (p.source, str(p.source_version)) != (name, str(sv)):
            extra.append("%s: source / source_version differ between two reads" % desc)
        if not isinstance(sv, Version):
            extra.append("%s: source_version is a %s" % (desc, type(sv).__name__))
        obs = {"name": "Package" if name == pkg else "SourceName" if name == sname else "?%r" % (name,),
               "ver": "Version" if str(sv) == ver else "SourceVersion" if str(sv) == sver else "?%s" % (sv,)}
        return obs, desc + " -> %r, %s" % (name, sv), extra
    finally:
        OX.release(keep)


def replay_acc(ctx, table, rng, quick, stats):
    reps = 4 if quick else 30
    n = 0
    for sec_shape, row in sorted(table["pool"].items()):
        for src_shape, exp in sorted(row.items()):
            for rep in range(reps):
                seed = rng.getrandbits(32)
                msg = run_acc_case({"what": "pool", "sec": sec_shape, "src": src_shape, "exp": exp, "seed": seed, "stress": rep % 3}, ctx.work, stats)
                n += 1
                if msg and len(ctx.violations) < 5:
                    ctx.violation({"kind": "acc", "what": "pool", "sec": sec_shape, "src": src_shape, "exp": exp, "seed": seed, "stress": rep % 3}, msg)
    for srcf, exp in sorted(table["pkg"].items()):
        for rep in range(reps * 2):
            seed = rng.getrandbits(32)
            msg = run_acc_case({"what": "pkg", "srcf": srcf, "exp": exp, "seed": seed, "stress": rep % 3}, ctx.work, stats)
            n += 1
            if msg and len(ctx.violations) < 5:
                ctx.violation({"kind": "acc", "what": "pkg", "srcf": srcf, "exp": exp, "seed": seed, "stress": rep % 3}, msg)
    return n


def run_acc_case(case, workdir, stats=None):
    rng = random.Random(case["seed"])
    exp = case["exp"]
    try:
        if case["what"] == "pool":
            obs, desc, extra = acc_pool_case(rng, case["sec"], case["src"], case["stress"], workdir)
            if exp["any"]:
                if stats is not None and (obs["comp"], obs["pre"]) != (exp["comp"], exp["pre"]):
                    stats.drift("UNSPECIFIED zone: %s" % desc)
                return None
            ok = (obs["comp"], obs["pre"]) == (exp["comp"], exp["pre"])
        else:
            obs, desc, extra = acc_pkg_case(rng, case["srcf"], case["stress"], workdir)
            ok = obs == exp
    except Exception as ex:      # noqa: BLE001
        if not core.raised_by_code_under_test(ex):
            raise
        if case["what"] == "pool" and exp["any"]:
            return None
        return "accessor case %s: unexpected %s: %s" % (short(case, 200), type(ex).__name__, ex)
    if extra:
        return extra[0]
    if not ok:
        return "%s: shape %s, the specification says %s" % (desc, short(obs), short(exp))
    return None


# ------------------------------------------------------------------ (d) code -> spec: recorded histories

VALUE_CLASSES = ["Deb822", "Deb822", "Dsc", "Changes", "Packages", "BuildInfo", "Release", "Removals"]
VERSIONED = {"Dsc", "Changes", "Packages", "BuildInfo", "Sources"}


class Recorder(object):
    """one random history on real objects; everything observed is projected through a growing vocabulary"""

    def __init__(self, rng, size, workdir):
        self.rng, self.size, self.workdir = rng, size, workdir
        self.vocab = OX.Vocab(grow=True)
        self.stress = rng.choice([0, 1, 1, 2, 3])
        self.enc = "latin-1" if self.stress == 3 else "utf-8"
        nn = 6 if size != "fields" else rng.choice([99, 100, 101, 255, 256, 257] + ([1000] if rng.random() < 0.3 else []))
        self.names = OX.pick_names(rng, min(nn, 12), self.stress) + ["Version"]
        self.names += ["X-F-%03d%s" % (i, "-" + "y" * rng.choice([1, 15, 16, 17, 63]) if i % 40 == 0 else "") for i in range(max(0, nn - 12))]
        self.spell = {}
        self.objs, self.meta = [], []
        self.events = []
        self.keep = []
        self.sinks = [OX.Sink(k, rng, workdir) for k in rng.sample(OX.TEXT_SINKS, 2) + rng.sample(OX.BIN_SINKS, 2)]
        self.values = self.make_values()

    # ---- payloads
    def key(self, name, other=0.35):
        """a spelling of the name: the canonical one or one of two remembered variants"""
        rng = self.rng
        if rng.random() >= other:
            return name
        vs = self.spell.setdefault(name, [])
        if len(vs) < 2:
            v = OX.ascii_variant(rng, name)
            if v and v not in vs:
                vs.append(v)
        return rng.choice(vs) if vs else name

    def line_text(self, cls=None):
        st = self.stress
        return OX.data_text(self.rng, st, cls=cls, length=OX.pick_len(self.rng, st) if self.rng.random() < 0.3 else (None if st != 2 else 9))

    def make_values(self):
        rng = self.rng
        vals = []
        for _ in range(6):
            vals.append(self.line_text())
        vals.append("")
        for _ in range(3):
            k = rng.choice([1, 2, 3]) if self.size != "conts" else rng.choice([99, 100, 101, 255, 256, 257])
            first = rng.choice(["", self.line_text()])
            vals.append(first + "".join("\n" + rng.choice([" ", "\t", "  "]) + (self.line_text() if i % 50 == 0 else "l%d" % i) for i in range(k)))
        vals += [rng.choice(VERSIONS), rng.choice(VERSIONS)]
        bad = [vals[0] + "\n", "\n", vals[1] + "\n\n x", "\n x\n"]
        return {"good": vals, "bad": bad}

    def observe(self):
        return [OX.observe(p, self.vocab) for p in self.objs]

    def new_object(self):
        rng = self.rng
        clsname = rng.choice(VALUE_CLASSES)
        enc = rng.choice(["utf-8", "utf-8", "latin-1"])
        cls = OX.get_class(clsname)
        p = cls(encoding=enc) if rng.random() < 0.5 else cls(None, None, None, enc)
        self.objs.append(p)
        self.meta.append({"cls": clsname, "enc": enc})
        return p

    # ---- documents
    def gen_doc(self, clean=False):
        rng, size = self.rng, self.size
        lines = []          # (class, key or None, text, token text)

        def add(c, text, key=None, tok=None):
            lines.append((c, key, text, text if tok is None else tok))

        for _ in range(rng.choice([0, 0, 0, 1, 2])):
            add(*rng.choice([("B", ""), ("W2", "  "), ("#", "# leading"), ("W1", " ")]))
        npara = rng.choice([1, 1, 2, 3, 4]) if size != "paras" else rng.choice([99, 100, 101, 255, 256, 257] + ([1000] if rng.random() < 0.3 else []))
        for pi in range(npara):
            nf = rng.choice([1, 1, 2, 3, 4]) if size != "fields" else (len(self.names) * 9) // 10
            if size == "paras":
                nf = rng.choice([1, 2])
            names = rng.sample(self.names, min(nf, len(self.names)))
            for name in names:
                key = self.key(name)
                if rng.random() < 0.04:
                    add("#", "#" + rng.choice(["", " c", "X-Foo: y"]))
                if rng.random() < 0.12:
                    add("M", key + ":" + ("" if clean else rng.choice(["", " "])), key, "")
                else:
                    data = self.line_text() if size not in ("paras", "fields") or rng.random() < 0.02 else "v%d" % len(lines)
                    sep = rng.choice([": ", ": ", ":", ":\t", " : "])
                    add("F", key + sep + data + ("" if clean else rng.choice(["", "", " ", "\t"])), key, data)
                nc = rng.choice([0, 0, 0, 1, 2]) if size != "conts" else rng.choice([0, 99, 100, 101, 255])
                for ci in range(nc):
                    if rng.random() < 0.03:
                        add("#", "# inside")
                    if rng.random() < 0.06:
                        w = rng.choice([" ", "\t", "  ", " \t ", "\t\t"])
                        add("W1" if len(w) == 1 else "W2", w)
                    add("C", rng.choice([" ", "\t", "  "]) + (self.line_text() if nc < 10 or ci % 50 == 0 else "c%d" % ci))
            if pi < npara - 1 or rng.random() < 0.5:
                r = rng.random()
                for sep in ([""] if r < 0.75 else ["", ""] if r < 0.85 else ["  "] if r < 0.92 else [" "] if r < 0.96 else ["", "\t ", ""]):
                    add("B" if sep == "" else "W1" if len(sep) == 1 else "W2", sep)
        return lines

    def doc_records(self, lines):
        out = []
        for i, (c, key, text, tok) in enumerate(lines):
            n, s = self.vocab.key_sym(key) if key is not None else (0, "")
            out.append({"c": c, "n": n, "s": s, "t": "" if c in ("B", "M") else self.vocab.tok_sym(tok), "i": i + 1})
        return out

    # ---- events
    def ev_read(self):
        rng = self.rng
        lines = self.gen_doc()
        recs = self.doc_records(lines)
        text = "\n".join(t for c, k, t, tok in lines) + ("\n" if rng.random() < 0.8 else "")
        api = rng.choice(["iter", "iter", "ctor"])
        has_comment = any(c == "#" for c, k, t, tok in lines)
        kind = "lenient" if rng.random() < 0.35 else "plain"
        clsname = pick_class(rng, kind, [{"c": "#"}] if has_comment else [], api)
        sarg = rng.choice(SARGS if rng.random() < 0.6 else ["none", "none", "T", "F"])
        if rng.random() < 0.5:
            want, fields = {"all": True, "l": []}, None
        else:
            present = [k for c, k, t, tok in lines if k is not None]
            pool = [rng.choice(present) for _ in range(rng.choice([1, 1, 2, 3]))] if present else []
            pool += [self.key(rng.choice(self.names), 0.5) for _ in range(rng.choice([0, 1, 2]))]
            if rng.random() < 0.4:
                pool += ["X-Never-There"]
            if rng.random() < 0.05:
                pool = []
            rng.shuffle(pool)
            fields = tuple(pool) if rng.random() < 0.3 else list(pool)
            want = {"all": False, "l": [dict(zip(("n", "s"), self.vocab.key_sym(k))) for k in pool]}
        form = rng.choice(OX.BYTE_FORMS if self.stress == 3 else OX.ALL_FORMS)
        enc = "latin-1" if self.stress == 3 else rng.choice([None, None, "utf-8"])
        style = rng.choice(STYLES)
        inp = OX.make_input(form, text, self.enc, rng, self.workdir, self.keep)
        with OX.Quiet():
            if api == "iter":
                got = OX.call_iter(clsname, inp, fields, sarg, style, rng.choice([None, False, True]), rng.choice([None, True, False]), enc)
                got = [o for o in got if len(o)]
            else:
                got = [OX.call_ctor(clsname, inp, fields, sarg, style, enc)]
        res = [OX.observe(o, self.vocab) for o in got]
        adopt = len(self.objs) + len(got) <= (40 if self.size == "objs" else 6) and self.size != "paras"
        if adopt:
            self.objs += got
            self.meta += [{"cls": clsname, "enc": enc or "utf-8"}] * len(got)
        self.events.append({"kind": "read", "api": api, "doc": recs, "cls": kind, "sarg": sarg, "want": want, "enc": enc or "utf-8",
                            "ocls": clsname, "adopt": adopt, "res": res, "obs": self.observe(),
                            "_d": "%s.%s(<%s> %s, fields=%s, strict=%s)" % (clsname, api, form, short(text, 160), short(fields, 80), sarg)})

    def ev_split(self):
        rng = self.rng
        lines = self.gen_doc(clean=True)
        if rng.random() < 0.4:                      # clearsigned single paragraph
            body = [x for x in lines if x[0] in ("F", "M", "C")][:rng.choice([1, 2, 5])]
            if body and body[0][0] != "C":
                A = OX.ARMOR_TEXT
                lines = [("PB", None, A["pb"], A["pb"])] + [("PH", None, A[h], A[h]) for h in ["h1", "h2"][:rng.randrange(3)]] + [("B", None, "", "")] + body
                lines += [("B", None, "", "")] * rng.randrange(2) + [("PS", None, A["ps"], A["ps"])] + [("B", None, "", "")] * rng.randrange(2)
                lines += [("PG", None, A["g1"] + "x" * j, A["g1"] + "x" * j) for j in range(rng.choice([1, 2, 9]))] + [("PG", None, A["g2"], A["g2"]), ("PE", None, A["pe"], A["pe"])]
                lines += [("B", None, "", "")] * rng.randrange(2)
        recs = self.doc_records(lines)
        texts = [t for c, k, t, tok in lines]
        text = "\n".join(texts) + ("\n" if rng.random() < 0.8 else "")
        sarg = rng.choice(SARGS)
        form = rng.choice(["lines_bytes", "lines_bytes_noeol", "gen_bytes", "BytesIO", "file_bin"] if self.stress == 3 else
                          ["lines_str", "lines_str_noeol", "tuple_str", "gen_str", "lines_bytes", "gen_bytes", "StringIO", "BytesIO", "file_bin", "file_text"])
        inp = OX.make_input(form, text, self.enc, rng, self.workdir, self.keep)
        benc = "utf-8" if form in OX.STR_FORMS else self.enc
        try:
            r = OX.call_split(inp, sarg, rng.choice(["pos", "kw", "possub", "kwsub"]), "split")
            ok = isinstance(r, tuple) and len(r) == 3 and all(isinstance(p, list) and all(isinstance(b, bytes) for b in p) for p in r)
            if ok:
                parts, j = [], 0
                for p in r:                         # every returned line is a line of the document, in order
                    idx = []
                    for b in p:
                        while j < len(texts) and texts[j].encode(benc) != b:
                            j += 1
                        if j >= len(texts):
                            ok = False
                            break
                        idx.append(j + 1)
                        j += 1
                    parts.append(idx)
            res = {"t": "split", "x": dict(zip(("pre", "pay", "post"), parts))} if ok else {"t": "?split", "x": repr(r)[:200]}
        except EOFError:
            res = {"t": "err", "x": "EOFError"}
        self.events.append({"kind": "split", "doc": recs, "sarg": sarg, "res": res, "obs": self.observe(),
                            "_d": "split_gpg_and_payload(<%s> %s, strict=%s)" % (form, short(text, 200), sarg)})

    def ev_acc(self):
        rng = self.rng
        if rng.random() < 0.6:
            sec, src = rng.choice(["s", "c/s", "c/s/x"]), rng.choice(["lib+", "lib+", "other", "other", "lib"])
            obs, desc, extra = acc_pool_case(rng, sec, src, self.stress % 3, self.workdir)
            ev = {"kind": "acc", "what": "pool", "sec": sec, "src": src, "srcf": "", "res": obs}
        else:
            srcf = rng.choice(["absent", "plain", "ver"])
            obs, desc, extra = acc_pkg_case(rng, srcf, self.stress % 3, self.workdir)
            ev = {"kind": "acc", "what": "pkg", "sec": "", "src": "", "srcf": srcf, "res": obs}
        if extra:
            ev["res"] = {"comp": "?" + extra[0][:100], "pre": 0, "name": "?", "ver": "?"}
        ev["obs"] = self.observe()
        ev["_d"] = desc
        self.events.append(ev)

    def ev_call(self):
        rng = self.rng
        if not self.objs or (len(self.objs) < 2 and rng.random() < 0.3):
            self.new_object_event()
            return
        o = rng.randrange(len(self.objs))
        p = self.objs[o]
        op = rng.choice(["get"] * 3 + ["setdefault"] * 4 + ["pop"] * 2 + ["has"] * 2 + ["gas", "getitem"] + ["set"] * 5 + ["del"] * 2
                        + ["keys", "values", "items", "len"] + ["eq"] * 3 + ["ne"] * 2 + ["dump"] * 4 + ["str", "bytes"])
        c = {"op": op, "o": o + 1, "n": 0, "s": "", "v": [], "d": "", "o2": 0, "k": "", "enc": ""}
        key = value = None
        via = ""
        if op in ("get", "setdefault", "pop", "has", "gas", "getitem", "set", "del"):
            present = list(p)
            name = rng.choice(present) if present and rng.random() < 0.6 else rng.choice(self.names[:14])
            key = self.key(name, 0.5) if name in self.names else name
            c["n"], c["s"] = self.vocab.key_sym(key)
        if op in ("get", "pop"):
            c["d"] = rng.choice(["omit", "given"])
        if op in ("setdefault", "set"):
            c["d"] = "given" if op == "setdefault" else ""
            value = rng.choice(self.values["bad"]) if rng.random() < 0.15 else rng.choice(self.values["good"])
            c["v"] = self.vocab.val_sym(value)
        if op in ("eq", "ne"):
            c["k"] = rng.choice(["obj", "obj", "dict", "dict", "none", "int", "emptyseq", "keyseq"])
            if c["k"] in ("obj", "dict"):
                c["o2"] = rng.randrange(len(self.objs)) + 1
        if op == "dump":
            c["k"] = rng.choice(["ret", "fdt", "fdb", "fdb"])
            c["enc"] = rng.choice(["omit", "omit", "utf-8", "latin-1", "ascii"]) if c["k"] == "fdb" else "omit"
        # the version accessors are other entry points of p['Version'] = str(v) / Version(p['Version'])
        if key is not None and key.lower() == "version" and self.meta[o]["cls"] in VERSIONED and rng.random() < 0.7:
            from debian.debian_support import Version
            try:
                if op == "set" and value in VERSIONS:
                    key = "Version"                  # the spelling set_version() writes
                    c["n"], c["s"] = self.vocab.key_sym(key)
                    p.set_version(Version(value))
                    tag, x, via = "ok", "", "set_version"
                elif op == "getitem" and p.get("Version") in VERSIONS:
                    v = p.get_version()
                    tag, x, via = "val", self.vocab.val_sym(str(v)) if isinstance(v, Version) else "?%r" % (v,), "get_version"
            except Exception as ex:      # noqa: BLE001
                tag, x = OX.exc_result(ex)
                via = via or "version accessor"
        if not via:
            tag, x = OX.perform(self.objs, c, self.vocab, rng, self.sinks, key=key, value=value)
        if isinstance(x, str) and x.startswith("?"):
            tag = "?" + tag
        self.events.append({"kind": "call", "c": c, "res": {"t": tag, "x": x}, "obs": self.observe(),
                            "_d": "%s%s on object %d (%s)%s%s -> %s" % (op, " via " + via if via else "", o + 1, self.meta[o]["cls"],
                                                                     " key %r" % key if key is not None else "",
                                                                     " value %s" % short(repr(value), 80) if value is not None else "",
                                                                     short([tag, x], 200))})

    def new_object_event(self):
        """a fresh empty object joins through the reading API: Cls([]) is an empty paragraph"""
        rng = self.rng
        clsname = rng.choice(VALUE_CLASSES)
        enc = rng.choice(["utf-8", "latin-1"])
        p = OX.get_class(clsname)([], encoding=enc)
        self.objs.append(p)
        self.meta.append({"cls": clsname, "enc": enc})
        self.events.append({"kind": "read", "api": "ctor", "doc": [], "cls": "plain", "sarg": "none", "want": {"all": True, "l": []}, "enc": enc,
                            "ocls": clsname, "adopt": True, "res": [[]], "obs": self.observe(), "_d": "%s([], encoding=%r)" % (clsname, enc)})

    def run(self):
        rng, size = self.rng, self.size
        nev = {"small": rng.choice([15, 25, 40]), "fields": 10, "paras": 5, "objs": 60, "conts": 14}[size]
        try:
            for step in range(nev):
                r = rng.random()
                many = len(self.objs) >= (40 if size == "objs" else 6)
                if step == 0 or (r < (0.5 if size in ("objs", "paras") else 0.18) and not (many and size != "paras")):
                    self.ev_read()
                elif r < 0.26:
                    self.ev_split()
                elif r < 0.31:
                    self.ev_acc()
                else:
                    self.ev_call()
        finally:
            OX.release(self.keep)
            for s in self.sinks:
                s.close()
        tcl, scl = self.vocab.classes()
        return {"env": {"tcl": tcl, "scl": scl}, "init": [], "events": self.events}


def record_trace(rng, size, workdir):
    rec = Recorder(rng, size, workdir)
    return rec.run()


def strip_trace(t):
    return {"env": t["env"], "init": t["init"], "events": [{k: v for k, v in e.items() if not k.startswith("_")} for e in t["events"]]}


SIMPLE = {"F", "M", "C", "B"}


def corrupt(t, how):
    """negative controls: histories the specification must NOT accept (derived from in-domain, switch-free events)"""
    import copy
    for i, e in enumerate(t["events"]):
        c = None
        k = e["kind"]
        if k == "read" and how.startswith("read-") and e["want"]["all"] and e["doc"] and {ln["c"] for ln in e["doc"]} <= SIMPLE \
                and e["doc"][0]["c"] in ("F", "M") and e["res"] and e["res"][0] and not (e["cls"] == "lenient" and e["sarg"] == "other"):
            c = copy.deepcopy(e)
            par = c["res"][0]
            if how == "read-drop":
                del par[0]
            elif how == "read-swap" and len(par) >= 2:
                par[0], par[1] = par[1], par[0]
            elif how == "read-value":
                par[0]["v"] = ["t-bogus"]
            else:
                c = None
            if c is not None and c["adopt"]:
                c["obs"][len(c["obs"]) - len(c["res"])] = par
        elif k == "call" and how == "call-val" and e["res"]["t"] == "val":
            c = dict(e, res={"t": "val", "x": ["t-bogus"]})
        elif k == "call" and how == "call-bool" and e["res"]["t"] == "bool" and e["c"]["op"] == "has":
            c = dict(e, res={"t": "bool", "x": "true" if e["res"]["x"] == "false" else "false"})
        elif k == "call" and how == "call-err" and e["res"] == {"t": "err", "x": "ValueError"}:
            c = dict(e, res={"t": "ok", "x": ""})
        elif k == "call" and how == "call-dflt" and e["res"]["t"] == "dflt":
            c = dict(e, res={"t": "none", "x": ""})
        elif k == "call" and how == "call-leak" and e["c"]["op"] in ("set", "setdefault", "pop", "del") and len(e["obs"]) >= 2:
            obs = copy.deepcopy(e["obs"])
            q = 0 if e["c"]["o"] != 1 else 1
            obs[q] = obs[q][:-1] if obs[q] else [{"n": 1, "s": "s-leak", "v": ["t-leak"]}]
            c = dict(e, obs=obs)
        elif k == "call" and how == "call-moved" and e["c"]["op"] in ("set", "setdefault") and e["res"]["t"] in ("ok", "val") \
                and len(e["obs"][e["c"]["o"] - 1]) >= 2:
            obs = copy.deepcopy(e["obs"])
            m = obs[e["c"]["o"] - 1]
            m.append(m.pop(0))
            c = dict(e, obs=obs)
        elif k == "call" and how == "dump-enc" and e["res"]["t"] in ("wrote", "bytes") and isinstance(e["res"]["x"], dict) \
                and e["res"]["x"]["k"] == "b" and 0 < len(e["res"]["x"]["encs"]) < 3:
            x = dict(e["res"]["x"], encs=[z for z in ("utf-8", "latin-1", "ascii") if z not in e["res"]["x"]["encs"]])
            c = dict(e, res={"t": e["res"]["t"], "x": x})
        elif k == "call" and how == "dump-glue" and e["res"]["t"] in ("text", "wrote") and isinstance(e["res"]["x"], (dict, list)):
            x = copy.deepcopy(e["res"]["x"])
            ents = x if isinstance(x, list) else x["t"]
            if ents:
                ents[0]["g"] = "" if ents[0]["g"] == " " else " "
                c = dict(e, res={"t": e["res"]["t"], "x": x})
        elif k == "split" and how == "split-shift" and e["res"]["t"] == "split" and e["res"]["x"]["pay"]:
            x = copy.deepcopy(e["res"]["x"])
            x["pre"] = x["pre"] + [x["pay"].pop(0)]
            c = dict(e, res={"t": "split", "x": x})
        elif k == "split" and how == "split-eof" and e["res"]["t"] == "split":
            c = dict(e, res={"t": "err", "x": "EOFError"})
        elif k == "acc" and how == "acc-pool" and e["what"] == "pool" and e["sec"] in ("s", "c/s") and e["src"] != "lib" and e["res"]["pre"] in (1, 4):
            c = dict(e, res=dict(e["res"], pre=5 - e["res"]["pre"]))
        elif k == "acc" and how == "acc-pkg" and e["what"] == "pkg" and e["res"]["name"] in ("Package", "SourceName"):
            c = dict(e, res=dict(e["res"], name="Package" if e["res"]["name"] == "SourceName" else "SourceName"))
        if c is not None:
            return {"env": t["env"], "init": t["init"], "events": t["events"][:i] + [c]}
    return None


HOWS = ["read-drop", "read-swap", "read-value", "call-val", "call-bool", "call-err", "call-dflt", "call-leak", "call-moved", "dump-enc",
        "dump-glue", "split-shift", "split-eof", "acc-pool", "acc-pkg"]

STATIC_CONTROL = {
    "env": {"tcl": {"": "a", "t1": "a", "t2": "a"}, "scl": {"s1": "a"}}, "init": [],
    "events": [{"kind": "read", "api": "ctor", "doc": [{"c": "F", "n": 1, "s": "s1", "t": "t1", "i": 1}], "cls": "plain", "sarg": "none",
                "want": {"all": True, "l": []}, "enc": "utf-8", "ocls": "Deb822", "adopt": True,
                "res": [[{"n": 1, "s": "s1", "v": ["t2"]}]], "obs": [[{"n": 1, "s": "s1", "v": ["t2"]}]]}]}


def validate(ctx, traces, with_controls=True, known_ids=None):
    """-> (rejected trace numbers, first unexplained event per rejected trace, notes [(tid, what, l)], number of controls)"""
    known_ids = KNOWN_IDS if known_ids is None else known_ids
    controls = []
    if with_controls:
        controls.append(STATIC_CONTROL)
        for how in HOWS:
            for t in traces:
                c = corrupt(t, how)
                if c:
                    controls.append(strip_trace(c))
                    break
    env = {"TRACE_DIAG": "0", "KNOWN_EXACT": "1" if K_EXACT in known_ids else "0", "KNOWN_STOP": "1" if K_STOP in known_ids else "0",
           "KNOWN_EQ": "1" if K_EQ in known_ids else "0"}
    plain = [strip_trace(t) for t in traces]
    acc, _, r = core.validate_traces(ctx, "TraceDeb822Opts", "TraceDeb822Opts.cfg", plain, extra_env=env, controls=controls)
    notes = [tuple(x) for x in r.printed.get("REJECT", []) if x[0] <= len(traces)]
    rejected = [i for i in range(1, len(traces) + 1) if i not in acc]
    info = {}
    if rejected:
        sub = [plain[i - 1] for i in rejected[:10]]
        _, prog, _ = core.validate_traces(ctx, "TraceDeb822Opts", "TraceDeb822Opts.cfg", sub, extra_env=dict(env, TRACE_DIAG="1"))
        for j, i in enumerate(rejected[:10]):
            info[i] = prog.get(j + 1, 0)
    return rejected, info, notes, len(controls)


def describe_event(t, at):
    if at >= len(t["events"]):
        return "(end of history)"
    e = t["events"][at]
    rest = {k: v for k, v in e.items() if k not in ("obs", "doc", "_d", "kind")}
    return "event %d: %s; recorded as %s; fields of the live objects afterwards %s" % (at + 1, e.get("_d", e["kind"]), short(rest, 500), short(e["obs"], 400))


# ------------------------------------------------------------------ the check

def iter_emission(path, tags):
    """streaming variant of read_emission (the thorough emission is ~10^2 MB)"""
    with open(path, errors="replace") as f:
        for line in f:
            if line.startswith('<<"'):
                m = _LINE.match(line.rstrip("\n"))
                if m and m.group(1) in tags:
                    yield m.group(1), json.loads(m.group(2).replace('\\"', '"').replace("\\\\", "\\"))


def hash_probe():
    from debian.deb822 import Deb822
    try:
        hash(Deb822())
    except TypeError:
        return "unhashable"
    return "hashable"


def run(ctx):
    quick = ctx.tier == "quick"
    rng = ctx.rng
    ctx.import_repo()
    tm = ctx.extra.setdefault("phase_wall_s", {})
    known, stats = Known(), Stats()
    t0 = time.time()
    ctx.assumptions += [
        "model scope: documents of <= %d lines over 10 line symbols (laws) / <= %d lines (replayed cases), 2 names x 2 spellings, 6 filters, both flags, 24 armor shapes; "
        "object LTS: 2 scenarios, paragraphs of <= 2 fields, 5 / 4 live objects" % ((3, 4) if quick else (4, 5)),
        "domain: payloads without str.splitlines() boundaries other than newline and without white space at the ends of data; field names that are "
        "ASCII case variants of each other or different under str.lower(); continuation lines start with a blank or tab",
        "apt_pkg is not installed: use_apt_pkg=True runs the internal parser after a warning (counted, not judged)",
        "trusted: TLC, the concretizer (line classes known by construction), the projections list(p) / p[k] / value.split('\\n') and the lexer that "
        "maps a rendering onto (key, glue, value) entries guided by the items of the object",
    ]
    pool = ThreadPoolExecutor(max_workers=2)

    def emit_docs():
        cfgs = [docs_cfg(4, 0, True, ["EmitCase", "EmitArmor"])]
        if not quick:
            cfgs.append(docs_cfg(5, 5, True, ["EmitCase"]))
        return [ctx.tlc_must_hold("Deb822OptsDocs", c, workers=2, keep_raw=True, want_tags=set()) for c in cfgs]

    def emit_objs():
        return ctx.tlc_must_hold("Deb822OptsObjs", objs_cfg(True), workers=1, keep_raw=True, want_tags=set())

    def laws():
        return ctx.tlc_must_hold("Deb822OptsDocs", docs_cfg(3 if quick else 4, 0, False, DOC_INVS), workers=2 if quick else 4, want_tags=set())

    def neg(module, cfg, prop):
        r = ctx.tlc(module, cfg, workers=1, count=False, want_tags=set())
        if r.violated != prop:
            raise core.MachineryError("negative control %s: TLC reported %r, expected a violation of %s" % (cfg.split("\n")[3:7], r.violated, prop))
        return prop

    f_objs = pool.submit(emit_objs)
    f_docs = pool.submit(emit_docs)
    f_laws = pool.submit(laws)
    f_negs = [pool.submit(neg, "Deb822OptsDocs", docs_cfg(3, 0, False, [p], flag=f), p) for f, p in NEG_DOCS]
    f_negs += [pool.submit(neg, "Deb822OptsObjs", objs_cfg(False, flag=f), p) for f, p in NEG_OBJS]

    # ---- code -> spec: record while TLC runs
    t1 = time.time()
    ctx.extra["hash_probe"] = hash_probe()
    if quick:
        plan = ["small"] * 260 + ["fields"] * 2 + ["paras"] * 2 + ["objs"] * 3 + ["conts"] * 2
    else:
        plan = ["small"] * 1200 + ["fields"] * 12 + ["paras"] * 12 + ["objs"] * 16 + ["conts"] * 12
    traces, seeds = [], []
    for size in plan:
        tseed = rng.getrandbits(32)
        try:
            traces.append(record_trace(random.Random(tseed), size, ctx.work))
            seeds.append((tseed, size))
        except Exception as ex:      # noqa: BLE001
            if not core.raised_by_code_under_test(ex):
                raise
            import traceback
            if len(ctx.violations) < 5:
                ctx.violation({"kind": "record", "seed": tseed, "size": size},
                              "unexpected %s from the library while recording a history: %s" % (type(ex).__name__, traceback.format_exc().strip().splitlines()[-3:]))
    tm["record"] = round(time.time() - t1, 1)
    batch = 300 if quick else 450
    vpool = ThreadPoolExecutor(max_workers=1 if quick else 2)
    vfuts = [(i, vpool.submit(validate, ctx, traces[i:i + batch])) for i in range(0, len(traces), batch)]

    # ---- spec -> code (b) + (c): the LTS of calls on live objects, the accessor tables
    t2 = time.time()
    r = f_objs.result()
    em = read_emission(r.raw_path, ["ENV", "EDGE", "ACC"])
    shutil.rmtree(os.path.dirname(r.raw_path), ignore_errors=True)
    if len(em["ENV"]) != 2 or not em["EDGE"] or len(em["ACC"]) != 1:
        raise core.MachineryError("Deb822OptsObjs emitted %d ENV / %d EDGE / %d ACC lines" % (len(em["ENV"]), len(em["EDGE"]), len(em["ACC"])))
    nreplayed = nwalks = 0
    per_op = {}
    for e in em["EDGE"]:
        per_op[e["call"]["op"]] = per_op.get(e["call"]["op"], 0) + 1
    for env in em["ENV"]:
        edges = [e for e in em["EDGE"] if e["cfg"] == env["id"]]
        if len(ctx.violations) >= 5:
            break
        n, by_state = replay_lts(ctx, env, edges, rng, known, quick, stats)
        nreplayed += n
        if len(ctx.violations) < 5:
            nwalks += walk_lts(ctx, env, by_state, rng, known, 20 if quick else 120, 30 if quick else 60)
    e = em["EDGE"][len(em["EDGE"]) // 2]
    ctx.sample("lts edge: " + json.dumps({k: e[k] for k in ("cfg", "from", "call", "res", "to")}, separators=(",", ":")))
    nacc = replay_acc(ctx, em["ACC"][0], rng, quick, stats)
    ctx.extra["lts"] = {"states": r.distinct, "edges": len(em["EDGE"]), "tlc_wall_s": round(r.wall, 1)}
    ctx.extra["edges_per_action"] = per_op
    ctx.extra["edges_replayed"] = nreplayed
    ctx.extra["walks"] = nwalks
    ctx.extra["accessor_cases"] = nacc
    nstates = r.distinct
    del em
    tm["objects_and_accessors"] = round(time.time() - t2, 1)

    # ---- spec -> code (a): documents and options
    t3 = time.time()
    runs = f_docs.result()
    world = None
    ncase = narmor = nskipped = 0
    prev_job = None
    for r in runs:
        for tag, c in iter_emission(r.raw_path, {"CASE", "ARMOR", "TABLE"}):
            if tag == "TABLE":
                if world is None:
                    world = ReadWorld(ctx.work, c, stats, known)
                    ctx.extra["effws_table"] = c["effws"]
                continue
            if world is None:
                raise core.MachineryError("Deb822OptsDocs did not print its TABLE line first")
            if len(ctx.violations) >= 5:
                break
            seed = rng.getrandbits(32)
            if (quick and (seed % 100) >= (65 if tag == "CASE" else 45)) or (not quick and r is not runs[0] and (seed % 100) >= 45):
                nskipped += 1
                continue
            idx = ncase + narmor
            job = read_job(c, idx, seed, quick)
            try:
                viol = run_read_job(job, world)
            except Exception as ex:      # noqa: BLE001
                if not core.raised_by_code_under_test(ex):
                    raise
                viol = ["unexpected %s from the library: %s" % (type(ex).__name__, ex)]
            if tag == "CASE":
                ncase += 1
                if ncase == 1500:
                    ctx.sample("case: " + json.dumps({"doc": c["doc"], "iter(flag TRUE, filter 3)": c["T"]["w"][2]["i"], "as built": c["T"]["w"][2]["ki"]}, separators=(",", ":"))[:500])
            else:
                narmor += 1
            if viol:
                ctx.violation({"kind": "read", "job": job, "prev": prev_job, "table": world.table}, viol[0])
            prev_job = job
        shutil.rmtree(os.path.dirname(r.raw_path), ignore_errors=True)
    ctx.extra["doc_cases_replayed"] = ncase
    ctx.extra["armor_cases_replayed"] = narmor
    ctx.extra["doc_cases_not_sampled"] = nskipped
    tm["documents"] = round(time.time() - t3, 1)
    ctx.evaluations += nreplayed + nwalks + nacc + stats.n.get("evaluations", 0)
    for k in ("case", "armor"):
        ctx.distinct.add(("leg", k))
    for i in range(ncase + narmor):
        ctx.distinct.add(("doc", i))

    # ---- verdicts of the trace validation
    t4 = time.time()
    nrej = ncontrols = nunspec = 0
    for base, f in vfuts:
        rejected, info, notes, nc = f.result()
        ncontrols += nc
        for tid, what, l in notes:
            if what == "unspecified-read":
                nunspec += 1
            else:
                known.hit(what, describe_event(traces[base + tid - 1], l - 1)[:400])
        for i in rejected:
            nrej += 1
            if len(ctx.violations) >= 5:
                continue
            at = info.get(i, 0)
            tseed, size = seeds[base + i - 1]
            ctx.violation({"kind": "record", "seed": tseed, "size": size, "first_unexplained_event": at + 1},
                          "recorded history not explained by Deb822Opts (after %d accepted events): %s" % (at, describe_event(traces[base + i - 1], at)))
    vpool.shutdown()
    tm["validate_wait"] = round(time.time() - t4, 1)
    nread = sum(1 for t in traces for e in t["events"] if e["kind"] == "read")
    ctx.traces += nwalks + nstates + ncase + narmor + len(traces)
    ctx.evaluations += len(traces)
    for i in range(len(traces)):
        ctx.distinct.add(("trace", i))
    ctx.extra["traces_recorded"] = len(traces)
    ctx.extra["trace_events"] = sum(len(t["events"]) for t in traces)
    ctx.extra["trace_read_events"] = {"all": nread, "outside_the_reading_domain": nunspec}
    ctx.extra["traces_rejected"] = nrej
    ctx.extra["control_traces"] = ncontrols
    if traces:
        ctx.sample("recorded history (first 3 events): " + " | ".join(e["_d"] for e in traces[0]["events"][:3])[:600])
    f_laws.result()
    ctx.extra["negative_controls_spec"] = [f.result() for f in f_negs]
    pool.shutdown()
    ctx.extra["replay_counts"] = {k: v for k, v in sorted(stats.n.items())}
    for k, v in stats.sets.items():
        ctx.extra[k] = sorted(v)
    ctx.extra["file_object_kinds"] = sorted(set(stats.sets.get("input_forms", ())) & set(OX.FILE_FORMS))
    for d in stats.drifts:
        ctx.drift(d)
    if not ctx.violations:
        missing = [f for f in OX.ALL_FORMS if f not in stats.sets.get("input_forms", ())]
        if missing or len(stats.sets.get("classes", ())) < 9:
            raise core.MachineryError("not every input form / class was exercised: %s %s" % (missing, sorted(stats.sets.get("classes", ()))))
    ctx.extra["known_findings"] = {k["id"]: {"occurrences": known.hits.get(k["id"], 0), "example": known.example.get(k["id"])} for k in KNOWN}
    tm["total"] = round(time.time() - t0, 1)
    for k in KNOWN:
        if known.hits.get(k["id"]):
            print("KNOWN-FINDING: extra=X16 %s (%d occurrences; id=%s; e.g. %s)" % (k["signature"], known.hits[k["id"]], k["id"], known.example[k["id"]][:300].replace("\n", "\\n")))


def replay(ctx, case):
    ctx.import_repo()
    known, stats = Known(), Stats()
    kind = case.get("kind")
    if kind == "read":
        world = ReadWorld(ctx.work, case["table"], stats, known)
        try:
            if case.get("prev"):
                run_read_job(case["prev"], world)
            viol = run_read_job(case["job"], world)
        except Exception as ex:      # noqa: BLE001
            if not core.raised_by_code_under_test(ex):
                raise
            return "unexpected %s from the library: %s" % (type(ex).__name__, ex)
        return viol[0] if viol else None
    if kind in ("edges", "path"):
        real = ObjReal(case["env"], case["rseed"], case["stress"])
        if kind == "path":
            return run_path(real, case["path"], random.Random(case["seed"]), known, ctx.work)
        viol = replay_groups(real, case["wseed"], case["groups"], known, ctx.work)
        return "%s: %s" % (describe_edge(real, viol[0]), viol[1]) if viol else None
    if kind == "acc":
        return run_acc_case(case, ctx.work)
    if kind == "record":
        try:
            tr = record_trace(random.Random(case["seed"]), case["size"], ctx.work)
        except Exception as ex:      # noqa: BLE001
            if not core.raised_by_code_under_test(ex):
                raise
            return "unexpected %s from the library while recording the history" % type(ex).__name__
        rejected, info, notes, _ = validate(ctx, [tr], with_controls=False)
        if rejected:
            return "history still not explained by the specification: %s" % describe_event(tr, info.get(1, 0))
        return None
    return "unknown case kind"
