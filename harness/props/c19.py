"""C19 -- update_file converges to the published content and never corrupts the local file.

spec:     spec/UpdateFile.tla: one behaviour = one call of debian_support.update_file; the input
          record (published history v0..vn with repeats, how far back the index reaches, local copy
          absent / at some version / current / foreign, one fault, number of writes, hash flavours)
          is chosen in Init, then one action per step of the code in the code's order (ReadLocal,
          FetchIndex, ChooseHash, UpToDate | PlanPatches | NoPlan, DownloadPatch / VerifyPatch /
          ApplyPatch per patch, VerifyResult | FullDownload, OpenNew, WriteNew*, CloseNew, Rename,
          CleanupNew, Return | Raise) over the file-system variables local and dotNew.
          Consecutive calls in one process (Runs = 2): after Return / Raise the repository moves on
          (Republish: a version appended under the same URL, the same under another URL, another
          repository under another URL) and the actions run again from the file system the first
          call left; the invariants are per call (current content at the time of the call, local
          content at the start of the call); nothing but the file system is carried over.
TLC:      MC_UpdateFile.cfg, closed for <= 4 versions: Converges, NeverCorrupt, NoTempLeft,
          AlwaysOldOrNew (every state), FaultRaises, IndexFaultConverges, HashFaultWritesNothing,
          GarbledNeverApplied, ByPatchesWhenListed, no deadlock before the end;
          MC_UpdateFile_live.cfg: termination under weak fairness.
          MC_UpdateFile_runs.cfg: two calls, <= 3 versions at the second, at most one faulty call.
          Spec-level negative controls (Mode = noCleanup | skipVerifyResult | renameBeforeVerify |
          skipVerifyPatch; RememberIndex = TRUE: the second call re-uses the index the first call
          parsed for the same URL) must each violate the named invariant -- noCleanup and
          RememberIndex in every run, all five in the thorough tier.
binding:  (a) spec -> code: every terminal behaviour of the closed model (CASE lines carrying TLC's
              terminal state) is concretized into a file:// repository (gzip'ed full file, Index in
              the SHA1 / SHA256 flavours the interpreter supports, gzip'ed ed scripts from an
              independent differ: difflib bottom-up, diff -e in the thorough tier), a local copy and
              an injected fault, and replayed into the real function: (i) faults injected by wrapping
              open / os.rename / os.replace for local + '.new', (ii) implementation-agnostic write
              faults by RLIMIT_FSIZE + ignored SIGXFSZ in a forked child.  Verdict observables:
              outcome (returned / raised), local file bytes, returned lines, local + '.new'.
              Two-call behaviours are replayed in ONE Python process (same imported module, same
              local path; the repository files are rewritten in place when the URL stays, written
              to a second directory when the call uses another URL), a fault in either call.
              Every behaviour gets URLs and a local path of its own (symbolic links), so that
              state kept per URL / file name can leak only between the calls of one behaviour and
              a recorded case reproduces in isolation.
          (b) code -> spec: random histories (<= 8 versions, <= 30 lines, random fault; for half of
              them a second call after the repository moved on / was exchanged) executed on
              the real function with a recorder on open/rename/unlink/urlopen/urlretrieve; the event
              list and the final file-system state are validated by TLC (spec/TraceUpdateFile.tla).
              A trace rejected with its events is re-validated on the verdict observables alone:
              only that rejection is a violation, a step-order mismatch is spec drift.
API surface (notes/API_SURFACE.md) -- every public way of performing the operation, and where it is exercised:

  entry point / variant                              exercised by
  -------------------------------------------------  ---------------------------------------------------------
  update_file(remote, local)                         replay (canonical form of every behaviour), traces
  update_file(..., verbose=False / True / None),     replay + traces, rotating (c19_repo.api_variant); stdout is
    verbose passed positionally, keyword arguments     swallowed; same expectation (prints must not change the outcome)
  updateFile (deprecated alias)                      replay + traces, rotating with update_file; DeprecationWarning ignored
  download_file / downloadFile(remote, local)        own verdict leg: spec entry "download_file" (EnterHelper, FullDownload,
                                                       OpenNew .. CleanupNew) x every local position x write / rename faults
                                                       (wrapped and RLIMIT); also as first or second call of two-call behaviours
  replace_file / replaceFile(lines, local[, enc])    own verdict leg: spec entry "replace_file" (atomic: new content or the
                                                       old file untouched and no '.new'), same faults; positional and keyword
                                                       arguments incl. encoding="UTF-8"; mixed into two-call behaviours
  download_gunzip_lines / downloadGunzipLines(url)   called on the repository's full file after a rotating sample of replays:
                                                       the lines of the current content (what FullDownload delivers)
  read_lines_sha1 / readLinesSHA1 / read_lines_sha256  props.c19.hash_leg: lists of str and of bytes lines (0 .. 4097 lines,
                                                       boundary lengths) against hashlib; indirectly by every hash check
  remote: file:///path, file://localhost/path,       replay + traces, rotating: plain, localhost, percent-encoded directory
    percent-encoded / raw space / '+' / non-ASCII,     name with space, '+', e-acute, '~' (also with the space left raw),
    '/./' and '//' in the path                         '/./' and '//' before the file name
  remote with a trailing slash                       out of domain: remote names a FILE ("URL, without the .gz suffix");
                                                       remote + '.gz' and remote + '.diff/Index' would name other files
  remote: http(s)/ftp URLs                           out of domain here: no network in the sandbox (urllib handles file://
                                                       through the same urlopen / urlretrieve calls)
  local: absolute path, relative path, './' + rel    replay + traces, rotating (the call runs with the scratch directory as cwd)
  local: os.PathLike / bytes                         out of domain: the signature documents `str` (local + '.new' is string
                                                       concatenation); observed: pathlib.Path raises TypeError as soon as the
                                                       file has to be written, the local file stays intact
  consecutive calls through DIFFERENT variants       two-call behaviours and two-call traces draw the variant per call
  patches_from_ed_script / patch_lines, PackageFile  property C18 / internal parser of the index (D6)

sizes:    (notes/SIZE_STRESS.md) the abstract cases do not change, the concretization has a size
          dimension in both legs.  Replay leg: every k-th behaviour also gets a size-stressed
          concretization (files of exactly 8 KiB / 64 KiB +-1, 100-4097 lines, identical lines, line
          lengths in boundary neighbourhoods up to 8193 / 65537, patch names of 1..250 characters,
          index size columns zero-filled to 9-12 digits, RLIMIT at byte 4096 / 8192 / 65536 +-1, the
          n-th write for a large n; a few around 1 MiB).  The abstract number of writes nw then
          counts DISTINGUISHED writes (first, ..., last or failing): the recorder reports only those,
          TLC's expectation is length-independent by construction.  Trace leg: a handful of big
          cases per run (c19_repo.BIG_MENU: 16 MiB / 100000 lines full download, one line of 1 MiB,
          100000 identical lines, 65536-character lines, histories of 200 / 50 / 12 / 10 versions
          with patch chains of 199 / 29 / 11 / 9 patches and an index of 199 entries, two calls on
          a 1 MiB file) recorded with the same abstraction and validated by TLC.
lines:    a line of a published text ends at '\\n' and nowhere else: the texts of all legs (replay, traces,
          size stress) contain lines with \\x0b \\x0c \\x1c \\x1d \\x1e and (UTF-8 locale) U+0085 U+2028 U+2029 at
          the start / in the middle / before the newline; in a third of the histories such a line is added at
          the top by the second version so that the later patches of a chain edit lines below it; the
          returned list must be the current content cut at '\\n' only.
domain:   D6 (unusable index = absent, empty, or rejected by the PackageFile grammar), D7 (no line
          that is exactly '.'); texts are newline-terminated lines without '\\r'.
"""
import copy
import json
import multiprocessing
import os
import time

import core
import c19_repo as R

MANIFEST = dict(
    technique="TLA+ spec UpdateFile (one action per step of update_file/download_file/replace_file over the file-system variables local and local+'.new', one fault per behaviour) model-checked by TLC in a closed configuration; every terminal behaviour replayed into the real function on generated file:// repositories with injected faults (wrapped open/rename and RLIMIT_FSIZE); recorded executions validated by TLC (TraceUpdateFile)",
    text="TLC explores every call of update_file over all histories of at most 4 published versions (content ids, repeats allowed) x how far back the index reaches x local copy absent / at any version / current / foreign x one fault (each patch corrupted or truncated, last patch consistent with the index but producing a wrong result, wrong Current hash, index missing / garbage / empty, open, k-th write, close or rename failing) and checks in every state that the local file is the old or the new content, that a returned call left and returned the current content, that a raised call left the local file untouched and no '.new', that exactly the reached hash and write faults raise, and that every call terminates. A second configuration lets the repository move on after the first call (a version appended under the same URL, under another URL, or another repository) and runs a second call in the same process from the file system the first one left, with the same invariants per call and a fault in either call. Each terminal behaviour, with TLC's terminal state as expectation, is concretized (texts, ed scripts from an independent differ, gzip files, Index in SHA1/SHA256 flavours, field order, padding) and replayed into the real function, write faults both through a wrapped open()/os.rename and implementation-agnostically through RLIMIT_FSIZE in a forked child; two-call behaviours run in one Python process on the same local path with the repository rewritten in between. Every k-th behaviour is additionally replayed in a size-stressed concretization (files of exactly 8 KiB / 64 KiB, thousands of lines, identical lines, boundary line lengths up to 65537, patch names of 1-250 characters, 9-12 digit size columns, write faults at byte 4096 / 8192 / 65536 and at the n-th write for large n); the model's number of writes then counts distinguished writes, so TLC's expectation is length-independent. In the other direction a handful of big cases per run (16 MiB / 100000-line full download, a 1 MiB line, 200-version history with a chain of 199 patches, ...) and random histories of up to 8 versions and 30 lines with a random fault (half of them followed by a second call after the repository moved on) are executed with a recorder on the file-system and download calls and TLC must explain the observed step sequence and final state with the specification's actions.",
    note="Small-scope for the exhaustive part (<= 4 versions, 0-3 write calls); texts are sampled. Verdict observables: outcome, local file bytes, returned lines, '.new' after an error; step order, exception types, '.new' after success and left-over download temp files are diagnostics (spec_drift). Unspecified and not generated: indexes that parse but have a wrong column count or name unknown patches (D6), lines that are exactly '.', '\\r', non-UTF-8 local files, missing patch files. Write faults injected through wrappers count only when the wrapper fired (else skipped; > 5 % skipped is a machinery failure). Every public entry point is exercised (table in the module docstring): update_file with every spelling of verbose, the deprecated aliases, download_file and replace_file as verdict legs of their own with the same fault injection, download_gunzip_lines and the hash helpers, equivalent spellings of the file:// URL and of the local path, rotating over the behaviours and mixed within two-call behaviours; a run in which a variant was never exercised is a machinery failure. The two-call model is small (<= 3 versions, one write, at most one faulty call); the quick tier replays a seeded stratified sample of its behaviours. Spec-level negative controls (five, incl. RememberIndex: index of the first call re-used by the second; two of them in the quick tier) and corrupted control traces (incl. a stale second call) are required to fail in every run.",
    design="5 (C19)")

NEG_CONTROLS = [("noCleanup", "NeverCorrupt"), ("skipVerifyResult", "Converges"),
                ("renameBeforeVerify", "NeverCorrupt"), ("skipVerifyPatch", "GarbledNeverApplied")]
ALL_FLAVOURS = [["SHA1"], ["SHA256"], ["SHA1", "SHA256"]]


def flavour_sets(ctx):
    """SHA1 and SHA256 indexes are both in the property's domain (every current archive publishes
    SHA256-*).  An interpreter on which debian_support cannot hash SHA256 makes update_file raise
    NotImplementedError on such an index: that is a violation (it was one on Python 3.12 until
    /repo commit 47d28db), not a reason to narrow the check."""
    ctx.extra["sha256_supported"] = True
    return ALL_FLAVOURS


def _cfg(name, **subst):
    """text of spec/<name> with the given constants replaced"""
    out = []
    for ln in open(os.path.join(core.SPEC, name)).read().splitlines():
        for k, v in subst.items():
            if ln.strip().startswith(k + " ="):
                ln = "  %s = %s" % (k, v)
        out.append(ln)
    return "\n".join(out) + "\n"


def tla_set(sets):
    return "{" + ", ".join("{" + ", ".join('"%s"' % x for x in s) + "}" for s in sets) + "}"


def neg_cfg(mode, inv, maxn):
    return ("SPECIFICATION SpecD\nCONSTANTS\n  MaxN = %d\n  Sizes = {0, 2}\n  FlavourSets = {{\"SHA1\"}}\n"
            "  Mode = \"%s\"\n  Runs = 1\n  FaultKinds = {\"none\", \"patchCorrupt\", \"patchTruncated\", \"badLastPatch\", \"wrongResultHash\", \"indexMissing\", \"indexGarbage\", \"indexEmpty\", \"writeFails\", \"renameFails\"}\n  FlavourPhase = 9\n  Entries = {\"update_file\"}\n  RememberIndex = FALSE\n  Emit = FALSE\n  EmitEvery = 1\n  EmitPhase = 0\nINVARIANT %s\n" % (maxn, mode, inv))


# ------------------------------------------------------------------ trace leg helpers
# a trace is {"runs": [call, ...]}: consecutive calls of one process; call = {in, obs, events, out}

def corrupt(t, how):
    """negative controls: executions the specification must NOT accept"""
    t = copy.deepcopy(t)
    last = t["runs"][-1]
    o = last["out"]
    cur = last["in"]["hist"][-1]
    if how == "outcome":
        if o["pc"] == "returned":
            o["pc"], o["ret"] = "raised", R.ABSENT
        else:
            o["pc"], o["ret"] = "returned", o["local"]
        return t
    if how == "local" and (o["pc"] == "returned" or last["in"]["local0"] != cur):
        o["local"] = R.GARBAGE if o["pc"] == "returned" else cur
        return t
    if how == "dotnew" and o["pc"] == "raised":
        o["dotNew"] = "present"
        return t
    if how == "ret" and o["pc"] == "returned":
        o["ret"] = R.GARBAGE
        return t
    if how == "faultless" and o["pc"] == "raised":
        last["in"]["fault"] = {"k": "none", "i": 0}
        return t
    if how == "stale" and len(t["runs"]) == 2:
        # the second call behaves as if the repository had not moved on: it leaves / returns what the
        # first call published (what a cache shared between the calls would produce)
        first = t["runs"][0]
        old = first["in"]["hist"][-1]
        if first["out"]["pc"] == "returned" and o["pc"] == "returned" and old != cur:
            o["local"] = o["ret"] = old
            last["events"] = []
            last["obs"] = {"fs": False, "net": False}
            return t
        return None
    if how == "first" and len(t["runs"]) == 2:
        # a corrupted FIRST call must be noticed even when the second call is fine
        fo = t["runs"][0]["out"]
        if fo["pc"] == "returned":
            fo["ret"] = R.GARBAGE
            return t
        return None
    ev = last["events"]
    if how == "swap" and last["obs"]["fs"]:
        for j in range(1, len(ev)):
            if ev[j]["a"] == "Rename" and ev[j - 1]["a"] in ("CloseNew", "WriteNew"):
                ev[j], ev[j - 1] = ev[j - 1], ev[j]
                return t
    if how == "drop" and last["obs"]["fs"]:
        for j in range(len(ev)):
            if ev[j]["a"] == "WriteNew":
                del ev[j]
                return t
    return None


def slim(t):
    return {"runs": [{k: r[k] for k in ("in", "obs", "events", "out")} for r in t["runs"]]}


def coarse(t):
    return {"runs": [{"in": r["in"], "obs": {"fs": False, "net": False}, "events": [], "out": r["out"]} for r in t["runs"]]}


def validate(ctx, traces, with_controls=True):
    """returns (violating ids, drift ids, progress info) -- ids are 1-based positions"""
    controls = []
    if with_controls:
        for how in ("outcome", "local", "dotnew", "ret", "faultless", "stale", "first", "swap", "drop"):
            for t in traces:
                c = corrupt(slim(t), how)
                if c:
                    controls.append(c)
                    break
    acc, _, _ = core.validate_traces(ctx, "TraceUpdateFile", "TraceUpdateFile.cfg", [slim(t) for t in traces],
                                     extra_env={"TRACE_DIAG": "0"}, controls=controls)
    rejected = [i for i in range(1, len(traces) + 1) if i not in acc]
    if not rejected:
        return [], [], {}
    # verdict observables alone
    sub = [coarse(traces[i - 1]) for i in rejected]
    acc2, prog, _ = core.validate_traces(ctx, "TraceUpdateFile", "TraceUpdateFile.cfg", sub,
                                         extra_env={"TRACE_DIAG": "1"})
    bad, drift, info = [], [], {}
    for j, i in enumerate(rejected):
        if (j + 1) in acc2:
            drift.append(i)
        else:
            bad.append(i)
            info[i] = prog.get(j + 1, 0)
    return bad, drift, info


def short_in(i):
    """input record with a long history abbreviated (messages)"""
    h = i["hist"]
    if len(h) > 12:
        i = dict(i, hist="%r..%r (%d versions, %d distinct)" % (h[:3], h[-2:], len(h), len(set(h))))
    return i


def hash_leg(ctx, rng, n):
    """read_lines_sha1 / readLinesSHA1 / read_lines_sha256 on lists of str and of bytes lines against
    hashlib (reference library): the helpers the hash checks of update_file rest on, incl. the alias"""
    import hashlib
    import warnings
    from debian import debian_support as ds
    for j in range(n):
        kind = j % 5
        if kind == 0:
            lines = []
        elif kind == 1:
            lines = R.big_lines(rng, [rng.choice(R.BOUNDARY_LENS + R.BIG_LENS) for _ in range(rng.randint(1, 12))])
        elif kind == 2:
            lines = R.big_lines(rng, R.length_list(rng, rng.choice([1000, 4097]), "short"))
        else:
            lines = [R.rand_line(rng) for _ in range(rng.randint(1, 30))]
        as_bytes = j % 2 == 1
        data = "".join(lines).encode("utf-8")
        arg = [x.encode("utf-8") for x in lines] if as_bytes else lines
        for name, ref in (("read_lines_sha1", hashlib.sha1), ("readLinesSHA1", hashlib.sha1), ("read_lines_sha256", hashlib.sha256)):
            m = hash_check(name, arg, ref(data).hexdigest())
            ctx.case_seen(("hash", j, name), True)
            if m:
                ctx.violation({"kind": "hash", "fn": name, "lines": lines, "as_bytes": as_bytes}, m)
                return


def hash_check(name, arg, want):
    import warnings
    from debian import debian_support as ds
    try:
        with warnings.catch_warnings():
            warnings.simplefilter("ignore")
            got = getattr(ds, name)(list(arg))
    except Exception as e:      # an observation
        return "%s(%d %s lines) raised %s: %s" % (name, len(arg), "bytes" if arg and isinstance(arg[0], bytes) else "str",
                                                  type(e).__name__, str(e)[:150])
    if got != want:
        return "%s(%d %s lines) = %r, hashlib gives %r" % (name, len(arg), "bytes" if arg and isinstance(arg[0], bytes) else "str",
                                                        got, want)
    return None


def stuck_at(n):
    return "call %d, after %d specification steps" % (n // 1000 + 1, n % 1000)


# ------------------------------------------------------------------ the check

def run(ctx):
    quick = ctx.tier == "quick"
    ctx.assumptions += [
        "closed model: histories of <= 4 versions (content ids, repeats allowed) x index depth x local position x one fault x 0-3 write calls; texts, ed scripts and index layout are sampled (seeded)",
        "two consecutive calls in one process: <= 3 versions at the second call, the repository appends a version under the same URL / the client turns to another URL / to another repository, at most one of the two calls has a fault; the quick tier replays a seeded stratified sample of these behaviours, the thorough tier all of them",
        "D6: an index that parses but has a wrong column count or names unknown patches is unspecified (not generated); D7: no line that is exactly '.'; texts are newline-terminated lines without carriage returns; local files are UTF-8 text",
        "a write fault injected through the open()/os.rename wrappers counts only when the wrapper fired; RLIMIT_FSIZE faults are implementation-agnostic (used for single calls and for the last call of a sequence: the forked child does not carry module state over)",
        "trusted: TLC, gzip/hashlib/difflib (and diff -e) as repository builders, the projection of file bytes to content ids",
    ]
    flavs = flavour_sets(ctx)
    nproc = 6 if quick else 10
    pool = multiprocessing.get_context("fork").Pool(nproc)
    try:
        _run(ctx, quick, flavs, pool)
    finally:
        pool.terminate()
        pool.join()


def _cases(r):
    uniq = {}
    for c in r.printed.get("CASE", []):
        uniq.setdefault(json.dumps(c, sort_keys=True), c)
    cases = list(uniq.values())
    cases.sort(key=lambda c: json.dumps([c.get("prev", {}).get("in"), c["in"]], sort_keys=True) + c["pc"] + str(len(c["path"]))
               + str(len(c.get("prev", {}).get("path", []))))
    return cases


def _sample2(rng, cases2, budget):
    """seeded stratified sample of the two-call behaviours (quick tier)"""
    groups = {}
    for i, c in enumerate(cases2):
        p = c["prev"]
        key = (c["in"]["rep"], p["in"]["entry"], c["in"]["entry"], p["in"]["fault"]["k"], c["in"]["fault"]["k"], p["pc"], c["pc"],
               p["in"]["local0"] == R.ABSENT, any(x["a"] == "FullDownload" for x in p["path"]),
               any(x["a"] == "FullDownload" for x in c["path"]), c["in"]["hist"][-1] == p["in"]["hist"][-1])
        groups.setdefault(key, []).append(i)
    keys = sorted(groups, key=repr)
    for k in keys:
        rng.shuffle(groups[k])
    picked = []
    depth = 0
    while len(picked) < budget:
        added = False
        for k in keys:
            if depth < len(groups[k]) and len(picked) < budget:
                picked.append(groups[k][depth])
                added = True
        if not added:
            break
        depth += 1
    return sorted(picked), len(keys)


def _run(ctx, quick, flavs, pool):
    phase = ctx.extra.setdefault("phase_wall_s", {})
    t0 = time.time()
    # 1. emission: every terminal behaviour of the closed models, with TLC's terminal state; the
    #    single-call model and the model of two consecutive calls are emitted side by side
    from concurrent.futures import ThreadPoolExecutor
    emit_cfg = _cfg("MC_UpdateFile_emit_quick.cfg" if quick else "MC_UpdateFile_emit.cfg", FlavourSets=tla_set(flavs),
                    FlavourPhase=str(ctx.seed % 3))   # one flavour set per input, rotating (all three: MC_UpdateFile.cfg)
    def neg(mode, inv):
        if mode == "RememberIndex":
            cfg = _cfg("MC_UpdateFile_runs.cfg", RememberIndex="TRUE", Emit="FALSE")
            cfg = cfg[:cfg.index("INVARIANTS")] + "INVARIANT %s\n" % inv
        else:
            cfg = neg_cfg(mode, inv, 1 if quick else 2)
        r = ctx.tlc("UpdateFile", cfg, workers=1, count=False)
        if r.violated != inv:
            raise core.MachineryError("negative control %s: expected %s to fail, TLC says %r" % (mode, inv, r.violated))
        return inv
    # all TLC processes are started now and run side by side (the design-level ones do not depend on
    # /repo); the replays start as soon as the first emission is there
    controls = ([NEG_CONTROLS[0]] if quick else NEG_CONTROLS) + [("RememberIndex", "Converges")]
    ex = ThreadPoolExecutor(5 + len(controls))
    f1 = ex.submit(ctx.tlc_must_hold, "UpdateFile", emit_cfg, workers=1, want_tags={"CASE"}, count=False)
    f2 = ex.submit(ctx.tlc_must_hold, "UpdateFile", _cfg("MC_UpdateFile_runs_quick.cfg" if quick else "MC_UpdateFile_runs.cfg", FlavourSets=tla_set(flavs[:1]),
                        EmitPhase=str(ctx.seed % 5) if quick else "0"),
                   workers=3 if quick else 1, want_tags={"CASE"}, count=False)
    f_main = ex.submit(ctx.tlc_must_hold, "UpdateFile", "MC_UpdateFile_quick.cfg" if quick else "MC_UpdateFile.cfg",
                       workers=4 if quick else 8, count=False)
    # termination under weak fairness: quick <= 3 versions, thorough <= 4 versions
    f_live = ex.submit(ctx.tlc_must_hold, "UpdateFile",
                       _cfg("MC_UpdateFile_live.cfg", MaxN=2) if quick else "MC_UpdateFile_live.cfg", workers=2, count=False)
    f_neg = {mode: ex.submit(neg, mode, inv) for mode, inv in controls}
    try:
        _run2(ctx, quick, flavs, pool, phase, t0, f1, f2, f_main, f_live, f_neg)
    finally:
        ex.shutdown(wait=True, cancel_futures=True)


def _run2(ctx, quick, flavs, pool, phase, t0, f1, f2, f_main, f_live, f_neg):
    r_emit = f1.result()
    cases = _cases(r_emit)
    if not cases:
        raise core.MachineryError("UpdateFile emitted no CASE lines")
    phase["emission"] = round(time.time() - t0, 1)
    # size stress, trace leg: the handful of really big / long cases go to the pool first
    topts = {"flavour_sets": flavs, "diff_e": not quick}
    bigs = [("big", w, 0) for w in R.BIG_MENU[:10]] if quick else [("big", w, j) for w in R.BIG_MENU for j in range(3)]
    big_async = pool.map_async(R.record_chunk, [(ctx.work, ctx.seed, [b], topts) for b in bigs], chunksize=1)
    nvar = 1 if quick else (2 if len(cases) < 20000 else 1)
    every, every_heavy = (25, 2000) if quick else (10, 500)
    tasks = []
    for idx, c in enumerate(cases):
        if quick:       # every behaviour once, plainest and sampled concretization alternating
            vs = ["canonical"] if (idx + ctx.seed) % 2 == 0 else ["random0"]
        elif nvar == 1:  # many behaviours (all hash flavours): sampled once, every fifth also in plainest form
            vs = ["random0"] + (["canonical"] if idx % 5 == 0 else [])
        else:
            vs = ["random0", "random1"] + (["canonical"] if idx % 3 == 0 else [])
        f = c["in"]["fault"]
        if f["k"] == "writeFails" and 1 <= f["i"] <= c["in"]["nw"]:
            vs.append("rlimit")
        if (idx + ctx.seed) % every == 3:            # size stress, replay leg: every k-th behaviour
            vs.append("stress")
        if (idx + ctx.seed) % every_heavy == 7:
            vs.append("stress-heavy")
        tasks += [(idx, c, v) for v in vs]
    opts = {"maxlen": 6, "diff_e": not quick}
    chunks = [tasks[i:i + 40] for i in range(0, len(tasks), 40)]
    replay_async = pool.map_async(R.replay_chunk, [(ctx.work, ctx.seed, ch, opts) for ch in chunks], chunksize=1)
    ntr = 300 if quick else 2000
    tchunks = [list(range(i, min(ntr, i + 25))) for i in range(0, ntr, 25)]
    trace_async = pool.map_async(R.record_chunk, [(ctx.work, ctx.seed, ch, topts) for ch in tchunks], chunksize=1)

    # 1b. two consecutive calls in one process (the repository moves on in between)
    r_runs = f2.result()
    cases2 = _cases(r_runs)
    if not cases2 or any(c.get("prev", {}).get("pc", "none") == "none" for c in cases2):
        raise core.MachineryError("UpdateFile (Runs = 2) emitted no / malformed two-call CASE lines")
    phase["emission_two_calls"] = round(time.time() - t0, 1)
    if quick:
        picked, ngroups = _sample2(ctx.rng, cases2, 600)
    else:
        picked, ngroups = list(range(len(cases2))), None
    tasks2 = []
    for j, i in enumerate(picked):
        tasks2.append(("two-%d" % i, cases2[i], "canonical" if (quick and j % 3 == 0) else "random0"))
        if j % 10 == 5:
            tasks2.append(("two-%d" % i, cases2[i], "stress"))
        if not quick and j % 3 == 0:
            tasks2.append(("two-%d" % i, cases2[i], "canonical"))
    chunks2 = [tasks2[i:i + 30] for i in range(0, len(tasks2), 30)]
    replay2_async = pool.map_async(R.replay_chunk, [(ctx.work, ctx.seed, ch, opts) for ch in chunks2], chunksize=1)

    # 2. design level (independent of /repo), while the pool replays; the TLC processes run side by side
    # 2. design level: collect
    t1 = time.time()
    r_main, r_live = f_main.result(), f_live.result()
    neg = {mode: f.result() for mode, f in f_neg.items()}
    phase["wait_for_design_tlc"] = round(time.time() - t1, 1)
    for r in (r_emit, r_runs, r_main, r_live):          # counted here, not in the threads
        ctx.states += r.distinct
        ctx.transitions += r.generated
    ctx.extra["model"] = {"closed_config": {"MaxN": 3, "Sizes": [2] if quick else [0, 2], "FlavourSets": [["SHA1", "SHA256"]] if quick else ALL_FLAVOURS,
                                            "states": r_main.distinct, "depth": r_main.depth},
                          "termination_states": r_live.distinct,
                          "emission": {"MaxN": 2 if quick else 3, "Sizes": [0, 2] if quick else [0, 1, 3],
                                       "FlavourSets": flavs, "states": r_emit.distinct, "behaviours": len(cases)},
                          "two_calls": {"MaxN": 2, "Sizes": [1], "FlavourSets": flavs[:1], "states": r_runs.distinct,
                                        "behaviours": len(cases2), "replayed": len(picked), "strata": ngroups}}
    ctx.extra["spec_negative_controls_failed_as_required"] = neg

    # 3. spec -> code: collect the replays
    t2 = time.time()
    results = [x for ch in replay_async.get() for x in ch]
    results2 = [x for ch in replay2_async.get() for x in ch]
    phase["wait_for_replays_after_design"] = round(time.time() - t2, 1)
    results.sort(key=lambda x: (x["idx"], x["variant"]))
    results2.sort(key=lambda x: (int(x["idx"][4:]), x["variant"]))
    per_action, per_fault, outcomes, excs, status_n = {}, {}, {}, {}, {}
    for c in cases:
        for p in c["path"]:
            per_action[p["a"]] = per_action.get(p["a"], 0) + 1
        k = c["in"]["fault"]["k"]
        per_fault[k] = per_fault.get(k, 0) + 1
        outcomes[c["pc"]] = outcomes.get(c["pc"], 0) + 1
    skipped = 0
    seen_drift = set()
    for x in results + results2:
        two = isinstance(x["idx"], str)
        c = cases2[int(x["idx"][4:])] if two else cases[x["idx"]]
        ctx.case_seen(("behaviour", x["idx"], x["variant"]), True)
        status_n[x["status"]] = status_n.get(x["status"], 0) + 1
        for e in x["excs"]:
            excs[e] = excs.get(e, 0) + 1
        if x["status"] == "violation":
            if len(ctx.violations) < 5:
                ctx.violation({"kind": "behaviour", "case": c, "scenario": x["scenario"], "variant": x["variant"]}, x["msg"])
        elif x["status"] == "skipped":
            skipped += 1
            if "skipped" not in seen_drift:
                seen_drift.add("skipped")
                ctx.drift(x["msg"])
        elif x["status"] == "drift":
            key = x["msg"][:40]
            if key not in seen_drift:
                seen_drift.add(key)
                ctx.drift(x["summary"] + ": " + x["msg"])
    for want in ("returned", "raised"):
        for x in results:
            if cases[x["idx"]]["pc"] == want and cases[x["idx"]]["in"]["fault"]["k"] != "none" and x["variant"] != "canonical":
                ctx.sample("behaviour " + x["summary"])
                break
    for x in results2:
        c = cases2[int(x["idx"][4:])]
        if c["in"]["rep"] == "same" and c["in"]["fault"]["k"] != "none" and x["variant"] != "canonical":
            ctx.sample("two calls: " + x["summary"])
            break
    ctx.extra["behaviours_replayed"] = len(results) + len(results2)
    ctx.extra["two_call_behaviours_replayed"] = len(results2)
    ctx.extra["two_call_behaviours_by_kind"] = {k: sum(1 for x in results2 if cases2[int(x["idx"][4:])]["in"]["rep"] == k)
                                                for k in ("same", "mirror", "fresh")}
    ctx.extra["replay_status"] = status_n
    api_n = {}
    for x in results + results2:
        for a in x.get("apis", []):
            for key in ("fn", "verbose", "url", "local"):
                if key == "verbose" and a["entry"] != "update_file":
                    continue
                api_n["%s=%s" % (key, a[key])] = api_n.get("%s=%s" % (key, a[key]), 0) + 1
            api_n["args=%s" % ("keyword" if a.get("kw") else "positional")] = api_n.get("args=%s" % ("keyword" if a.get("kw") else "positional"), 0) + 1
    api_n["download_gunzip_lines / downloadGunzipLines checks"] = sum(1 for x in results + results2 if x.get("dgl"))
    ctx.extra["calls_per_api_variant"] = api_n
    missing = [v for v in (["fn=" + f for fs in R.ENTRY_FNS.values() for f in fs] + ["verbose=" + v for v in R.VERBOSE_FORMS]
                           + ["url=" + u for u in R.URL_FORMS] + ["local=" + l for l in R.LOCAL_FORMS]) if not api_n.get(v)]
    if missing:
        raise core.MachineryError("API variants never exercised in this run: %r" % missing)
    hash_leg(ctx, ctx.rng, 40 if quick else 400)
    ctx.extra["skipped_due_to_drift"] = skipped
    ctx.extra["model_steps_per_action"] = per_action
    ctx.extra["behaviours_per_fault"] = per_fault
    ctx.extra["model_outcomes"] = outcomes
    ctx.extra["observed_exception_types"] = excs
    nres = len(results) + len(results2)
    if skipped > 0.05 * max(1, nres) and not ctx.violations:
        raise core.MachineryError("%d of %d replays skipped: injected write faults do not reach the code (wrappers out of date)"
                                  % (skipped, nres))

    # 4. code -> spec: recorded executions validated by TLC
    traces = [t for ch in trace_async.get() for t in ch]
    traces.sort(key=lambda x: x[0])
    big_traces = [t for ch in big_async.get() for t in ch]
    big_traces.sort(key=lambda x: x[0])
    traces += big_traces
    idxs = [i for i, _ in traces]
    traces = [t for _, t in traces]
    phase["wait_for_traces"] = round(time.time() - t2, 1)
    t3 = time.time()
    bad, drift, info = validate(ctx, traces)
    phase["trace_validation"] = round(time.time() - t3, 1)
    ctx.traces += nres + len(traces)
    for i in range(len(traces)):
        ctx.case_seen(("trace", idxs[i]), True)

    def brief(t):
        return [{"in": short_in(r["in"]), "events": [(e["a"], e["i"]) for e in r["events"]][:12], "out": r["out"]} for r in t["runs"]]
    for t in traces:
        if len(t["runs"]) == 2 and t["runs"][0]["events"] and any(r["in"]["fault"]["k"] != "none" for r in t["runs"]):
            ctx.sample("recorded trace (two calls): " + json.dumps(brief(t), separators=(",", ":")))
            break
    ctx.extra["size_stress_cases"] = [{"case": t["big"], "calls": t["sizes"]} for _, t in big_traces]
    for _, t in big_traces[:2]:
        ctx.sample("size stress %s: %s -> %s" % (t["big"], json.dumps(t["sizes"], separators=(",", ":")),
                                                 json.dumps([r["out"] for r in t["runs"]], separators=(",", ":"))))
    for i in drift[:3]:
        t = traces[i - 1]
        ctx.drift("trace %s: step order not explained by the model (verdict observables are): %s"
                  % (idxs[i - 1], json.dumps(brief(t), separators=(",", ":"))[:1500]))
    allruns = [r for t in traces for r in t["runs"]]
    if any(r.get("new_after_success") for r in allruns):
        ctx.drift("local + '.new' left behind after a successful update")
    if any(r.get("tmp_left") for r in allruns):
        ctx.drift("download temp file left behind")
    for i in bad:
        t = traces[i - 1]
        if all(r["inject"] != "wrap" or not r["fired"] or (r["out"]["pc"] == "raised" and r["same"] and r["out"]["dotNew"] == "absent")
               for r in t["runs"]) and any(r["inject"] == "wrap" and r["fired"] for r in t["runs"]) and len(t["runs"]) == 1:
            ctx.drift("trace %s: injected fault fired where the model does not write; error raised with the local file intact" % idxs[i - 1])
            continue
        if len(ctx.violations) >= 5:
            break
        if isinstance(idxs[i - 1], tuple):      # a big case is regenerated from its recipe on replay
            cased = {"kind": "trace-big", "seed": ctx.seed, "which": idxs[i - 1][1], "rep": idxs[i - 1][2],
                     "sizes": t["sizes"], "trace": slim(t) if sum(len(r["in"]["hist"]) for r in t["runs"]) < 60 else None}
        else:
            sc = R.record_one(ctx.work, ctx.seed, idxs[i - 1], topts)[1]
            cased = {"kind": "trace", "scenario": sc, "trace": slim(t)}
        ctx.violation(cased,
                      ("size stress case %s %s: " % (t["big"], json.dumps(t["sizes"], separators=(",", ":"))) if "big" in t else "") +
                      "recorded execution not explained by UpdateFile (specification stuck at %s): %s"
                      % (stuck_at(info.get(i, 0)),
                         json.dumps([{"in": short_in(r["in"]), "out": r["out"]} for r in t["runs"]], separators=(",", ":"))))
    ctx.extra["traces_recorded"] = len(traces)
    ctx.extra["traces_with_two_calls"] = sum(1 for t in traces if len(t["runs"]) == 2)
    ctx.extra["traces_rejected"] = len(bad)
    ctx.extra["traces_with_step_drift"] = len(drift)
    ev_n = {}
    for r in allruns:
        for e in r["events"]:
            ev_n[e["a"]] = ev_n.get(e["a"], 0) + 1
    ctx.extra["observed_steps_per_action_in_traces"] = ev_n
    ctx.extra["calls_by_outcome"] = {o: sum(1 for r in allruns if r["out"]["pc"] == o) for o in ("returned", "raised")}
    ctx.extra["calls_by_injection"] = {m: sum(1 for r in allruns if r["inject"] == m) for m in ("none", "wrap", "rlimit")}


def replay(ctx, case):
    flavour_sets(ctx)
    msc = case.get("scenario")
    if case["kind"] == "behaviour":
        res = R.judge_multi(msc, R.split_case(case["case"]), R.run_multi(ctx.work, msc))
        if res["status"] == "violation":
            return res["msg"]
        return None
    if case["kind"] == "hash":
        import hashlib
        lines = case["lines"]
        arg = [x.encode("utf-8") for x in lines] if case["as_bytes"] else lines
        ref = hashlib.sha256 if "256" in case["fn"] else hashlib.sha1
        return hash_check(case["fn"], arg, ref("".join(lines).encode("utf-8")).hexdigest())
    if case["kind"] in ("trace", "trace-big"):
        if case["kind"] == "trace-big":
            t = R.record_big(ctx.work, case["seed"], case["which"], case["rep"])[0]
        else:
            t = R.trace_multi(ctx.work, msc)
        bad, _, info = validate(ctx, [t], with_controls=False)
        if bad:
            return ("recorded execution still not explained by UpdateFile (stuck at %s): %s"
                    % (stuck_at(info.get(1, 0)), json.dumps([r["out"] for r in t["runs"]])))
        return None
    return "unknown case kind"
