"""C08 -- an accepted field value can never inject fields or split the paragraph.

spec:      spec/Deb822Value.tla   statement layer (EndsLF / HasEmptyLine / HasUnindentedCont /
                                  BlankCont, Classify) + transcription layer (Validate =
                                  validate_input, Dump = _dump_format, ReadBack = iter_paragraphs /
                                  _skip_useless_lines / split_gpg_and_payload / _internal_parser for
                                  str input (splitlines) and file input (lines end at LF only), with
                                  whitespace-separates-paragraphs TRUE / FALSE) over code points
           spec/TraceDeb822Value.tla  trace validation on concrete code points
binding:   (a) one CASE line per value (every value up to length 5 / 6 over x : # space tab CR LF;
               classification, model verdict and expected key list computed by TLC) replayed into
               Deb822 and Dsc: assigned to the first / middle / last field of a three-field
               paragraph, x concretized to printable ASCII / non-ASCII; accepted <=> classification,
               ValueError leaves list(d.items()) unchanged, on accept the dump is read back with
               Deb822.iter_paragraphs from str, io.StringIO and io.BytesIO with
               whitespace-separates-paragraphs False and with the default setting;
           (b) random assignment histories on two live objects (Deb822 / Dsc / Changes) interleaved
               with multivalued-key assignments to throw-away objects, values re-used across keys,
               objects and classes and repeated after rejections (values up to 40 characters over
               the domain, new and existing keys) recorded from the real classes and validated by
               TLC, which evaluates Classify / Validate / ReadBack on the concrete code points.  Drawn within these
               histories (round 7): CHAINS of assignments to one key whose values extend / are prefixes of / share a
               prefix with the stored one, cut at every line-boundary character (LF, CR, CRLF), and merge_fields --
               in place ("merge" events: the library computes and assigns the value) and in its 3-argument form
               followed by the assignment of what it returned.
           (a') spec/Deb822ValueHist.tla: the verdict of an assignment is HISTORY-FREE (closed LTS over
               three live objects, keys A / N (absent) / Files, three values, multivalued-key
               assignments to throw-away objects; implementation layer with a process-wide memo as
               negative control).  Walks through the emitted LTS are replayed on live Deb822 / Dsc /
               Changes objects: after EVERY step the outcome, the paragraphs of all live objects
               (atomicity, nothing left behind, no aliasing) and the read-back verdicts.
           (a'') the same module with CONSTRUCTION (MC_Deb822ValueHist_build.cfg: keys A / Files, closed):
               Fresh(o, how) -- a live paragraph is replaced by an EMPTY one of its class, how = noarg /
               parsed (the parsing constructor over field-less input) / cleared -- and Rebuild(o, q, c, x)
               -- it is replaced by Cls(M), M a mapping carrying the fields of live object q, optionally
               with Files |-> x, c = plain mapping / a paragraph in whose class Files is an ordinary field /
               a paragraph in whose class Files is MULTIVALUED (raw x, never validated).  Reference:
               building from a mapping assigns every field (verdict = target class + values, never the
               carrier's class), an empty paragraph validates like any other however it came to be empty.
               Walks through this LTS are replayed like (a'), "Files" being played by every multivalued
               field of every class (FAMILY_KEYS), Fresh by 47 concrete ways (EMPTY_WAYS), the carriers by
               dict / Deb822Dict / OrderedDict / UserDict / MappingProxyType / ChainMap / user-defined
               Mapping / live objects / throw-away paragraphs of every class.  The recorded traces (b)
               contain the same two kinds of event ("fresh", "build") and TLC validates them
               (TraceDeb822Value: FreshChecks / BuildChecks); the CASE replay has the route ctor-para
               (Cls(paragraph of another class holding the value under a key multivalued THERE)) and start
               paragraphs that were empty first (BUILD_KINDS empty-*).
faults:    (SIZE_STRESS part 5) objects the CALLER supplies fail at one point, then the history carries on.
           Deb822ValueHist.FaultDump(o, k): o.dump(fd), fd failing while field k is written -- in both LTSs, as
           ordinary steps of the walks (about every 9th step), as "faultdump" events of the recorded traces
           (TraceDeb822Value: FaultChecks) and in front of the real dump of every third CASE replay.  File objects
           (FAULT_KINDS, rotating): capacity-limited twins of io.BytesIO / io.StringIO / write()-only objects that
           store what fits and raise OSError(ENOSPC / EPIPE / EIO), ValueError (closed), KeyError, RuntimeError,
           a private exception class -- or return a SHORT count --, the room ending before / one unit into / in the
           middle of / one unit before the end of the first, a middle or the last field (placed in units of text, not
           in calls: a library writing the whole text at once meets the fault all the same); objects failing by
           their nature at the first write: io.StringIO / a real text file without text_mode, io.BytesIO with
           text_mode=True, a closed file, a file opened for reading, unbuffered /dev/full, encoding='ascii' over
           non-ASCII text.  Verdict for the failed call: the caller's fault comes out as the file object produced
           it (the very exception instance; a plain return for a short count) and nothing else; every paragraph is
           what it was; the NEXT dump of the object (rotating output form) reads back as one paragraph with all its
           field names.  What reached the failing file object is not judged.  FaultBuild(o, q, k) (construction
           LTS): Cls(M), M a mapping of the caller raising at its k-th item (__getitem__ / iteration / lazy items()
           / dict subclass): the exception instance comes out, no object is built, nothing changed.
           Not applied: faults of the file objects a dump is READ BACK from (the reader is only the observation
           channel here; C02 / C06 own it); update(M) with a failing M (MutableMapping.update is item-wise by
           Python's definition: the statement does not decide what a half-consumed mapping leaves behind).
sizes:     (notes/SIZE_STRESS.md) the abstract cases stay small; every 8th (quick) / 6th CASE line and
           every 3rd walk get a size-stressed concretization -- payload runs at 1..8193 and 64 KiB,
           the first special character at offset 4095/4096/4097, a continuation line repeated
           2..257 / 1000 times, field names of 31..1024 characters, paragraphs of 9..257 / 1000
           fields.  These go through the replay legs only: their expectation is the one TLC computed
           for the small value, length-independent by the size lemmas of Deb822Value
           (StretchInvariant, RepeatInvariant).  TLC scans only short strings (traces: values <= 40,
           field names <= 65 characters).
ways:      an accepted value's dump is read back with Deb822.iter_paragraphs (str / StringIO / BytesIO,
           both settings) AND through the ways the producing class itself offers -- Cls(x, strict) and
           Cls.iter_paragraphs(x, strict) for x = str / bytes / text.splitlines(True) / StringIO /
           BytesIO, strict by keyword and positionally -- for Deb822, Dsc, Changes, BuildInfo,
           Release, PdiffIndex (rotating: two ways per replay, one per trace event, two per walk
           read-back).  The model has the same dimension (Ways: plain classes vs. the gpg-aware ones
           with their pre-pass), checked up to GpgLen.  Positional strict on a gpg-aware class built
           from a list / file was a genuine defect this check found (repaired in /repo 2236619).
alignment: (SIZE_STRESS part 4) size dimension "align": the first field is padded so that a line end of the
           dump -- inside the assigned value, at the end of the assigned field, between the two fields in
           front of it, at the very end -- falls exactly at / one before / one after a byte offset 2^k,
           k = 9..17; such texts are read back through StringIO / BytesIO and two rotating KINDS of file
           object: real file buffered / unbuffered / text mode, io.BufferedReader over a raw stream giving
           1..7 bytes per read, gzip / bz2 / lzma wrappers, SpooledTemporaryFile, generators of str / bytes
           lines (all of them also rotate through every other leg).  Expectation unchanged (form-
           independent); evidence in ctx.extra["aligned_cases"] / ["file_object_kinds"].
characters: (SIZE_STRESS part 2) payload pools contain non-NFC text next to its precomposed twin,
           case-mapping hazards, U+FEFF / ZWJ / ZWNJ / ZWSP / soft hyphen / bidi marks, non-BMP and
           U+10FFFF; U+0400..U+043F (every UTF-8 trailing byte) rotate through the end of payload
           runs; field names that only a normalising reader confuses sit side by side; values with one
           boundary style throughout (CRLF / CR / LF), tab-only and mixed indentation, trailing tabs.
API surface (notes/API_SURFACE.md) -- every public way a field value enters or leaves a paragraph; all
in-domain rows are exercised in the QUICK tier on a rotating sample with the same verdicts, and mixed
within one history (legs: C = CASE replay, W = LTS walks on live objects, T = recorded traces):
  entry point / variant                                             exercised by / out of domain because
  ----------------------------------------------------------------  ------------------------------------
  value IN   d[k] = v  (Deb822.__setitem__ -> validate_input)        C W T (every class)
             d.update([(k, v)]) / update({k: v}) / update(**{k: v})  C W T (ASSIGN_ROUTES, rotating)
             d.setdefault(k, v) on an absent field                   C (last field) W T (new keys)
             d.setdefault(k, v) on a present field                   no assignment happens (falls back to d[k] = v)
             Cls({k: v, ...})  mapping constructor                   C (route ctor-map; ValueError required) W T (BUILD_KINDS)
             Cls(Deb822Dict / other paragraph)  mapping protocol     C (route ctor-copy) W T (ctor-obj) ; re-entry ctor-self / ctor-dict
             Cls(paragraph of ANOTHER class) -- every pair of classes,   C (route ctor-para) W T (Rebuild / "build"): in domain -- the statement is
                 the source holding a raw string under a key that is     about the paragraph being built: the key is an ordinary field of ITS
                 multivalued (unvalidated) in the SOURCE's class and      class, so the value must be validated / never inject, wherever it came
                 ordinary in the target's; Cls(live object of a           from.  ValueError required for the statement's three defects, and no
                 sub- / super- / sibling class); plain Mappings of        object is built; built -> one paragraph with the mapping's field names
                 every kind (dict, OrderedDict, UserDict, ChainMap,       out of domain: a key that is multivalued in the TARGET's class (the
                 MappingProxyType, user-defined Mapping)                  constructor restructures it, D3) -- never generated
             Cls(M) / Cls(sequence=M) / Cls(M, None) / Cls(M, fields=    W T (BUILD_STYLES, rotating)
                 None, encoding=) / Cls(M, strict=) / 5 positional
             an EMPTY paragraph, then filled by assignment: Cls(),       C (BUILD_KINDS empty-*) W T (Fresh / "fresh", EMPTY_WAYS rotating): in
                 Cls(None / {} / Deb822Dict() / OrderedDict() / empty    domain -- "any paragraph": validation and the round trip apply however
                 paragraph), copy / deepcopy / pickle of an empty one,   the paragraph came to be empty.  The empty paragraph itself has no text
                 Cls([] / '' / b'' / empty StringIO, BytesIO, real,      (dump() == ''): its round trip is not judged, only that it IS empty, of
                 unbuffered, spooled, gzip, bz2 file / blank lines /     the right class, and that nothing else changed
                 CRLF / whitespace-only lines / comments only / 8192-
                 byte comment / iter([]) / generator / fields= filter
                 hiding every field / strict kw + pos / sequence=),
                 d.clear(), del d[k], d.pop(k), d.popitem() to the end
             Cls([(k, v), ...])  sequence of pairs                   out of domain: Deb822.__init__ treats a non-mapping as LINES to
                                                                     parse (only the private Deb822Dict(_dict=...) takes pairs)
             Cls(text | bytes | lines | file, fields=, encoding=,    C W T: as read-back (WAYS) and as creation of the start object
                 strict=)  parsing constructor                       (BUILD_KINDS parse-str / parse-lines), strict by keyword and
                                                                     positionally, fields= naming every field, encoding='iso8859-1'
             fields= naming a SUBSET                                 out of domain: the statement promises the same names, a filter
                                                                     asks for fewer
             d.copy() / copy.deepcopy / pickle round trip / Cls(d)   C W T (REENTRIES): the copy reads back alike, assigning to it
                                                                     leaves the original alone; copy.copy is only READ (shallow by
                                                                     Python's definition: it shares the storage -- see report)
             Deb822Dict.__setitem__ / Deb822Dict(...)                out of domain: the plain mapping does not validate and cannot be
                                                                     dumped; used only as a mapping argument of the constructors
             values of multivalued fields (lists / dicts, or str     out of domain (D3, not validated by documentation); str values
                 under Files, Checksums-*, SHA256 ... of Dsc,        under such keys are executed on throw-away objects as history
                 Changes, BuildInfo, Release, PdiffIndex, Sources)   perturbation (W T)
             d.merge_fields(k, other) / mergeFields, IN PLACE,        T ("merge" events, TraceDeb822Value.MergeChecks): in domain as an
                 other = a paragraph of any class / of d's class /    entry point that ASSIGNS -- accepted => the value found under k has
                 the other live object / a plain mapping of every     none of the statement's defects, same field names, every read-back one
                 kind; k present in both, in one; multi-line          paragraph; else ValueError and nothing changed.  WHAT merge computes
                 operands sharing / adding first, middle, last        (and that it refuses single- vs multi-line operands) is X03's business;
                 lines, LF / CRLF; single-line lists                  k absent on both sides (KeyError by documentation) is never judged
             merged = x.merge_fields(k, d1, d2); d[k] = merged        T (an ordinary "assign" event with the value the library returned)
             the SAME key assigned again and again, the new value     T (gen_chain: 60 % of the recorded histories; every step an ordinary
                 extending the stored one / a prefix of it / sharing  event, verdict history-free) -- spec: Deb822ValueHist with UseExt (values
                 a prefix with it, cut in front of / behind every     "x\r" < "x\r x", "x\rx:x"; closed, keys A / Files) holds HistoryFree /
                 LF, CR and between CR and LF                         HistSound, negative control AppendFastPath violates them
             TagSectionWrapper / use_apt_pkg=True                    out of domain: python-apt is not installed in this image
  subclasses Deb822, Dsc, Changes, BuildInfo, Release, PdiffIndex,   C W T (ALL_CLASSES rotate in every leg)
             Sources, Packages, Removals
             debian.copyright / debian.deb822.RestrictedWrapper      out of domain: wrappers with their own field rules (C17)
             Cls(M), M failing at its k-th item                       W (FaultBuild): the caller's exception, no object, nothing changed
  text OUT   d.dump() / str(d) / d.__unicode__()                     C W T (DUMPS, rotating; __unicode__ = __str__)
             d.dump(fd) binary / d.dump(fd, encoding, False) /       C W T
                 bytes(d)
             d.dump(fd, text_mode=True)                              C W T
             d.dump(fd) / dump(fd=fd) / dump(fd, enc, False) /       C W T (FaultDump / "faultdump", FAULT_KINDS rotating): in domain -- the
                 dump(fd, text_mode=True) / dump(fd, None, True)     statement is about dumping "the paragraph": a dump that failed in the
                 with a FAILING fd (exception at the first / a       caller's file object must not change what the next dump writes (error
                 middle / the last field, short write, wrong kind    atomicity of the failed call, then the ordinary round trip)
                 of file, closed file, /dev/full, encoding that
                 cannot encode a field)
             d.dump(fd, encoding='iso8859-1') + reading with         C W T when every character is Latin-1 (else UnicodeEncodeError by
                 encoding='iso8859-1'                                documentation)
             d.get_as_string(k), d[k], d.get, items()                projection of the paragraph after every call (atomicity)
  read BACK  Deb822.iter_paragraphs(str | StringIO | BytesIO)        C W T (six read-backs per accepted value; TLC models them)
             Cls.iter_paragraphs / Cls(...) of the producing class   C W T (WAYS, rotating): str, bytes, lines with / without
                                                                     newlines, generator of str / bytes lines, StringIO, BytesIO, real
                                                                     text / binary / unbuffered file, BufferedReader over a short-read
                                                                     raw stream, GzipFile, BZ2File, LZMAFile, SpooledTemporaryFile;
                                                                     strict by keyword / positionally / omitted (Sources and Packages
                                                                     iterate leniently by default); shared_storage=True; fields=
             Deb822.split_gpg_and_payload / gpg_stripped_paragraph   indirectly: every read goes through them (the gpg-aware classes
                                                                     twice); armor itself is C02's subject
             is_single_line / isSingleLine / is_multi_line / ...     out of domain: predicates on strings, no paragraph involved
negative controls run in every check: NoIndentRule, AllowEndLF, ValidateLFOnly, ReaderNoWsRule must
and StrictDroppedInGpgClasses, PosStrictMissedByPrepass must make TLC report Sound violated,
MemoMode = "value" / "keyvalue", RejectStoresEmpty, DumpMemoPartial (the entries formatted before a failed write are
kept and replayed by later dumps: HistSound), TrustSourceClass (values of a carrier that is a paragraph of
the target's class or of a subclass are not validated) and ParseLeavesUnchecked (an object whose parsing
constructor met no field never validates again) HistoryFree, AppendFastPath (only the text appended to the value
stored under the key is validated) HistSound;
corrupted control traces (assignment, same-key chain, merge, fresh, build and faultdump events) must be rejected, a literal good one accepted.
"""
import io
import json
import os
import re
import time
import warnings
from concurrent.futures import ThreadPoolExecutor

import core

MANIFEST = dict(
    technique="TLA+ spec over code points (Deb822Value: statement layer + transcription of validate_input, _dump_format and the iter_paragraphs reader for str and file input with both whitespace settings; Deb822ValueHist: history-free assignment over several live paragraphs with a process-wide memo as implementation-layer negative control, plus construction actions -- a live paragraph replaced by an empty one or by one built from a mapping / a paragraph of any class -- with carrier-class trust and a stuck parser flag as negative controls, plus fault actions -- dump(fd) into a failing file object, a constructor handed a failing mapping -- with a partially filled dump memo as negative control) model-checked by TLC; bounded-exhaustive CASE lines and walks through the closed history LTS replayed into Deb822/Dsc/Changes/Release/BuildInfo/PdiffIndex with size-stressed concretizations; recorded multi-object assignment histories validated by TLC (TraceDeb822Value)",
    text="TLC enumerates every value up to length 5 (quick) / 6 (thorough) over the seven symbols x : # space tab CR LF, assigns it to the first, middle and last field of a three-field paragraph and checks on the transcription of the code that an accepted value, dumped and read back by the character-level model of iter_paragraphs (str.splitlines for str input, LF-terminated lines for file input), gives exactly one paragraph with the same field names when whitespace-only lines do not separate paragraphs, and under the default setting too when no continuation line is blank (Sound); that the three defects named by the statement imply rejection and that the validator's scanner equals the declarative characterisation (RejectComplete, RejectExact); that rejection leaves the paragraph unchanged; that the classification is independent of the length of payload runs and of the number of repetitions of a continuation line (size lemmas). A second module makes the assignment a history over three live paragraphs of two kinds of class (Files validated / Files multivalued and unvalidated) plus multivalued-key assignments to throw-away objects: the reference verdict is history-free, the closed state space is explored and memoising by value, by (key, value) or leaving an empty field behind after a rejection are shown to break it. With WithBuild = TRUE the same module has two construction actions -- Fresh (a live paragraph is replaced by an EMPTY one: no argument / parsing constructor over field-less input / cleared in place) and Rebuild (it is replaced by Cls(M) for a mapping M carrying another live paragraph's fields, optionally with a raw value under Files, M being a plain mapping, a paragraph where Files is ordinary or a paragraph where Files is multivalued and therefore unvalidated) -- whose reference outcome depends on the target class and the values only; trusting the carrier's class and a parser that leaves validation switched off after field-less input are the negative controls. The read-back operator has the class / constructor dimension (plain classes vs. the gpg-aware Dsc / Changes / BuildInfo whose constructor cuts the paragraph out in a pre-pass; constructor vs. iter_paragraphs; str vs. line input; strict reaching the pre-pass and the field parser), with negative controls for a strict that is dropped before the field parser and for a positional strict the pre-pass does not see (a genuine defect found by this check, repaired in /repo 2236619). Every CASE line is replayed into the real classes (Deb822, Dsc, Changes, BuildInfo, Release, PdiffIndex; the dump is read back with Deb822.iter_paragraphs and through the producing class's own constructor / iter_paragraphs from str, bytes, list, StringIO, BytesIO with strict by keyword and positionally; all three positions for what is accepted, several concretizations of x, d[k]=v and update(), every 8th/6th case size-stressed: payload runs up to 64 KiB, the first special character at offset 4095/4096/4097, 100/1000 continuation lines, field names up to 1024 characters, paragraphs of up to 1000 fields), walks through the history LTS and through the construction LTS (every multivalued field of every class playing Files, 47 ways to an empty paragraph, eight kinds of mapping plus live and throw-away paragraphs of every class as carriers) are replayed on three live objects with outcome, all paragraphs and the read-back verdicts checked after every step, and assignment histories recorded from two live objects of five classes (values up to 40 characters re-used across keys, objects and classes, repeated after rejections, new keys, multivalued-key assignments, empty-paragraph replacements and constructions from mappings in between) are validated by TLC on the concrete code points. Within these histories the same key is assigned repeatedly with values that extend the stored one, are prefixes of it or share a prefix with it, cut in front of and behind every LF / CR and between CR and LF (the history-free verdict does not depend on the stored value: Deb822ValueHist with the prefix chain 'x\\r' < 'x\\r x', 'x\\rx:x', negative control AppendFastPath), and merge_fields is exercised as an entry point that assigns -- in place with a paragraph of any class, the other live object or a plain mapping as operand (trace event merge: accepted => the stored value has none of the statement's defects, the field names are kept and every read-back is one paragraph, otherwise ValueError and nothing changed) and in its 3-argument form followed by the assignment of the returned value; what the merge computes is not judged. Faults of caller-supplied objects are ordinary steps of all three legs: dump(fd) with a file object that fails while the first / a middle / the last field is written (capacity-limited BytesIO / StringIO / write()-only objects raising OSError, ValueError, KeyError, RuntimeError, a private exception or returning a short count; text file without text_mode, closed file, /dev/full, unencodable field) and, in the construction LTS, Cls(M) with a mapping that raises at its k-th item -- the model actions FaultDump / FaultBuild leave every paragraph unchanged, the caller's fault must come out as it was produced and the next dump of the object must read back whole (negative control: a serialisation memo filled while the dump is consumed). Dumps whose line ends are aligned to byte offsets 2^k (k = 9..17, +-1) are read back through every kind of file object (buffered / unbuffered / text files, short-read readers, gzip / bz2 / lzma, spooled files, generators).",
    note="Small scope: values <= 6 symbols exhaustively, longer ones sampled; the history model has 3 objects x 3 keys x 3 values (closed), the construction model 3 objects x 2 keys x 3 values (closed). Sizes beyond ~40 characters are never scanned by TLC: they are concretizations of small abstract cases whose expectation is length-independent (size lemmas checked by TLC for one duplication step up to the bound -- evidence, not proof, for longer runs). Unspecified (executed, never judged on acceptance): 'zone' = a lone CR followed by something that is not indentation (rejected today), 'blank' = a whitespace-only continuation line (accepted today), any assignment to a multivalued key of its class (not validated today; likewise a constructor handed such a key, never generated); whatever is accepted on a validated key must still read back as one paragraph with the same keys. merge_fields: the merged value itself, the ValueError for single- against multi-line operands and the KeyError for a key absent on both sides are not judged (X03). Default-setting read-back is judged only when no value of the paragraph has a blank continuation line. Characters outside the property's domain (NBSP, VT, FF, U+0085, U+2028, other Unicode whitespace) are never generated. Trusted: TLC, the projections (list(d.items()), key lists of the paragraphs read back), the concretizer. Spec-level negative controls and corrupted control traces are run in every check.",
    design="5 (C08)")

X = 120
SPECIAL = {58, 35, 32, 9, 13, 10}
CLASSES = ("Deb822", "Dsc")
FORMS = ("s", "f", "b")                       # str, io.StringIO, io.BytesIO
RBNAMES = ("sF", "sT", "fF", "fT", "bF", "bT")
WS_FALSE = {"whitespace-separates-paragraphs": False}
JAVA_OPTS = ["-Xss32m"]                     # the reader model recurses per line / per character of a line

# field names that no class gives a special meaning on assignment
KEY_POOL = ["Source", "Binary", "Maintainer", "Version", "Homepage", "Standards-Version", "Format",
            "Architecture", "Uploaders", "Vcs-Git", "X-Comment", "Description", "Build-Depends",
            "Package", "Section", "Priority", "Testsuite", "a", "Zz9", "X-a_b.c+d"]
# field names that a normalising or over-eager case-folding reader would merge (all distinct under
# str.lower(), which is what the library may use); used as neighbours in the same paragraph
TWIN_KEYS = ["X-Caf\u00e9", "X-Cafe\u0301", "X-\u1100\u1161", "X-\uac00", "X-\ufb01le", "X-file", "X-\uff21bc", "X-Abc",
             "Stra\u00dfe", "Strasse", "X-\u0131d", "X-id", "X-\u017ft", "X-st", "X-\ufeffbom", "X-bom"]
# what the model's x stands for: payload -- not whitespace, not a line boundary, not ':' '#', never a
# DESIGN D1 character.  Character stress (notes/SIZE_STRESS.md part 2): text that is not NFC/NFKC
# stable next to its precomposed twin, case-mapping hazards, format characters (U+FEFF, ZWJ, ZWNJ,
# ZWSP, soft hyphen, bidi marks), non-BMP and the last code point; U+0400..U+043F (UTF-8 D0 80..D0 BF:
# every trailing byte) are rotated to the END of payload runs, i.e. of lines and values.
X_ASCII = [chr(c) for c in range(33, 127) if c not in (58, 35)]
X_OTHER = list("éßØЖΩ中日あ€—¿őא٣Ａ①") + ["\U0001F600", "\U00010400"]
X_HAZARD = ["e\u0301", "\u00e9", "a\u030a", "\u00e5", "\u212b", "\u2126", "\uf9d0", "\ufb01", "\uff21", "\u1100\u1161", "\uac00",
            "\u0130", "\u0131", "\u017f", "\u03c2", "\u03a3", "\U00010428", "\ufeff", "\u200d", "\u200c", "\u200b", "\u00ad",
            "\u200e", "\u200f", "\u202e", "\U0010ffff", "\u0301", "\u00c2", "\u00df", "\u1e9e"]
X_TAIL = [chr(c) for c in range(0x400, 0x440)] + ["\u0800", "\U00010000", "\u07ff", "\uffff"]
_tail_clock = [0]


def tail_char():
    """the next of U+0400..U+043F (and a few lead-byte neighbours), in rotation"""
    _tail_clock[0] += 1
    return X_TAIL[_tail_clock[0] % len(X_TAIL)]


def _check_pools():
    for ch in X_ASCII + X_OTHER + X_HAZARD + X_TAIL:
        if any(c.isspace() or c in ":#" or len(c.splitlines()) != 1 or 0xD800 <= ord(c) <= 0xDFFF for c in ch) or not ch:
            raise core.MachineryError("concretizer pool contains %r, which is outside the domain of C08" % ch)
    low = [k.lower() for k in KEY_POOL + TWIN_KEYS]
    if len(set(low)) != len(low):
        raise core.MachineryError("key pool not unique up to case")


def pick_x(rng):
    r = rng.random()
    if r < 0.6:
        return rng.choice(X_ASCII)
    if r < 0.78:
        return rng.choice(X_OTHER)
    if r < 0.9:
        return rng.choice(X_HAZARD)
    return tail_char()


def cp(s):
    return [ord(c) for c in s]


def txt(a):
    return "".join(map(chr, a))


def show(s):
    return json.dumps(s, ensure_ascii=True)


# ------------------------------------------------------------------ driving the real classes

def get_class(name):
    import debian.deb822 as m
    return getattr(m, name)


WORKDIR = [os.path.join(core.VERIF, ".work")]          # real files for the file-object input forms (set by run)
KNOWN_POS_STRICT = "C08-positional-strict-gpg-prepass"

# ---- how a value ENTERS a paragraph
ASSIGN_ROUTES = ("setitem", "update", "update-map", "update-kw", "setdefault", "ctor-map", "ctor-copy", "ctor-para")
BUILD_KINDS = ("assign", "ctor-map", "ctor-obj", "parse-str", "parse-lines", "update", "empty-parsed", "empty-noarg", "empty-cleared")


def build(clsname, pairs, kind="assign", sel=0):
    """a paragraph of class clsname holding `pairs`, created through one of the public ways"""
    cls = get_class(clsname)
    if kind.startswith("empty-"):                            # an EMPTY paragraph first (every way to get one), then filled
        old = None
        if kind == "empty-cleared":
            old = cls()
            for k, v in pairs[::-1]:
                old[k] = v
        d, _ = make_empty(clsname, kind[6:], sel, old)
        for k, v in pairs:
            d[k] = v
        return d
    if kind == "ctor-map":
        return cls(dict(pairs))
    if kind == "ctor-obj":                                   # from another paragraph (mapping protocol)
        from debian.deb822 import Deb822
        src = Deb822()
        for k, v in pairs:
            src[k] = v
        return cls(src)
    if kind in ("parse-str", "parse-lines") and pairs:
        from debian.deb822 import Deb822
        src = Deb822()
        for k, v in pairs:
            src[k] = v
        text = src.dump()
        return cls(text if kind == "parse-str" else text.splitlines(True), strict=dict(WS_FALSE))
    d = cls()
    if kind == "update":
        d.update(pairs)
        return d
    for k, v in pairs:
        d[k] = v
    return d


def project(d):
    return [[k, d[k]] for k in d]


def assign(d, key, value, route="setitem"):
    """returns "ok" | "ValueError" | "EXC:<type>" -- every exception is an observation.
    setdefault only ASSIGNS when the key is absent (otherwise it falls back to d[key] = value)."""
    try:
        if route == "update":
            d.update([(key, value)])
        elif route == "update-map":
            d.update({key: value})
        elif route == "update-kw":
            d.update(**{key: value})
        elif route == "setdefault" and key not in d:
            d.setdefault(key, value)
        else:
            d[key] = value
        return "ok"
    except ValueError:
        return "ValueError"
    except Exception as e:                                           # noqa: BLE001
        return "EXC:" + type(e).__name__


# ---- how a paragraph is carried over into ANOTHER object (its values leave and enter again)
REENTRIES = ("copy", "copy.copy", "deepcopy", "pickle", "ctor-self", "ctor-dict", "parse")


def reenter(d, how):
    import copy
    import pickle
    cls = type(d)
    if how == "copy":
        return d.copy()
    if how == "copy.copy":
        return copy.copy(d)
    if how == "deepcopy":
        return copy.deepcopy(d)
    if how == "pickle":
        return pickle.loads(pickle.dumps(d))
    if how == "ctor-self":
        return cls(d)
    if how == "ctor-dict":
        return cls(dict(d.items()))
    return cls(d.dump(), strict=dict(WS_FALSE))


# ---- how the text LEAVES
DUMPS = ("dump", "str", "fd-b", "fd-t", "bytes", "fd-b-enc", "dump", "fd-latin1")


def dump_text(d, how):
    """the paragraph as text through one of the output forms (all must denote the same text)"""
    if how == "str":
        return str(d)
    if how == "bytes":
        return bytes(d).decode("utf-8")
    if how == "fd-b":
        f = io.BytesIO()
        d.dump(f)
        return f.getvalue().decode("utf-8")
    if how == "fd-b-enc":
        f = io.BytesIO()
        d.dump(f, "utf-8", False)
        return f.getvalue().decode("utf-8")
    if how == "fd-t":
        f = io.StringIO()
        d.dump(f, text_mode=True)
        return f.getvalue()
    if how == "fd-latin1":
        try:
            "".join(v for kv in d.items() for v in kv).encode("iso8859-1")
        except UnicodeEncodeError:
            return d.dump()
        f = io.BytesIO()
        d.dump(fd=f, encoding="iso8859-1")
        return f.getvalue().decode("iso8859-1")
    return d.dump()


def read_back(text, form, ws_default):
    """[st, paras]: key list of every paragraph iter_paragraphs yields for the dumped text"""
    from debian.deb822 import Deb822
    if form == "s":
        src = text
    elif form == "f":
        src = io.StringIO(text)
    else:
        src = io.BytesIO(text.encode("utf-8"))
    try:
        with warnings.catch_warnings():
            warnings.simplefilter("ignore")
            if ws_default:
                it = Deb822.iter_paragraphs(src, use_apt_pkg=False)
            else:
                it = Deb822.iter_paragraphs(src, use_apt_pkg=False, strict=dict(WS_FALSE))
            return {"st": "ok", "paras": [list(p.keys()) for p in it]}
    except Exception as e:                                           # noqa: BLE001
        return {"st": "EXC:" + type(e).__name__, "paras": []}


ALL_CLASSES = ("Deb822", "Dsc", "Changes", "BuildInfo", "Release", "PdiffIndex", "Sources", "Packages", "Removals")
GPG_CLASSES = ("Dsc", "Changes", "BuildInfo", "Sources")   # _gpg_multivalued: a pre-pass cuts the paragraph out
LENIENT_ITER = ("Sources", "Packages")                     # their iter_paragraphs defaults to the lenient setting
# input forms: str, bytes, text.splitlines(True), text.splitlines(), generator of lines, io.StringIO,
# io.BytesIO, real text file, real binary file
# ... and (notes/SIZE_STRESS.md part 4) every other KIND of file object the API accepts: a real file opened
# unbuffered, io.BufferedReader over a raw stream that returns SHORT reads, gzip / bz2 / lzma wrappers over
# compressed bytes (fileno() names the compressed file), tempfile.SpooledTemporaryFile, a generator of
# bytes lines
WAY_FORMS = ("s", "y", "l", "n", "g", "f", "b", "F", "R", "U", "H", "Z", "J", "X", "P", "c")
FORM_SRC = {"s": "text", "y": "text.encode()", "l": "text.splitlines(True)", "n": "text.splitlines()",
            "g": "(l for l in text.splitlines(True))", "f": "io.StringIO(text)", "b": "io.BytesIO(text.encode())",
            "F": "open(file, encoding='utf-8')", "R": "open(file, 'rb')", "U": "open(file, 'rb', buffering=0)",
            "H": "io.BufferedReader(raw stream giving 1..7 bytes per read)", "Z": "gzip.GzipFile(file.gz)",
            "J": "bz2.BZ2File(file.bz2)", "X": "lzma.LZMAFile(file.xz)", "P": "tempfile.SpooledTemporaryFile holding the bytes",
            "c": "(l for l in text.encode().splitlines(True))"}
FILE_FORMS = ("f", "b", "F", "R", "U", "H", "Z", "J", "X", "P")
WAY_STATS = {}                                    # form -> number of read-backs through it (evidence only)


def _short_raw(data, sel):
    """a raw stream that hands out 1..7 bytes per read (io.BufferedReader has to assemble the lines)"""
    class ShortRaw(io.RawIOBase):
        def __init__(self):
            io.RawIOBase.__init__(self)
            self.pos = 0
            self.n = 0

        def readable(self):
            return True

        def readinto(self, b):
            self.n += 1
            k = min(len(b), 1 + (self.n * 5 + sel) % 7, len(data) - self.pos)
            b[:k] = data[self.pos:self.pos + k]
            self.pos += k
            return k
    return ShortRaw()


def open_form(form, text, enc="utf-8", sel=0):
    """(source object for the parsing entry points, [objects to close]) for one input form"""
    import tempfile
    if form == "s":
        return text, []
    if form == "y":
        return text.encode(enc), []
    if form == "l":
        return text.splitlines(True), []
    if form == "n":
        return text.splitlines(), []
    if form == "g":
        return (ln for ln in text.splitlines(True)), []
    if form == "c":
        return (ln for ln in text.encode(enc).splitlines(True)), []
    if form == "f":
        return io.StringIO(text), []
    if form == "b":
        return io.BytesIO(text.encode(enc)), []
    if form == "H":
        return io.BufferedReader(_short_raw(text.encode(enc), sel), buffer_size=16 if sel % 2 else 8192), []
    if form == "P":
        sp = tempfile.SpooledTemporaryFile(max_size=(64 if sel % 2 else 1 << 20), mode="w+b", dir=WORKDIR[0])
        sp.write(text.encode(enc))
        sp.seek(0)
        return sp, [sp]
    if form in "ZJX":
        import bz2
        import gzip
        import lzma
        tmp = tempfile.TemporaryFile(mode="w+b", dir=WORKDIR[0])
        raw = text.encode(enc)
        tmp.write({"Z": gzip.compress, "J": bz2.compress, "X": lzma.compress}[form](raw))
        tmp.seek(0)
        src = {"Z": lambda f: gzip.GzipFile(fileobj=f, mode="rb"), "J": bz2.BZ2File, "X": lzma.LZMAFile}[form](tmp)
        return src, [src, tmp]
    if form == "U":
        tmp = tempfile.NamedTemporaryFile(mode="w+b", dir=WORKDIR[0])
        tmp.write(text.encode(enc))
        tmp.flush()
        src = open(tmp.name, "rb", buffering=0)
        return src, [src, tmp]
    tmp = tempfile.TemporaryFile(mode="w+b", dir=WORKDIR[0])
    tmp.write(text.encode("utf-8"))
    tmp.seek(0)
    if form == "R":
        return tmp, [tmp]
    return io.TextIOWrapper(tmp, encoding="utf-8", newline="\n"), [tmp]
# (route, form, strict by keyword / positionally, option): options are fields= naming every field,
# shared_storage=True (documented as ignored), bytes in latin-1 with encoding=, strict omitted
WAYS = [(route, form, pas, "") for route in ("ctor", "iter") for form in WAY_FORMS for pas in ("kw", "pos")] + [
    ("ctor", "s", "kw", "fields"), ("ctor", "f", "pos", "fields"), ("iter", "l", "kw", "fields"), ("iter", "b", "pos", "fields"),
    ("iter", "s", "kw", "shared"), ("iter", "f", "kw", "shared"),
    ("ctor", "y", "kw", "latin1"), ("iter", "b", "kw", "latin1"), ("ctor", "b", "pos", "latin1"),
    ("iter", "s", "kw", "omit"), ("iter", "f", "kw", "omit"), ("ctor", "l", "kw", "omit")]


def way_name(clsname, way, ws_default):
    route, form, pas, opt = way
    src = FORM_SRC[form]
    strict = "None" if ws_default else "{'whitespace-separates-paragraphs': False}"
    enc = "'iso8859-1'" if opt == "latin1" else "'utf-8'"
    if opt == "latin1":
        src = src.replace("encode()", "encode('iso8859-1')")
    fields = "keys" if opt == "fields" else "None"
    if opt == "omit":
        return "%s%s(%s%s)  [strict omitted]" % (clsname, "" if route == "ctor" else ".iter_paragraphs", src, "" if route == "ctor" else ", use_apt_pkg=False")
    if route == "ctor":
        return "%s(%s, %s)" % (clsname, src, ("fields=%s, encoding=%s, strict=%s" % (fields, enc, strict)) if pas == "kw" else "%s, None, %s, %s" % (fields, enc, strict))
    return "%s.iter_paragraphs(%s, %s)" % (clsname, src, ("fields=%s, use_apt_pkg=False, shared_storage=%s, encoding=%s, strict=%s" % (fields, opt == "shared", enc, strict))
                                           if pas == "kw" else "%s, False, %s, %s, %s" % (fields, opt == "shared", enc, strict))


def is_known_pos_strict(clsname, way, ws_default):
    """the signature of the deviation repaired in /repo 2236619: gpg-aware class built from a list /
    file with strict given POSITIONALLY"""
    route, form, pas, opt = way
    return clsname in GPG_CLASSES and route == "ctor" and form not in "sy" and pas == "pos" and not ws_default


def effective_default(clsname, way, ws_default):
    """the setting a way really runs with: with strict omitted, iter_paragraphs of Sources /
    Packages is lenient by documentation, everything else uses the default"""
    route, form, pas, opt = way
    if opt == "omit":
        return not (route == "iter" and clsname in LENIENT_ITER)
    return ws_default


def read_way(clsname, text, way, ws_default, keys=None, sel=0):
    """the dump read back by the class that produced it: [st, paras] like read_back (a constructor
    gives one object = one key list)"""
    route, form, pas, opt = way
    cls = get_class(clsname)
    enc = "utf-8"
    if opt == "latin1":
        try:
            text.encode("iso8859-1")
            enc = "iso8859-1"
        except UnicodeEncodeError:
            pass
    closers = []
    WAY_STATS[form] = WAY_STATS.get(form, 0) + 1
    try:
        src, closers = open_form(form, text, enc, sel)
        strict = None if ws_default else dict(WS_FALSE)
        fields = list(keys) if (opt == "fields" and keys is not None) else None
        with warnings.catch_warnings():
            warnings.simplefilter("ignore")
            if route == "ctor":
                if opt == "omit":
                    obj = cls(src)
                elif pas == "kw":
                    obj = cls(src, fields=fields, encoding=enc, strict=strict)
                else:
                    obj = cls(src, fields, None, enc, strict)
                return {"st": "ok", "paras": [list(obj.keys())]}
            if opt == "omit":
                it = cls.iter_paragraphs(src, use_apt_pkg=False)
            elif pas == "kw":
                it = cls.iter_paragraphs(src, fields=fields, use_apt_pkg=False, shared_storage=(opt == "shared"), encoding=enc, strict=strict)
            else:
                it = cls.iter_paragraphs(src, fields, False, opt == "shared", enc, strict)
            return {"st": "ok", "paras": [list(p.keys()) for p in it]}
    except Exception as e:                                           # noqa: BLE001
        return {"st": "EXC:" + type(e).__name__, "paras": []}
    finally:
        for f in closers:
            try:
                f.close()
            except Exception:                                        # noqa: BLE001
                pass


def pick_ways(sel, n):
    """n of the ways, rotating with `sel` so that all of them come up regularly"""
    return [WAYS[(sel * 7 + i * 11) % len(WAYS)] for i in range(n)]


FILE_WAYS = [w for w in WAYS if w[1] in FILE_FORMS and w[3] in ("", "shared")]


def pick_file_ways(sel, n):
    """n of the ways that read from a file object, rotating through every kind of file object"""
    return [FILE_WAYS[(sel * 5 + i * 9) % len(FILE_WAYS)] for i in range(n)]


def judge_ways(clsname, text, keys, blank, sel, n, known=None, ways=None):
    """read `text` back through n rotating ways of the producing class; returns (message or None):
    lenient setting for every accepted value, default setting when no continuation line is blank"""
    one = {"st": "ok", "paras": [keys]}
    for way in (pick_ways(sel, n) if ways is None else ways):
        for ws_default in (False, True):
            if way[3] == "omit":
                if ws_default:
                    continue
                eff_default = effective_default(clsname, way, ws_default)
            else:
                eff_default = ws_default
            if eff_default and blank:
                continue                                             # not decided by the statement
            got = read_way(clsname, text, way, ws_default, keys, sel)
            if got != one:
                msg = "read back with %s gives %s" % (way_name(clsname, way, ws_default), _rbshow(got))
                if blank and known is not None and is_known_pos_strict(clsname, way, ws_default):
                    known.append(msg)
                    continue
                return msg
    return None


def read_all(d, how="dump"):
    """text through one of the output forms + the six Deb822.iter_paragraphs read-backs; a failing
    dump is an observation as well"""
    try:
        text = dump_text(d, how)
    except Exception as e:                                           # noqa: BLE001
        bad = {"st": "EXC(%s):%s" % (how, type(e).__name__), "paras": []}
        return None, {n: bad for n in RBNAMES}
    rb = {}
    for f in FORMS:
        rb[f + "F"] = read_back(text, f, False)
        rb[f + "T"] = read_back(text, f, True)
    return text, rb


# ------------------------------------------------------------------ faults of caller-supplied objects (SIZE_STRESS part 5)
# Model actions FaultDump / FaultBuild of Deb822ValueHist: the object the CALLER hands in fails at one point;
# the caller's fault comes out and nothing else happens -- every paragraph, every later dump is what it was.

class _Fault(Exception):
    """a private exception class of the caller"""


def _fault_exc(name):
    import errno
    return {"enospc": lambda: OSError(errno.ENOSPC, "No space left on device"),
            "epipe": lambda: BrokenPipeError(errno.EPIPE, "Broken pipe"),
            "eio": lambda: OSError(errno.EIO, "Input/output error"),
            "closed": lambda: ValueError("I/O operation on closed file."),
            "private": _Fault, "keyerror": lambda: KeyError("write"),
            "runtime": lambda: RuntimeError("device went away"), "short": lambda: None}[name]()


class _CapMixin:
    """a file object with room for `cap` units (bytes / characters): the write() that does not fit stores what
    fits and fails -- with the exception `exc`, or (exc None) by returning the SHORT count.  The position is given
    in units of text, not in calls: however the library slices its writes, the fault is met."""

    def _cap_init(self, cap, exc):
        self.cap, self.exc, self.hit, self.size, self.calls = cap, exc, False, 0, 0

    def write(self, data):
        self.calls += 1
        if not self.hit and self.size + len(data) > self.cap:
            self.hit = True
            fit = data[:self.cap - self.size]
            self._store(fit)
            self.size += len(fit)
            if self.exc is None:
                return len(fit)
            raise self.exc
        self._store(data)
        self.size += len(data)
        return len(data)


class _CapDuck(_CapMixin):
    """nothing but write()"""

    def __init__(self, cap, exc):
        self._cap_init(cap, exc)
        self.buf = []

    def _store(self, data):
        self.buf.append(data)


class _CapBytesIO(_CapMixin, io.BytesIO):
    def __init__(self, cap, exc):
        io.BytesIO.__init__(self)
        self._cap_init(cap, exc)

    def _store(self, data):
        io.BytesIO.write(self, data)


class _CapStringIO(_CapMixin, io.StringIO):
    def __init__(self, cap, exc):
        io.StringIO.__init__(self)
        self._cap_init(cap, exc)

    def _store(self, data):
        io.StringIO.write(self, data)


# (name, "cap" -- a capacity-limited twin of a good file object -- or "nat" -- an object that fails by its
#  nature at the first write --, binary / text, exception, call)
FAULT_KINDS = (
    ("io.BytesIO on a full device", "cap", "b", "enospc", "d.dump(fd)"),
    ("io.StringIO without text_mode", "nat", "t", "TypeError", "d.dump(fd)"),
    ("text writer, closed meanwhile", "cap", "t", "closed", "d.dump(fd, text_mode=True)"),
    ("write()-only object, private exception", "cap", "b", "private", "d.dump(fd, 'utf-8', False)"),
    ("io.StringIO on a full device", "cap", "t", "enospc", "d.dump(fd, None, True)"),
    ("/dev/full, unbuffered", "nat", "b", "ENOSPC", "d.dump(fd)"),
    ("write()-only object, short write", "cap", "b", "short", "d.dump(fd=fd)"),
    ("pipe whose reader went away", "cap", "b", "epipe", "d.dump(fd, encoding='utf-8')"),
    ("real text file without text_mode", "nat", "t", "TypeError", "d.dump(fd)"),
    ("write()-only text object, KeyError", "cap", "t", "keyerror", "d.dump(fd, text_mode=True)"),
    ("io.BytesIO with text_mode=True", "nat", "b", "TypeError", "d.dump(fd, text_mode=True)"),
    ("io.BytesIO, EIO", "cap", "b", "eio", "d.dump(fd=fd, encoding='utf-8', text_mode=False)"),
    ("real file closed before the call", "nat", "b", "ValueError", "d.dump(fd)"),
    ("io.StringIO, short write", "cap", "t", "short", "d.dump(fd, text_mode=True)"),
    ("real file opened for reading", "nat", "b", "UnsupportedOperation", "d.dump(fd)"),
    ("write()-only object, RuntimeError", "cap", "b", "runtime", "d.dump(fd)"),
    ("encoding='ascii' over a non-ASCII field", "nat", "b", "UnicodeEncodeError", "d.dump(fd, encoding='ascii')"),
)
FAULT_STATS = {}                                  # kind -> number of faulted dumps (evidence only)


def _entry_units(k, v, binary):
    """size of one dumped field -- used ONLY to place the fault, never for a verdict"""
    v = v if isinstance(v, str) else ""
    n = (len(k.encode("utf-8")) + len(v.encode("utf-8"))) if binary else (len(k) + len(v))
    return n + (2 if (not v or v[0] == "\n") else 3)


def fault_dump(d, items, j, sel):
    """d.dump(fd) with a file object that fails while field j (1-based) of `items` is written (objects that fail
    by their nature: at the first write).  Returns (outcome, description): "fault" -- the fault of the caller's
    object came out as that object produced it (its exception instance; None for a short count) --, "swallowed"
    -- the object failed and the call returned as if nothing had happened --, "EXC:<type>" -- something else came
    out --, "not-met" -- the library never wrote that far (no verdict)."""
    import errno
    import tempfile
    name, how, mode, excname, call = FAULT_KINDS[sel % len(FAULT_KINDS)]
    if excname == "UnicodeEncodeError" and all(isinstance(v, str) and (k + v).isascii() for k, v in items):
        name, how, mode, excname, call = FAULT_KINDS[0]
    if name.startswith("/dev/full") and not os.path.exists("/dev/full"):
        name, how, mode, excname, call = FAULT_KINDS[0]
    FAULT_STATS[name] = FAULT_STATS.get(name, 0) + 1
    closers = []
    exc = None
    if how == "cap":
        binary = mode == "b"
        j = max(1, min(j, len(items)))
        sizes = [_entry_units(k, v, binary) for k, v in items]
        inside = (0, 1, sizes[j - 1] // 2, sizes[j - 1] - 1)[(sel // len(FAULT_KINDS)) % 4]
        cap = sum(sizes[:j - 1]) + max(0, min(inside, sizes[j - 1] - 1))
        exc = _fault_exc(excname)
        if name.startswith("io.BytesIO"):
            fd = _CapBytesIO(cap, exc)
        elif name.startswith("io.StringIO"):
            fd = _CapStringIO(cap, exc)
        else:
            fd = _CapDuck(cap, exc)
        desc = "%s [fd = %s, failing after %d %s, i.e. inside field %d of %d]" % (call, name, cap, "bytes" if binary else "characters", j, len(items))
    else:
        if name.startswith("io.StringIO"):
            fd = io.StringIO()
        elif name.startswith("io.BytesIO") or excname == "UnicodeEncodeError":
            fd = io.BytesIO()
        elif name.startswith("/dev/full"):
            fd = open("/dev/full", "wb", buffering=0)
            closers.append(fd)
        elif name.startswith("real text file"):
            fd = tempfile.TemporaryFile(mode="w", encoding="utf-8", dir=WORKDIR[0])
            closers.append(fd)
        elif name.startswith("real file closed"):
            fd = tempfile.TemporaryFile(mode="w+b", dir=WORKDIR[0])
            fd.close()
        else:
            keep = tempfile.NamedTemporaryFile(mode="w+b", dir=WORKDIR[0])
            fd = open(keep.name, "rb")
            closers += [fd, keep]
        desc = "%s [fd = %s]" % (call, name)
    try:
        if call == "d.dump(fd)":
            ret = d.dump(fd)
        elif call == "d.dump(fd=fd)":
            ret = d.dump(fd=fd)
        elif call == "d.dump(fd, text_mode=True)":
            ret = d.dump(fd, text_mode=True)
        elif call == "d.dump(fd, None, True)":
            ret = d.dump(fd, None, True)
        elif call == "d.dump(fd, 'utf-8', False)":
            ret = d.dump(fd, "utf-8", False)
        elif call == "d.dump(fd, encoding='utf-8')":
            ret = d.dump(fd, encoding="utf-8")
        elif call == "d.dump(fd, encoding='ascii')":
            ret = d.dump(fd, encoding="ascii")
        else:
            ret = d.dump(fd=fd, encoding="utf-8", text_mode=False)
        if how == "cap" and not fd.hit:
            out = "not-met"
        elif how == "cap" and exc is None and ret is None:
            out = "fault"                                            # the short count is all a short write gives
        else:
            out = "swallowed"
    except Exception as e:                                           # noqa: BLE001
        if how == "cap":
            out = "fault" if e is exc else "EXC:" + type(e).__name__
        elif excname == "ENOSPC":
            out = "fault" if (type(e) is OSError and e.errno == errno.ENOSPC) else "EXC:" + type(e).__name__
        else:
            out = "fault" if type(e).__name__ == excname else "EXC:" + type(e).__name__
    finally:
        for c in closers:
            try:
                c.close()
            except Exception:                                        # noqa: BLE001
                pass
    return out, desc


FAULT_MAPPINGS = ("Mapping whose __getitem__ raises", "Mapping whose iteration raises", "Mapping with lazy items() that raises",
                  "dict subclass whose items() raises")


def fault_build(clsname, pairs, k, sel):
    """Cls(M) with a caller-supplied mapping M over `pairs` that fails at its k-th item (1-based).
    Returns (outcome, description): "fault" -- M's exception instance came out --, "built" -- an object was
    built all the same --, "EXC:<type>"."""
    import collections.abc
    pairs = [tuple(kv) for kv in pairs]
    k = max(1, min(k, len(pairs)))
    exc = _fault_exc(("private", "keyerror", "eio", "runtime", "closed")[(sel // len(FAULT_MAPPINGS)) % 5])
    kind = FAULT_MAPPINGS[sel % len(FAULT_MAPPINGS)]

    def gen():
        for i, kv in enumerate(pairs):
            if i == k - 1:
                raise exc
            yield kv

    if kind.startswith("dict subclass"):
        class FaultyDict(dict):
            def items(self):
                return gen()
        m = FaultyDict(pairs)
    else:
        class FaultyMapping(collections.abc.Mapping):
            def __getitem__(self, key):
                if kind.endswith("__getitem__ raises") and key == pairs[k - 1][0]:
                    raise exc
                return dict(pairs)[key]

            def __iter__(self):
                if kind.endswith("iteration raises"):
                    return (kv[0] for kv in gen())
                return iter([kv[0] for kv in pairs])

            def __len__(self):
                return len(pairs)

            if kind.startswith("Mapping with lazy items"):
                def items(self):
                    return gen()
        m = FaultyMapping()
    desc = "%s(M), M = %s (%s) at item %d of %d" % (clsname, kind, type(exc).__name__, k, len(pairs))
    style = sel // 7
    try:
        new, res = None, None
        cls = get_class(clsname)
        new = cls(m) if style % 3 == 0 else (cls(sequence=m) if style % 3 == 1 else cls(m, strict=dict(WS_FALSE)))
        return "built", desc
    except Exception as e:                                           # noqa: BLE001
        return ("fault" if e is exc else "EXC:" + type(e).__name__), desc


# ------------------------------------------------------------------ sizes (notes/SIZE_STRESS.md)
# The abstract case (a CASE line / an LTS value) never changes; the concretization gets a size
# dimension.  Expectations stay those TLC computed for the small value: by the size lemmas of
# Deb822Value (StretchInvariant, RepeatInvariant) the classification does not depend on the length
# of a payload run or on how often a continuation line is repeated, and "one paragraph with the
# same field names" does not mention sizes at all.
LEN_BOUNDS = [1, 2, 7, 8, 9, 15, 16, 17, 31, 32, 33, 63, 64, 65, 71, 72, 73, 79, 80, 81, 127, 128, 129,
              255, 256, 257, 1023, 1024, 1025, 4095, 4096, 4097, 8191, 8192, 8193]
BIG_LENS = [65535, 65536, 65537]
OFFSETS = [4095, 4096, 4097, 4096, 8192, 1024, 255, 65536]
COUNT_BOUNDS = [2, 3, 9, 10, 11, 16, 17, 31, 32, 33, 99, 100, 101, 255, 256, 257]
BIG_COUNTS = [1000, 1001]
KEY_LENS = [31, 32, 33, 63, 64, 65, 127, 128, 129, 255, 256, 257, 1024]
FIELD_COUNTS = [9, 10, 11, 16, 17, 31, 32, 33, 99, 100, 101, 255, 256, 257]
KEY_CHARS = "ABCDEFGHIJKLMNOPQRSTUVWXYZabcdefghijklmnopqrstuvwxyz0123456789-"


def heavy(rng, pool, big=(), p_big=0.04):
    """heavy-tailed choice: mostly the small end, regularly the far end, occasionally `big`"""
    if big and rng.random() < p_big:
        return rng.choice(list(big))
    if rng.random() < 0.45:
        return rng.choice(pool[len(pool) // 2:])
    return rng.choice(pool)


def long_key(rng, n, taken):
    """a fresh field name of n characters (longer if the short ones are used up)"""
    tries = 0
    while True:
        k = rng.choice(KEY_CHARS[:52]) + "".join(rng.choice(KEY_CHARS) for _ in range(max(n, 1) - 1))
        if k.lower() not in taken and k.lower() not in MULTI_NAMES:
            taken.add(k.lower())
            return k
        tries += 1
        if tries % 4 == 0:
            n += 1


MULTI_NAMES = {"files", "checksums-sha1", "checksums-sha256", "checksums-sha512", "checksums-md5", "md5sum", "sha1", "sha256", "sha512"}


# ------------------------------------------------------------------ (a) CASE replay

class Conc:
    """concretization of one CASE line: the paragraph (keys, neighbour values, index of the field
    assigned to), one payload run per x of the value and an optional repetition of one
    continuation line (a segment TLC listed as repeatable)"""

    def __init__(self, value=(), pos=1):
        self.keys = ["A", "B", "C"]
        self.nb = ["x", "x", "x"]
        self.idx = pos - 1
        self.xs = [["x", 1] for c in value if c == X]
        self.rep = None
        self.dims = []
        self.align = None

    @classmethod
    def random(cls, rng, value, pos):
        c = cls(value, pos)
        c.keys = rng.sample(KEY_POOL, 3)
        if rng.random() < 0.25:                         # neighbours that only a normalising reader confuses
            i = 2 * rng.randrange(len(TWIN_KEYS) // 2)
            j, k = rng.sample(range(3), 2)
            c.keys[j], c.keys[k] = TWIN_KEYS[i], TWIN_KEYS[i + 1]
        c.nb = [pick_x(rng) for _ in range(3)]
        c.xs = [[pick_x(rng), 1] for _ in c.xs]
        if c.xs and rng.random() < 0.4:                 # line-final: every UTF-8 trailing byte in turn
            c.xs[-1] = [tail_char(), 1]
        return c

    @classmethod
    def stress(cls, rng, case, pos, allow_big=True):
        """one or two size dimensions pushed to a boundary neighbourhood"""
        v = case["v"]
        c = cls.random(rng, v, pos)
        dims = []
        if c.xs:
            dims += ["xrun", "xrun"]
            if v[0] == X and len(v) > 1:
                dims += ["offset", "offset"]
        if case.get("segs"):
            dims += ["lines", "lines"]
        dims += ["longkey", "fields", "align", "align"]
        chosen = [rng.choice(dims)]
        if rng.random() < 0.25:
            chosen.append(rng.choice(dims))
        for dim in chosen:
            if dim in c.dims:
                continue
            c.dims.append(dim)
            if dim == "xrun":
                j = rng.choice([0, len(c.xs) - 1, rng.randrange(len(c.xs))])
                n = heavy(rng, LEN_BOUNDS, BIG_LENS if allow_big else ())
                c.xs[j] = [c.xs[j][0], n]
            elif dim == "offset":                      # the character after the first run sits at offset n
                c.xs[0] = [c.xs[0][0], rng.choice(OFFSETS if allow_big else OFFSETS[:-1])]
            elif dim == "lines":
                seg = rng.choice(sorted(map(tuple, case["segs"])))
                n = heavy(rng, COUNT_BOUNDS, BIG_COUNTS if allow_big else (), p_big=0.08)
                c.rep = [seg[0], seg[1], n]
            elif dim == "longkey":
                taken = set()
                n = heavy(rng, KEY_LENS)
                which = rng.choice(["assigned", "all"])
                c.keys = [long_key(rng, n, taken) if (which == "all" or i == c.idx) else k for i, k in enumerate(c.keys)]
            elif dim == "fields":
                n = heavy(rng, FIELD_COUNTS, (1000,) if allow_big else (), p_big=0.03)
                taken = set()
                keys = [long_key(rng, rng.choice([1, 2, 7, 8, 15, 16, 17]), taken) for _ in range(n)]
                c.idx = {1: 0, 2: n // 2, 3: n - 1}[pos]
                keys[c.idx] = c.keys[pos - 1] if c.keys[pos - 1].lower() not in taken else keys[c.idx]
                c.keys = keys
                c.nb = [pick_x(rng) * rng.choice([1, 1, 2, 8]) for _ in range(n)]
        if "align" in c.dims:                          # last: the padding depends on everything else
            c.set_align(rng, v, allow_big)
        return c

    def set_align(self, rng, v, allow_big):
        """block-boundary alignment (notes/SIZE_STRESS.md part 4): the value of the FIRST field is padded so
        that a line end of the dumped paragraph -- inside the assigned value, at the end of the assigned
        field, between the two fields in front of it, at the very end of the text -- falls exactly at, one
        before or one after a byte offset 2^k (k = 9..17).  The layout is computed from the documented dump
        format only to choose the padding; whether the offset was hit is recorded from the real dump."""
        if self.idx == 0:
            self.idx = 1
        val = self.value(v)
        vals = [val if i == self.idx else n for i, n in enumerate(self.nb)]
        pieces = [(k + ":" + ("" if (not x or x[0] == "\n") else " ") + x + "\n").encode("utf-8") for k, x in zip(self.keys, vals)]
        start = sum(len(b) for b in pieces[:self.idx])
        inner = [start + i + 1 for i, ch in enumerate(pieces[self.idx][:-1]) if ch == 10]
        cands = {"field-end": start + len(pieces[self.idx]), "before-field": start, "text-end": sum(len(b) for b in pieces)}
        if inner:
            cands["inside-value"] = rng.choice(inner)
            cands["inside-value-last"] = inner[-1]
        where = rng.choice(sorted(cands))
        cur = cands[where]
        delta = rng.choice([-1, 0, 0, 1])
        ks = [k for k in ([9, 10, 11, 12, 12, 13, 13, 13, 14, 15] + ([16, 17] if allow_big and rng.random() < 0.15 else []))
              if (1 << k) + delta >= cur]
        if not ks:
            self.dims.remove("align")
            return
        k = rng.choice(ks)
        target = (1 << k) + delta
        self.nb[0] = self.nb[0] + rng.choice("pqZ0-") * (target - cur)
        self.align = {"k": k, "delta": delta, "where": where, "offset": target}

    def value(self, v):
        it = iter(self.xs)
        pieces = []
        for c in v:
            if c == X:
                ch, n = next(it)
                pieces.append(ch * n)
            else:
                pieces.append(chr(c))
        if self.rep:
            a, b, n = self.rep                                   # symbols a..b (1-based), n copies in all
            return "".join(pieces[:b]) + "".join(pieces[a - 1:b]) * (n - 1) + "".join(pieces[b:])
        return "".join(pieces)

    def to_json(self):
        return {"keys": self.keys, "nb": self.nb, "idx": self.idx, "xs": self.xs, "rep": self.rep, "dims": self.dims, "align": self.align}

    @classmethod
    def from_json(cls, j):
        c = cls.__new__(cls)
        c.keys, c.nb, c.idx, c.xs, c.rep, c.dims = list(j["keys"]), list(j["nb"]), j["idx"], [list(x) for x in j["xs"]], j.get("rep"), j.get("dims", [])
        c.align = j.get("align")
        return c


def short(s, n=70):
    """a long string for messages: head ... tail with the length"""
    if len(s) <= n:
        return show(s)
    return "%s...%s (%d chars)" % (show(s[:30]), show(s[-30:]), len(s))


def check_case(case, clsname, conc, route="setitem", stats=None, wsel=0, known=None, nways=2):
    """replay one CASE line; returns (message or None, [drift notes]).  Expected values -- cls, blank,
    wt -- come from TLC; this function only drives the real class and compares.
    The entry points rotate with `wsel`: how the start paragraph is created (BUILD_KINDS), how the
    value enters (`route`, ASSIGN_ROUTES), how the text leaves (DUMPS), whether the paragraph is
    first carried over into another object (REENTRIES), how it is read back (WAYS); the verdicts
    are the same for all of them."""
    v = conc.value(case["v"])
    cls = case["cls"]
    keys = conc.keys
    idx = conc.idx
    carrier_cls = None
    if route == "ctor-para":
        # the value comes in a PARAGRAPH of another class, under a key that is multivalued -- never
        # validated -- there and an ordinary field of the class being built (the base class every other time)
        if wsel % 2 == 0:
            clsname = "Deb822"
        fkeys = [k for k in FAMILY_KEYS if clsname in family(k)[1]]
        fkey = fkeys[(wsel // 2) % len(fkeys)]
        keys = list(keys)
        keys[idx] = fkey if (wsel // 4) % 3 else fkey.lower()
        carrier_cls = family(fkey)[0][(wsel // 8) % len(family(fkey)[0])]
    start = [[k, n] for k, n in zip(keys, conc.nb)]
    stored = [[k, (v if i == idx else n)] for i, (k, n) in enumerate(zip(keys, conc.nb))]
    ksh = show(keys) if len(keys) <= 4 else "%d fields" % len(keys)
    bkind = BUILD_KINDS[(wsel // 3) % len(BUILD_KINDS)] if wsel % 3 == 0 else "assign"
    how = {"setitem": "d[%s] = %s", "update": "d.update([(%s, %s)])", "update-map": "d.update({%s: %s})", "update-kw": "d.update(**{%s: %s})",
           "setdefault": "d[%s] = %s", "ctor-map": "%s({..., %%s: %%s, ...})" % clsname, "ctor-copy": "%s(Deb822Dict holding %%s: %%s)" % clsname,
           "ctor-para": "%s(%s paragraph holding %%s: %%s)" % (clsname, carrier_cls)}[route]
    where = "%s %s (field %d of %s%s%s)" % (clsname, how % (short(keys[idx], 40), short(v)), idx + 1, ksh,
                                          ", size-stressed: " + "+".join(conc.dims) if conc.dims else "",
                                          ", start paragraph via " + bkind if bkind != "assign" else "")
    drift = []
    if route in ("ctor-map", "ctor-copy", "ctor-para"):
        # the value enters through the constructor, together with its neighbours
        d = None
        carrier = None
        if route == "ctor-para":
            carrier = para_carrier(carrier_cls, stored)
            if carrier is None:
                return None, drift                                   # that class did not take the raw string: not decided
        try:
            if route == "ctor-map":
                d = get_class(clsname)(dict(stored))
            elif route == "ctor-para":
                d = get_class(clsname)(carrier)
            else:
                from debian.deb822 import Deb822Dict
                d = get_class(clsname)(Deb822Dict(stored))           # (Deb822Dict does not validate)
            res = "ok"
        except ValueError:
            res = "ValueError"
        except Exception as e:                                       # noqa: BLE001
            res = "EXC:" + type(e).__name__
    else:
        if route == "setdefault" and idx == len(keys) - 1:
            start = start[:-1]                                       # setdefault assigns only when the field is absent
            where = where.replace("d[", "d.setdefault[absent] d[", 1)
        try:
            d = build(clsname, start, bkind, wsel // 27)
        except Exception as e:                                       # noqa: BLE001
            return "%s: building the start paragraph raised %s" % (where, type(e).__name__), drift
        res = assign(d, keys[idx], v, route)
    if stats is not None:
        stats[(cls, res)] = stats.get((cls, res), 0) + 1
    if res.startswith("EXC:"):
        return "%s raised %s (the statement allows ValueError only)" % (where, res[4:]), drift
    if cls == "accept" and res != "ok":
        return "%s raised ValueError; the value has no defect and no blank continuation line (model: accepted)" % where, drift
    if cls == "reject" and res == "ok":
        return "%s was accepted; the value ends in a newline / has an empty or unindented continuation line (model: ValueError)" % where, drift
    if (res == "ok") != case["acc"]:
        drift.append("acceptance of %s (class %s) differs from the transcription of validate_input" % (short(v), cls))
    if d is None:
        return None, drift                                           # rejected by the constructor: nothing was built
    try:
        items = project(d)
    except Exception as e:                                           # noqa: BLE001
        return "%s: reading the paragraph back raised %s" % (where, type(e).__name__), drift
    if res != "ok":
        if items != start:
            return "%s raised ValueError but the paragraph changed: %s" % (where, short(show(items), 200)), drift
        return None, drift
    if items != stored:
        drift.append("%s accepted but items() differs from the stored value" % where)
    if [kv[0] for kv in items] != keys:
        return "%s accepted; the paragraph now has the field names %s" % (where, short(show([kv[0] for kv in items]), 200)), drift
    # carried over into another object through a rotating public way; the original must not change
    if wsel % 4 == 1:
        rh = REENTRIES[(wsel // 4) % len(REENTRIES)]
        try:
            d2 = reenter(d, rh)
            k2 = list(d2.keys())
        except Exception as e:                                       # noqa: BLE001
            return "%s accepted; %s of the paragraph raised %s" % (where, rh, type(e).__name__), drift
        if k2 != keys:
            return "%s accepted; its %s has the field names %s, expected %s" % (where, rh, short(show(k2), 200), ksh), drift
        if rh != "copy.copy":        # (copy.copy is a SHALLOW copy by Python's definition: it shares the storage)
            res2 = assign(d2, keys[(idx + 1) % len(keys)], "y", "setitem")
            if res2 != "ok" or project(d) != items:
                return "%s accepted; assigning to its %s: %s, the original paragraph %s" % (where, rh, res2, "changed" if project(d) != items else "is intact"), drift
            assign(d2, keys[(idx + 1) % len(keys)], conc.nb[(idx + 1) % len(keys)], "setitem")
        where += " [read back from its %s]" % rh
        d = d2
    if wsel % 3 == 2:
        # first a dump into a failing file object of the caller (Deb822ValueHist.FaultDump: the fault comes out,
        # nothing changes, the dump that follows is the dump of the whole paragraph)
        fsel = wsel // 3
        before = project(d)                                          # (d may be a re-parsed copy by now)
        fres, fdesc = fault_dump(d, before, (1, len(before), idx + 1, len(before) // 2 + 1)[fsel % 4], fsel)
        if fres not in ("fault", "not-met"):
            return "%s accepted; then %s: outcome %s, expected the fault of the caller's file object to come out and nothing else" % (where, fdesc, fres), drift
        try:
            after = project(d)
        except Exception as e:                                       # noqa: BLE001
            return "%s accepted; after the failed %s reading the paragraph raised %s" % (where, fdesc, type(e).__name__), drift
        if after != before:
            return "%s accepted; the failed %s changed the paragraph: %s" % (where, fdesc, short(show(after), 200)), drift
        where += " [after a failed %s]" % fdesc
    dh = DUMPS[wsel % len(DUMPS)]
    text, rb = read_all(d, dh)
    if dh != "dump":
        where += " [text via %s]" % dh
    one = {"st": "ok", "paras": [keys]}                      # = OneParagraph(q): one paragraph, same field names
    canonical3 = len(keys) == 3 and len(case["keys"]) == 3 and not conc.dims and "[read back from its" not in where
    kmap = {tuple(k): keys[i] for i, k in enumerate(case["keys"])} if canonical3 else {}
    for f in FORMS:
        got = rb[f + "F"]
        if got != one:
            return ("%s accepted; dump %s read back (%s input, whitespace-separates-paragraphs=False) gives %s, expected one paragraph with keys %s"
                    % (where, short(text or ""), _formname(f), _rbshow(got), ksh)), drift
        got = rb[f + "T"]
        if not case["blank"]:
            if got != one:
                return ("%s accepted (no blank continuation line); dump %s read back (%s input, default setting) gives %s, expected one paragraph with keys %s"
                        % (where, short(text or ""), _formname(f), _rbshow(got), ksh)), drift
        elif canonical3 and case["acc"] and case["wt"]:
            w = case["wt"][idx]["str" if f == "s" else "file"]
            exp = {"st": w["st"], "paras": [[kmap.get(tuple(k), txt(k)) for k in p] for p in w["paras"]]}
            if got != exp and all(tuple(k) in kmap for p in w["paras"] for k in p):
                drift.append("%s: default-setting read-back (%s) %s, reader model %s" % (where, _formname(f), _rbshow(got), _rbshow(exp)))
    # ... and through the ways the producing class itself offers, rotating
    if len(text or "") >= 20000:
        nways = min(nways, 1)
    kn = [] if known is not None else None
    ways = None
    if conc.align and nways:                                 # aligned text: through two kinds of file object
        tb = (text or "").encode("utf-8")
        hit = tb[conc.align["offset"] - 1:conc.align["offset"]] == b"\n"
        if stats is not None:
            ak = ("aligned", "line end at 2^%d%+d %s" % (conc.align["k"], conc.align["delta"], "hit" if hit else "missed"))
            stats[ak] = stats.get(ak, 0) + 1
        ways = pick_file_ways(wsel, 2)
    msg = judge_ways(clsname, text, keys, case["blank"], wsel, nways, kn, ways)
    if kn:
        for m in kn:
            known.append(({"kind": "case", "case": case, "cls": clsname, "conc": conc.to_json(), "route": route,
                           "wsel": wsel, "known": KNOWN_POS_STRICT}, "%s accepted; dump %s %s, expected one paragraph with keys %s" % (where, short(text or ""), m, ksh)))
    if msg:
        return "%s accepted; dump %s %s, expected one paragraph with keys %s" % (where, short(text or ""), msg, ksh), drift
    return None, drift


CASE_CHUNK = 1500
STRESS_EVERY = {"quick": 8, "thorough": 6}


def replay_chunk(payload):
    """worker: replay a chunk of CASE lines; everything it needs comes with the payload"""
    import random
    import traceback
    seed, tier, off, chunk = payload
    quick = tier == "quick"
    rng = random.Random("C08-%s-cases-%d" % (seed, off))
    out = {"n": 0, "stats": {}, "drift": [], "violations": [], "stress": {}, "known": [], "forms": {}, "faults": 0}
    WAY_STATS.clear()
    FAULT_STATS.clear()
    known = []
    stats = {}
    big_left = 2 if quick else 8                      # 64 KiB values / 1000 lines / 1000 fields per chunk
    try:
        for j, c in enumerate(chunk):
            idx = off + j
            v = c["v"]
            # canonical concretization: all three positions for what is accepted and read back,
            # one rotating position for the values the statement wants rejected
            canon_pos = (1, 2, 3) if c["cls"] in ("accept", "blank") else (1 + idx % 3,)
            jobs = [("Deb822", Conc(v, pos), "setitem") for pos in canon_pos]
            # rotating extras: other class / other concretization / update() route
            k = idx % 6
            extra_pos = 1 + (idx // 6) % 3
            xcls = ALL_CLASSES[1 + (idx % 8)]                                 # every class but Deb822, in turn
            xroute = ASSIGN_ROUTES[(idx // 8) % len(ASSIGN_ROUTES)]           # ... through every entry point, in turn
            jobs.append((xcls, Conc(v, extra_pos) if k == 0 else Conc.random(rng, v, extra_pos), xroute))
            if not quick:
                jobs.append((ALL_CLASSES[(idx // 6) % len(ALL_CLASSES)], Conc.random(rng, v, 1 + (idx // 2) % 3),
                             ASSIGN_ROUTES[(idx // 3) % len(ASSIGN_ROUTES)]))
            # every k-th case also gets a size-stressed concretization
            if idx % STRESS_EVERY[tier] == 0 and len(v) >= 1:
                sc = Conc.stress(rng, c, 1 + (idx // 8) % 3, allow_big=big_left > 0)
                if (sc.rep and sc.rep[2] >= 1000) or any(n >= 65535 for _, n in sc.xs) or len(sc.keys) >= 1000:
                    big_left -= 1
                jobs.append((ALL_CLASSES[(idx // 8) % len(ALL_CLASSES)], sc, ASSIGN_ROUTES[(idx // 16) % len(ASSIGN_ROUTES)]))
                for dname in sc.dims:
                    out["stress"][dname] = out["stress"].get(dname, 0) + 1
            for jn, (clsname, conc, route) in enumerate(jobs):
                # the three canonical Deb822 jobs share one turn of the class-specific ways
                nw = 2 if (jn >= len(canon_pos) or jn == idx % len(canon_pos)) else 0
                msg, drift = check_case(c, clsname, conc, route, stats, wsel=idx * 5 + jn, known=known, nways=nw)
                out["n"] += 1
                if drift and len(out["drift"]) < 3:
                    out["drift"].append(drift[0])
                if msg:
                    if len(out["violations"]) < 3:
                        out["violations"].append(({"kind": "case", "case": c, "cls": clsname, "wsel": idx * 5 + jn, "nways": nw,
                                                   "conc": conc.to_json(), "route": route}, msg))
                    break
        out["stats"] = {"%s/%s" % k: n for k, n in stats.items()}
        out["known"] = [len(known), known[:1]]
        out["forms"] = dict(WAY_STATS)
        out["faults"] = sum(FAULT_STATS.values())
    except Exception:                                                # noqa: BLE001  harness bug, not an observation
        out["crash"] = traceback.format_exc()
    return out


def _formname(f):
    return {"s": "str", "f": "io.StringIO", "b": "io.BytesIO"}[f]


def _rbshow(r):
    if r["st"] != "ok":
        return r["st"]
    if sum(len(p) for p in r["paras"]) > 8:
        return "%d paragraph(s) with %s field(s)" % (len(r["paras"]), "+".join(str(len(p)) for p in r["paras"]))
    return "%d paragraph(s) %s" % (len(r["paras"]), show(r["paras"]))


# ------------------------------------------------------------------ (a') LTS walks: histories on live objects

MODEL_KEYS = {(65,): "A", (78,): "N", (70, 105, 108, 101, 115): "F"}
# the model's key "Files" = a field that is MULTIVALUED (not validated) in the classes "S" and an ordinary,
# validated field in the classes "D".  Every multivalued field of every class can play it (the S / D sides
# follow from the table MULTI below); Files with Dsc / Changes / Sources is the most frequent one.
FAMILY_KEYS = ("Files", "Files", "Files", "Checksums-Sha256", "Checksums-Sha1", "SHA256", "MD5Sum", "SHA1-History", "Checksums-Md5")


def family(fkey):
    """(classes where fkey is multivalued, classes where it is an ordinary field)"""
    sset = tuple(c for c in ALL_CLASSES if fkey.lower() in MULTI[c])
    return sset, tuple(c for c in ALL_CLASSES if c not in sset)


class HistConc:
    """concretization of one walk through the LTS of Deb822ValueHist: real classes of the three
    live objects, field names for A / N (Files stays Files), padding fields in front of A, and ONE
    concrete string per model value for the whole walk (the same value goes to different keys,
    objects and classes)"""

    def __init__(self, rng, values, stress):
        # "D" of the model: a class in which Files is an ordinary, validated field (the base class Deb822
        # more often than the others: every other class is a subclass of it)
        fkey = rng.choice(FAMILY_KEYS)
        self.sset, self.dset = family(fkey)
        self.classes = ["Deb822" if rng.random() < 0.35 else rng.choice(self.dset), rng.choice(self.sset), rng.choice(self.sset)]
        # entry points, mixed within the history: how each object is created, which assignment
        # routes / dump forms / copies come up at which step
        self.builds = [rng.choice(BUILD_KINDS) for _ in self.classes]
        self.rsel = rng.randrange(1000)
        taken = set()
        klen = heavy(rng, KEY_LENS) if (stress and rng.random() < 0.3) else 0
        names = rng.sample(KEY_POOL, 2)
        self.keymap = {"A": long_key(rng, klen, taken) if klen else names[0],
                       "N": long_key(rng, klen + 1, taken) if klen else names[1],
                       "F": rng.choice([fkey, fkey, fkey.lower(), fkey.upper()])}
        taken |= {k.lower() for k in self.keymap.values()}
        npad = heavy(rng, [0, 1, 2, 9, 15, 16, 31, 32, 97, 98, 254]) if (stress and rng.random() < 0.4) else rng.choice([0, 0, 0, 1, 2])
        self.pad = [[long_key(rng, rng.choice([2, 7, 8, 16]), taken), simple_value(rng)] for _ in range(npad)]
        if rng.random() < 0.2:
            t = 2 * rng.randrange(len(TWIN_KEYS) // 2)
            self.pad += [[TWIN_KEYS[t], simple_value(rng)], [TWIN_KEYS[t + 1], simple_value(rng)]]
        self.valmap = {}
        for val in values:
            c = {"v": val["v"], "segs": val["segs"]}
            if stress and rng.random() < 0.6:
                conc = Conc.stress(rng, c, 1, allow_big=rng.random() < 0.1)
                conc.keys, conc.nb, conc.idx = ["A", "B", "C"], ["x"] * 3, 0      # only the value part is used
            else:
                conc = Conc.random(rng, val["v"], 1)
            self.valmap[tuple(val["v"])] = conc.value(val["v"])

    def key(self, k):
        return self.keymap[MODEL_KEYS[tuple(k)]]

    def para(self, model_para, pad=True):
        """the concrete paragraph of a model paragraph; the padding fields belong to the START objects (and to
        what is built from them), a paragraph that started empty has none"""
        return ([list(f) for f in self.pad] if pad else []) + [[self.key(f["k"]), self.valmap[tuple(f["v"])]] for f in model_para]

    def to_json(self):
        return {"classes": self.classes, "keymap": self.keymap, "pad": self.pad, "builds": self.builds, "rsel": self.rsel,
                "sset": list(self.sset), "dset": list(self.dset),
                "valmap": [[list(k), v] for k, v in self.valmap.items()]}

    @classmethod
    def from_json(cls, j):
        c = cls.__new__(cls)
        c.classes, c.keymap, c.pad = list(j["classes"]), dict(j["keymap"]), [list(f) for f in j["pad"]]
        c.builds, c.rsel = list(j.get("builds", ["assign"] * 3)), j.get("rsel", 0)
        c.sset, c.dset = tuple(j.get("sset", ("Dsc", "Changes", "Sources"))), tuple(j.get("dset", ("Deb822", "Release", "BuildInfo", "PdiffIndex", "Packages", "Removals")))
        c.valmap = {tuple(k): v for k, v in j["valmap"]}
        return c


FAULT_RATE = 0.11                                 # share of the steps of a walk that are faults of caller-supplied objects


def gen_walk(rng, g, n):
    """walk through the LTS biased towards the leak scenarios: repeat an assignment after a
    rejection, give the same value to another key / object / class, follow a multivalued-key
    assignment by the same value on a validated key"""
    s = g.init
    path = []
    prev = None
    for _ in range(n):
        outs = g.out[s]
        e = None
        r = rng.random()
        faults = [x for x in outs if x["op"] == "faultdump"]
        if faults and rng.random() < FAULT_RATE:
            # a dump into a failing file object of the caller, more often than not on the object just assigned to
            near = [x for x in faults if prev is not None and prev["op"] == "assign" and x["args"][0] == prev["args"][0]]
            e = rng.choice(near if (near and rng.random() < 0.6) else faults)
        elif prev is not None and prev["op"] in ("assign", "scratch"):
            same_val = [x for x in outs if x["op"] == "assign" and x["args"][2] == prev["args"][2]]
            if prev["op"] == "scratch" and r < 0.7:
                e = rng.choice(same_val)
            elif prev["res"] == "ValueError" and r < 0.3:
                e = next(x for x in outs if x["op"] == prev["op"] and x["args"] == prev["args"])
            elif r < 0.55:
                e = rng.choice(same_val)
        if e is None:
            outs = [x for x in outs if x["op"] != "faultdump"]
            e = rng.choices(outs, weights=[3 if x["from"] != x["to"] else (2 if x["op"] == "scratch" else 1) for x in outs])[0]
        path.append(e)
        prev = e
        s = e["_t"]
    return path


def gen_walk_build(rng, g, n):
    """walk through the LTS with construction (Fresh / Rebuild), biased towards the scenarios the
    construction layer is about: fill a paragraph that has just become empty (bad values first), assign
    to a paragraph that has just been built from a mapping, hand a raw value to a constructor right
    after it went to a multivalued key, repeat a rejected construction"""
    s = g.init
    path = []
    prev = None
    for _ in range(n):
        outs = g.out[s]
        by = {}
        for x in outs:
            by.setdefault(x["op"], []).append(x)
        e = None
        r = rng.random()
        fops = [op for op in ("faultdump", "faultbuild") if op in by]
        if fops and rng.random() < FAULT_RATE:
            # a failing file object handed to dump(fd) (twice as often) / a failing mapping handed to a constructor
            e = rng.choice(by[rng.choice(fops + ["faultdump"] if "faultdump" in fops else fops)])
        elif prev is not None and not prev["op"].startswith("fault"):
            same_obj = [x for x in by.get("assign", []) if x["args"][0] == prev["args"][0]] if prev["op"] != "scratch" else []
            if prev["op"] == "fresh" and r < 0.8:
                bad = [x for x in same_obj if x["res"] != "ok"]
                e = rng.choice(bad if (bad and rng.random() < 0.6) else same_obj)
            elif prev["op"] == "rebuild" and r < 0.35:
                e = rng.choice(same_obj)
            elif prev["op"] == "rebuild" and prev["res"] != "ok" and r < 0.5:
                e = next(x for x in outs if x["op"] == "rebuild" and x["args"] == prev["args"])
            elif prev["op"] == "scratch" and r < 0.7:
                cand = [x for x in by.get("rebuild", []) if x["args"][3] == prev["args"][2]] + \
                       [x for x in by.get("assign", []) if x["args"][2] == prev["args"][2]]
                e = rng.choice(cand)
            elif prev["op"] == "assign" and prev["res"] != "ok" and r < 0.2:
                e = next(x for x in outs if x["op"] == "assign" and x["args"] == prev["args"])
        if e is None:
            op = rng.choices(["assign", "scratch", "fresh", "rebuild"], weights=[38, 5, 17, 40])[0]
            if op == "rebuild":
                # a raw value under the multivalued key, a paragraph as the carrier, the D object as the target
                e = rng.choices(by[op], weights=[(3 if x["args"][3] else 1) * (2 if x["args"][2] == "S" else 1) * (2 if x["args"][0] == 1 else 1)
                                                 for x in by[op]])[0]
            else:
                e = rng.choice(by[op])
        path.append(e)
        prev = e
        s = e["_t"]
    return path


WALK_ROUTES = ("setitem", "update", "setdefault", "update-map", "setitem", "update-kw", "setdefault")

# ---- every way to obtain an EMPTY paragraph (model action Fresh / trace event "fresh")
COMMENT_8K = "#" + "c" * 8190 + "\n"                  # a comment line whose end sits exactly at offset 8192
EMPTY_WAYS = {
    # no input at all / an empty mapping / a copy of an empty paragraph
    "noarg": ("Cls()", "Cls(None)", "Cls({})", "Cls(Deb822Dict())", "Cls(sequence=None)", "Cls(Deb822())", "Cls().copy()",
              "copy.deepcopy(Cls())", "pickle(Cls())", "Cls(OrderedDict())", "Cls(fields=['Source'])", "Cls(Cls())", "type(old)()"),
    # the PARSING constructor over input without any field
    "parsed": ("Cls([])", "Cls('')", "Cls(b'')", "Cls(io.StringIO(''))", "Cls(io.BytesIO(b''))", "Cls(empty text file)",
               "Cls(empty binary file)", "Cls('\\n\\n')", "Cls(['\\n'])", "Cls([b'\\n', b'\\n'])", "Cls('# comment\\n')",
               "Cls(['# c1\\n', '\\n', '# c2'])", "Cls('  \\n\\t\\n')", "Cls('\\r\\n\\r\\n')", "Cls(iter([]))", "Cls(generator of nothing)",
               "Cls('Source: a\\n', fields=['Zz'])", "Cls([], strict=...)", "Cls('', None, None, 'utf-8', strict)", "Cls(sequence=[])",
               "Cls(io.BytesIO(b'# c\\n\\n'))", "Cls(gzip file of blank lines)", "Cls(short-read reader of comments)",
               "Cls(8192-byte comment line)", "Cls(io.StringIO(8192-byte comment + blank line))", "Cls(unbuffered empty file)",
               "Cls(SpooledTemporaryFile, empty)", "Cls('\\n' * 8192)", "Cls(bz2 file, empty)", "Cls(b'#\\n#\\n', encoding='utf-8')"),
    # the SAME object emptied
    "cleared": ("d.clear()", "del d[k] for every k", "d.pop(k) for every k", "d.popitem() until empty"),
}


def make_empty(clsname, how, sel, old=None):
    """an EMPTY paragraph of class clsname through one of the public ways (rotating with sel); returns
    (object, description).  "cleared" empties and returns `old` itself."""
    import collections
    import copy
    import pickle
    from debian.deb822 import Deb822, Deb822Dict
    cls = get_class(clsname)
    names = EMPTY_WAYS[how]
    name = names[sel % len(names)]
    strict = dict(WS_FALSE)
    if how == "cleared":
        d = old
        if name == "d.clear()":
            d.clear()
        elif name.startswith("del"):
            for k in list(d.keys()):
                del d[k]
        elif name.startswith("d.pop(k)"):
            for k in list(d.keys()):
                d.pop(k)
        else:
            while len(d):
                d.popitem()
        return d, name
    closers = []
    try:
        if how == "noarg":
            d = {"Cls()": lambda: cls(), "Cls(None)": lambda: cls(None), "Cls({})": lambda: cls({}),
                 "Cls(Deb822Dict())": lambda: cls(Deb822Dict()), "Cls(sequence=None)": lambda: cls(sequence=None),
                 "Cls(Deb822())": lambda: cls(Deb822()), "Cls().copy()": lambda: cls().copy(),
                 "copy.deepcopy(Cls())": lambda: copy.deepcopy(cls()), "pickle(Cls())": lambda: pickle.loads(pickle.dumps(cls())),
                 "Cls(OrderedDict())": lambda: cls(collections.OrderedDict()), "Cls(fields=['Source'])": lambda: cls(fields=["Source"]),
                 "Cls(Cls())": lambda: cls(cls()),
                 "type(old)()": lambda: (type(old) if old is not None else cls)()}[name]()
            return d, name.replace("Cls", clsname)
        if name == "Cls(empty text file)":
            src, closers = open_form("F", "")
        elif name == "Cls(empty binary file)":
            src, closers = open_form("R", "")
        elif name == "Cls(unbuffered empty file)":
            src, closers = open_form("U", "")
        elif name == "Cls(SpooledTemporaryFile, empty)":
            src, closers = open_form("P", "", sel=sel)
        elif name == "Cls(bz2 file, empty)":
            src, closers = open_form("J", "")
        elif name == "Cls(gzip file of blank lines)":
            src, closers = open_form("Z", "\n \n\n")
        elif name == "Cls(short-read reader of comments)":
            src, closers = open_form("H", "# one\n#two\n\n# three", sel=sel)
        else:
            src = {"Cls([])": lambda: [], "Cls('')": lambda: "", "Cls(b'')": lambda: b"", "Cls(io.StringIO(''))": lambda: io.StringIO(""),
                   "Cls(io.BytesIO(b''))": lambda: io.BytesIO(b""), "Cls('\\n\\n')": lambda: "\n\n", "Cls(['\\n'])": lambda: ["\n"],
                   "Cls([b'\\n', b'\\n'])": lambda: [b"\n", b"\n"], "Cls('# comment\\n')": lambda: "# comment\n",
                   "Cls(['# c1\\n', '\\n', '# c2'])": lambda: ["# c1\n", "\n", "# c2"], "Cls('  \\n\\t\\n')": lambda: "  \n\t\n",
                   "Cls('\\r\\n\\r\\n')": lambda: "\r\n\r\n", "Cls(iter([]))": lambda: iter([]),
                   "Cls(generator of nothing)": lambda: (x for x in ()), "Cls('Source: a\\n', fields=['Zz'])": lambda: "Source: a\n",
                   "Cls([], strict=...)": lambda: [], "Cls('', None, None, 'utf-8', strict)": lambda: "", "Cls(sequence=[])": lambda: [],
                   "Cls(io.BytesIO(b'# c\\n\\n'))": lambda: io.BytesIO(b"# c\n\n"), "Cls(8192-byte comment line)": lambda: COMMENT_8K,
                   "Cls(io.StringIO(8192-byte comment + blank line))": lambda: io.StringIO(COMMENT_8K + "\n"),
                   "Cls('\\n' * 8192)": lambda: "\n" * 8192, "Cls(b'#\\n#\\n', encoding='utf-8')": lambda: b"#\n#\n"}[name]()
        with warnings.catch_warnings():
            warnings.simplefilter("ignore")
            if "fields=['Zz']" in name:
                d = cls(src, fields=["Zz"])
            elif name == "Cls([], strict=...)":
                d = cls(src, strict=strict)
            elif "None, None, 'utf-8', strict" in name:
                d = cls(src, None, None, "utf-8", strict)
            elif name == "Cls(sequence=[])":
                d = cls(sequence=src)
            elif "encoding='utf-8'" in name:
                d = cls(src, encoding="utf-8")
            else:
                d = cls(src)
        return d, name.replace("Cls", clsname)
    finally:
        for f in closers:
            try:
                f.close()
            except Exception:                                        # noqa: BLE001
                pass


# ---- every kind of MAPPING a paragraph can be built from (model action Rebuild / trace event "build")
PLAIN_CARRIERS = ("dict", "Deb822Dict", "OrderedDict", "user-defined Mapping", "UserDict", "MappingProxyType", "user-defined Mapping with lazy items()", "ChainMap")
BUILD_STYLES = ("Cls(M)", "Cls(sequence=M)", "Cls(M, None)", "Cls(M, fields=None, encoding='utf-8')", "Cls(M, strict=...)",
                "Cls(M, None, None, 'utf-8', None)")


def _custom_mapping(pairs, lazy):
    """a user-defined collections.abc.Mapping (nothing but the abstract methods; lazy: its items() is a
    one-shot iterator)"""
    import collections.abc

    class CustomMapping(collections.abc.Mapping):
        def __init__(self):
            self._keys = [k for k, _ in pairs]
            self._d = dict(pairs)

        def __getitem__(self, k):
            return self._d[k]

        def __iter__(self):
            return iter(self._keys)

        def __len__(self):
            return len(self._keys)

        if lazy:
            def items(self):
                return iter([(k, self._d[k]) for k in self._keys])
    return CustomMapping()


def plain_carrier(pairs, sel):
    import collections
    import types
    from debian.deb822 import Deb822Dict
    name = PLAIN_CARRIERS[sel % len(PLAIN_CARRIERS)]
    pairs = [tuple(kv) for kv in pairs]
    if name == "dict":
        return dict(pairs), name
    if name == "Deb822Dict":
        return Deb822Dict(pairs), name
    if name == "OrderedDict":
        return collections.OrderedDict(pairs), name
    if name == "UserDict":
        return collections.UserDict(pairs), name
    if name == "MappingProxyType":
        return types.MappingProxyType(dict(pairs)), name
    if name == "ChainMap":
        return collections.ChainMap(collections.OrderedDict(pairs)), name
    return _custom_mapping(pairs, lazy="lazy" in name), name


def para_carrier(clsname, pairs):
    """a throw-away paragraph of class clsname filled by ASSIGNMENT (a field that is multivalued in that
    class takes a raw string unvalidated); None when it does not hold exactly `pairs` afterwards -- what
    such a class does with a raw string is not decided by the statement"""
    try:
        d = get_class(clsname)()
        for k, v in pairs:
            d[k] = v
        if project(d) != [list(kv) for kv in pairs]:
            return None
        return d
    except Exception:                                                # noqa: BLE001
        return None


def build_from(clsname, carrier, style):
    """(new object or None, "ok" | "ValueError" | "EXC:<type>")"""
    cls = get_class(clsname)
    name = BUILD_STYLES[style % len(BUILD_STYLES)]
    try:
        if name == "Cls(M)":
            d = cls(carrier)
        elif name == "Cls(sequence=M)":
            d = cls(sequence=carrier)
        elif name == "Cls(M, None)":
            d = cls(carrier, None)
        elif name.startswith("Cls(M, fields=None"):
            d = cls(carrier, fields=None, encoding="utf-8")
        elif name == "Cls(M, strict=...)":
            d = cls(carrier, strict=dict(WS_FALSE))
        else:
            d = cls(carrier, None, None, "utf-8", None)
        return d, "ok"
    except ValueError:
        return None, "ValueError"
    except Exception as e:                                           # noqa: BLE001
        return None, "EXC:" + type(e).__name__


def run_walk(path, init_state, hc, full_every=6):
    """replay one walk on three live objects (+ throw-away objects for the multivalued-key steps);
    returns (message or None, steps executed).  After EVERY step: result as the model says, the
    paragraph of every live object as the model says (atomicity of rejections, no aliasing between
    paragraphs, nothing left behind); after an accepted step the read-back verdicts of that object,
    every `full_every` steps and at the end those of all objects.  Entry points are mixed: the
    objects are created through different constructors, values enter through d[k] = v / update /
    setdefault, now and then a live object is replaced by its copy / deepcopy / pickle / mapping
    copy (the original stays alive and must not change), the text leaves through dump / str / fd."""
    objs = []
    try:
        for o, clsname in enumerate(hc.classes):
            objs.append(build(clsname, hc.para(init_state[o]), hc.builds[o], hc.rsel + 5 * o))
    except Exception as e:                                           # noqa: BLE001
        return "building the start paragraphs (%s) raised %s" % (hc.builds, type(e).__name__), 0
    prev_items = [project(d) for d in objs]
    for o in range(len(objs)):
        if prev_items[o] != hc.para(init_state[o]):
            return "start paragraph %d (created via %s) reads %s" % (o + 1, hc.builds[o], short(show(prev_items[o]), 200)), 0
    ghosts = []                                                      # (step, how, original object, its items)
    haspad = [True] * len(objs)                                      # the padding fields go with the start objects
    n = 0
    for i, e in enumerate(path):
        n += 1
        if e["op"] in ("fresh", "rebuild", "faultdump", "faultbuild"):
            o = e["args"][0]
            k = v = val = None
        else:
            o, k, v = e["args"]
            val = hc.valmap[tuple(v)]
        if (i + hc.rsel) % 5 == 2:                                   # carry a live object over into a new one
            q = (i + hc.rsel) % len(objs)
            rh = REENTRIES[((i + hc.rsel) // 5) % len(REENTRIES)]
            try:
                new = reenter(objs[q], rh)
                if project(new) != prev_items[q]:
                    return "step %d: %s of object %d reads %s, the original %s" % (i + 1, rh, q + 1, short(show(project(new)), 160), short(show(prev_items[q]), 160)), n
            except Exception as ex:                                  # noqa: BLE001
                return "step %d: %s of object %d (%s) raised %s" % (i + 1, rh, q + 1, hc.classes[q], type(ex).__name__), n
            if rh != "copy.copy":    # (a shallow copy shares the storage by Python's definition: it is only read)
                ghosts.append((i + 1, rh, objs[q], prev_items[q]))
                objs[q] = new
        if e["op"] == "fresh":
            # live object o is replaced by an EMPTY paragraph of its class (or emptied in place)
            target = o - 1
            how = e["args"][1]
            old_obj = objs[target]
            try:
                new, wname = make_empty(hc.classes[target], how, i * 7 + hc.rsel, old_obj)
                got = project(new)
            except Exception as ex:                                  # noqa: BLE001
                return "step %d: an empty %s paragraph through %s (%s) raised %s" % (
                    i + 1, hc.classes[target], EMPTY_WAYS[how][(i * 7 + hc.rsel) % len(EMPTY_WAYS[how])], how, type(ex).__name__), n
            where = "step %d: object %d replaced by an empty paragraph, %s" % (i + 1, o, wname)
            if got != [] or type(new) is not get_class(hc.classes[target]):
                return "%s: it is a %s holding %s" % (where, type(new).__name__, short(show(got), 160)), n
            if new is not old_obj:
                ghosts.append((i + 1, "predecessor of the empty paragraph", old_obj, prev_items[target]))
            objs[target] = new
            haspad[target] = False
            prev_items[target] = []
        elif e["op"] == "rebuild":
            # live object o is replaced by Cls_o(M); M carries the fields m (TLC computed them)
            target = o - 1
            _, q, ckind, x, m = e["args"]
            content = hc.para(m, haspad[q - 1])
            sel = i * 5 + hc.rsel
            qkind = "D" if q == 1 else "S"
            if ckind == "dict":
                carrier, cname = plain_carrier(content, sel)
            elif not x and ckind == qkind and sel % 2 == 0 and prev_items[q - 1] == content:
                carrier, cname = objs[q - 1], "live object %d (%s)" % (q, hc.classes[q - 1])
            else:
                ccls = (hc.dset if ckind == "D" else hc.sset)[sel % len(hc.dset if ckind == "D" else hc.sset)]
                carrier, cname = para_carrier(ccls, content), "a %s paragraph" % ccls
                if carrier is None:
                    # the carrier class did not take the fields as they are (raw string under its multivalued
                    # key: not decided by the statement) -- this history cannot be followed any further
                    return None, n - 1
            style = sel // 3
            where = "step %d: object %d := %s with M = %s holding %s" % (
                i + 1, o, BUILD_STYLES[style % len(BUILD_STYLES)].replace("Cls", hc.classes[target]), cname, short(show(content), 160))
            new, res = build_from(hc.classes[target], carrier, style)
            if res != e["res"]:
                return "%s: outcome %s, the model says %s (building a paragraph from a mapping assigns every field; the verdict depends on the target class and the values only)" % (where, res, e["res"]), n
            if res == "ok":
                if type(new) is not get_class(hc.classes[target]):
                    return "%s: the result is a %s" % (where, type(new).__name__), n
                ghosts.append((i + 1, "predecessor of the rebuilt paragraph", objs[target], prev_items[target]))
                objs[target] = new
                haspad[target] = haspad[q - 1]
        elif e["op"] == "faultdump":
            # o.dump(fd), the caller's fd failing while model field k is written (the padding fields come first)
            target = o - 1
            kf = e["args"][1]
            cur = prev_items[target]
            npad = len(cur) - len(e["from"][target])
            sel = i * 11 + hc.rsel
            j = npad + kf if (kf > 1 or npad <= 0) else (1, npad // 2 + 1, npad + 1)[sel % 3]
            res, desc = fault_dump(objs[target], cur, j, sel)
            where = "step %d: object %d (%s) %s" % (i + 1, o, hc.classes[target], desc)
            if res == "not-met":
                return None, n - 1                                   # (the library never wrote that far: no verdict)
            if res != e["res"]:
                return "%s: outcome %s, the model says the fault of the caller's file object comes out and nothing else" % (where, res), n
        elif e["op"] == "faultbuild":
            # Cls_o(M), the caller's mapping M over the fields of object q failing at its k-th item
            target = o - 1
            _, q, kf = e["args"]
            content = prev_items[q - 1]
            npad = len(content) - len(e["from"][q - 1])
            sel = i * 13 + hc.rsel
            j = npad + kf if (kf > 1 or npad <= 0) else (1, npad // 2 + 1, npad + 1)[sel % 3]
            res, desc = fault_build(hc.classes[target], content, j, sel)
            where = "step %d: object %d := %s holding %s" % (i + 1, o, desc, short(show(content), 160))
            if res != e["res"]:
                return "%s: outcome %s, the model says the fault of the caller's mapping comes out and no object is built" % (where, res), n
        elif e["op"] == "scratch":
            clsname = hc.classes[1 + i % 2]
            where = "step %d: %s()[%r] = %s on a throw-away object (multivalued key)" % (i + 1, clsname, hc.key(k), short(val))
            try:
                tmp = get_class(clsname)()
                assign(tmp, hc.key(k), val)                          # outcome not decided by the statement
            except Exception:                                        # noqa: BLE001
                pass
            target = None
        else:
            target = o - 1
            route = WALK_ROUTES[(i + hc.rsel) % len(WALK_ROUTES)]
            where = "step %d: object %d (%s) %s [%s] = %s" % (i + 1, o, hc.classes[target], route, short(hc.key(k), 40), short(val))
            res = assign(objs[target], hc.key(k), val, route)
            if res != e["res"]:
                return "%s: outcome %s, the model says %s (history: %d earlier steps, previous step %s)" % (
                    where, res, e["res"], i, _stepshow(path[i - 1], hc) if i else "none"), n
        for q, d in enumerate(objs):
            try:
                items = project(d)
            except Exception as ex:                                  # noqa: BLE001
                return "%s: reading object %d raised %s" % (where, q + 1, type(ex).__name__), n
            exp = hc.para(e["to"][q], haspad[q])
            if q == target and e["res"] == "ok":
                if [kv[0] for kv in items] != [kv[0] for kv in exp]:
                    return "%s accepted: field names are now %s, the model says %s" % (where, short(show([kv[0] for kv in items]), 200), short(show([kv[0] for kv in exp]), 200)), n
            elif items != prev_items[q] or [kv[0] for kv in items] != [kv[0] for kv in exp]:
                what = ("the failed call changed the paragraph" if e["op"].startswith("fault") else "the rejected assignment changed the paragraph") if q == target \
                    else "live object %d (%s) changed" % (q + 1, hc.classes[q])
                return "%s: %s: %s -> %s" % (where, what, short(show(prev_items[q]), 160), short(show(items), 160)), n
            prev_items[q] = items
        todo = []
        if target is not None and (e["res"] == "ok" or e["op"] == "faultdump"):
            todo.append(target)                                      # (after a failed dump: the next dump is the whole paragraph)
        if (i + 1) % full_every == 0 or i == len(path) - 1:
            todo = list(range(len(objs)))
        for q in todo:
            if not prev_items[q]:
                continue                                             # an empty paragraph has no text to read back
            dh = DUMPS[(i + q + hc.rsel) % len(DUMPS)]
            text, rb = read_all(objs[q], dh)
            keys = [kv[0] for kv in prev_items[q]]
            one = {"st": "ok", "paras": [keys]}
            for f in FORMS:
                for ws in "FT":                                      # model values have no blank continuation line
                    if rb[f + ws] != one:
                        return "%s: object %d, text via %s %s reads back (%s input, %s) as %s, expected one paragraph with its %d field names" % (
                            where, q + 1, dh, short(text or ""), _formname(f), "setting False" if ws == "F" else "default setting", _rbshow(rb[f + ws]), len(keys)), n
            msg = judge_ways(hc.classes[q], text, keys, False, i * 3 + q + hc.rsel, 2)     # ... and through its own class
            if msg:
                return "%s: object %d, text via %s %s %s, expected one paragraph with its %d field names" % (where, q + 1, dh, short(text or ""), msg, len(keys)), n
    for step, rh, d, items in ghosts:                                # the originals of the copies are untouched
        try:
            now = project(d)
        except Exception as ex:                                      # noqa: BLE001
            return "the original of the %s made at step %d cannot be read any more: %s" % (rh, step, type(ex).__name__), n
        if now != items:
            return "the original of the %s made at step %d changed afterwards: %s -> %s" % (rh, step, short(show(items), 160), short(show(now), 160)), n
    return None, n


def _stepshow(e, hc):
    if e["op"] == "fresh":
        return "object %s replaced by an empty paragraph (%s)" % (e["args"][0], e["args"][1])
    if e["op"] == "rebuild":
        return "object %s := Cls(%s mapping of object %s%s) -> %s" % (e["args"][0], e["args"][2], e["args"][1], " + raw value" if e["args"][3] else "", e["res"])
    if e["op"] == "faultdump":
        return "object %s dumped into a file object failing at field %s" % (e["args"][0], e["args"][1])
    if e["op"] == "faultbuild":
        return "object %s := Cls(mapping of object %s failing at item %s)" % tuple(e["args"])
    o, k, v = e["args"]
    return "%s %s[%s]=%s -> %s" % (e["op"], o, hc.key(k), short(hc.valmap[tuple(v)], 30), e["res"])


def walk_chunk(payload):
    import random
    import traceback
    from lts import LTS, strip
    seed, tier, off, nwalks, wlen, edges, init, values = payload[:8]
    kind = payload[8] if len(payload) > 8 else "classic"
    rng = random.Random("C08-%s-walks-%s-%d" % (seed, kind, off))
    out = {"n": 0, "steps": 0, "violations": [], "ops": {}, "kind": kind, "forms": {}, "faults": {}}
    WAY_STATS.clear()
    FAULT_STATS.clear()
    try:
        g = LTS(edges, init)
        for w in range(nwalks):
            stress = (off + w) % 3 == 0
            hc = HistConc(rng, values, stress)
            path = (gen_walk_build if kind == "build" else gen_walk)(rng, g, wlen)
            msg, n = run_walk(path, init, hc)
            out["n"] += 1
            out["steps"] += n
            for e in path[:n]:
                kk = "%s/%s" % (e["op"], e["res"])
                out["ops"][kk] = out["ops"].get(kk, 0) + 1
            if msg and len(out["violations"]) < 2:
                out["violations"].append(({"kind": "walk", "init": init, "path": [strip(e) for e in path], "conc": hc.to_json()},
                                          "history on live objects %s: %s" % (hc.classes, msg)))
        out["forms"] = dict(WAY_STATS)
        out["faults"] = dict(FAULT_STATS)
    except Exception:                                                # noqa: BLE001
        out["crash"] = traceback.format_exc()
    return out


# ------------------------------------------------------------------ (b) trace recording
BOUNDARIES = ["\n"] * 7 + ["\r\n"] * 2 + ["\r"]


def gen_body(rng, n):
    out = []
    for _ in range(n):
        r = rng.random()
        if r < 0.62:
            out.append(pick_x(rng))
        elif r < 0.74:
            out.append(" ")
        elif r < 0.80:
            out.append("\t")
        elif r < 0.90:
            out.append(":")
        else:
            out.append("#")
    return "".join(out)


def gen_value(rng):
    """a value over the property's domain (printable, ':', '#', space, tab, CR, LF), <= 40 chars"""
    mode = rng.random()
    if mode < 0.25:                                     # uniform over the seven symbol classes
        n = rng.randint(0, 9)
        s = "".join(rng.choice([pick_x(rng), ":", "#", " ", "\t", "\r", "\n"]) for _ in range(n))
    elif mode < 0.72:                                   # line structured, mostly well-formed
        lines = [gen_body(rng, rng.choice([0, 0, 1, 2, 3, 5, 8]))]
        for _ in range(rng.choice([0, 1, 1, 2, 2, 3, 4])):
            r = rng.random()
            if r < 0.80:
                indent = "".join(rng.choice(" \t") for _ in range(rng.randint(1, 2)))
            else:
                indent = ""
            r = rng.random()
            if r < 0.10:
                body = ""
            elif r < 0.20:
                body = gen_body(rng, rng.randint(1, 3)).replace(":", " ") + ": " + gen_body(rng, rng.randint(0, 2))
            else:
                body = gen_body(rng, rng.randint(1, 8))
            lines.append(indent + body)
        s = lines[0]
        for ln in lines[1:]:
            s += rng.choice(BOUNDARIES) + ln
        r = rng.random()
        if r < 0.06:
            s += "\n"
        elif r < 0.12:
            s += "\r"
        elif r < 0.16:
            s += " "
    elif mode < 0.80:                                   # CR forms and tab / space mixes: one boundary style
        bnd = rng.choice(["\r\n", "\r\n", "\r", "\n"])     # throughout, tab-only or mixed indentation,
        ind = rng.choice(["\t", "\t\t", " \t", "\t ", " "])  # trailing tabs / spaces / CR
        parts = [gen_body(rng, rng.randint(0, 4))]
        for _ in range(rng.randint(1, 4)):
            parts.append(ind + gen_body(rng, rng.randint(1, 5)).replace(" ", "\t") + rng.choice(["", "\t", " ", "\t \t"]))
        s = bnd.join(parts) + rng.choice(["", "", "\r", "\t", "\r\n"])
    elif mode < 0.88:                                   # armor shaped continuation lines
        s = gen_body(rng, rng.randint(0, 2)) + rng.choice(["\n ", "\n", "\r", "\r\n\t", "\n \r", "\r "]) \
            + rng.choice(["-----BEGIN PGP SIGNATURE-----", "-----END PGP SIGNATURE-----", "-----BEGIN PGP SIGNED MESSAGE-----"]) \
            + rng.choice(["", "\r", " ", "\n x"])
    else:                                               # injection shaped
        key = gen_body(rng, rng.randint(1, 4)).replace(":", "x").replace(" ", "x").replace("\t", "x")
        sep = rng.choice(["\n", "\r", "\r\n", "\n\r", "\n\n", "\n ", "\r ", "\n\t", " \r", "\n \r", "\n#", "\r\r\n ", "\n \n"])
        s = gen_body(rng, rng.randint(0, 3)) + sep + key + rng.choice([":", ": ", " :", ":\t"]) + gen_body(rng, rng.randint(0, 3))
    return s[:40]


def simple_value(rng):
    r = rng.random()
    if r < 0.5:
        return "".join(pick_x(rng) for _ in range(rng.randint(1, 4)))
    if r < 0.7:
        return ""
    if r < 0.82:
        return pick_x(rng) + "\n " + pick_x(rng) + "\n\t" + pick_x(rng) + ": " + pick_x(rng)
    if r < 0.90:                                        # looks like PGP armor, but is a continuation line
        return pick_x(rng) + "\n" + rng.choice([" ", "\t", "  "]) + rng.choice(["-----BEGIN PGP SIGNATURE-----", "-----END PGP SIGNATURE-----", "-----BEGIN PGP SIGNED MESSAGE-----"]) + "\n " + pick_x(rng)
    return "\n " + pick_x(rng) + " #" + pick_x(rng)


LINE_ENDS = ("\n", "\r", "\r\n")


def boundary_cuts(s):
    """every position of s next to a line-boundary character of the domain: in front of it, behind it, between
    CR and LF -- plus the two ends"""
    cuts = {0, len(s)}
    for i, ch in enumerate(s):
        if ch in "\r\n":
            cuts.update((i, i + 1))
    return sorted(cuts)


def gen_chain(rng):
    """values for successive assignments to ONE key of one object: base + line end + tail and its prefixes cut at
    every line-boundary character (so that the value stored under the key is a proper prefix of the next one, or
    the next one a prefix of it, or the two share a prefix) -- growing, shrinking or in any order.  Every single
    assignment is judged by the history-free reference, like any other event."""
    base = simple_value(rng) if rng.random() < 0.6 else gen_value(rng)[:16]
    r = rng.random()
    if r < 0.4:                                          # looks like a field
        tail = gen_body(rng, rng.randint(1, 3)).replace(":", "x").replace(" ", "x").replace("\t", "x") + rng.choice([":", ": "]) + gen_body(rng, rng.randint(0, 2))
    elif r < 0.7:                                        # a well-formed continuation line
        tail = rng.choice([" ", "\t", "  "]) + gen_body(rng, rng.randint(1, 4))
    elif r < 0.8:
        tail = ""
    elif r < 0.9:
        tail = pick_x(rng) + gen_body(rng, rng.randint(0, 2))
    else:                                                # an empty / whitespace-only line first
        tail = rng.choice(["", " ", "\t"]) + rng.choice(LINE_ENDS) + " " + pick_x(rng)
    full = (base + rng.choice(LINE_ENDS) + tail)[:40]
    vals = [full[:c] for c in boundary_cuts(full)][-rng.randint(3, 4):]
    r = rng.random()
    if r < 0.5:
        pass                                             # growing: each value extends the stored one
    elif r < 0.7:
        vals.reverse()                                   # shrinking
    else:
        rng.shuffle(vals)
        k = rng.randrange(len(vals))                     # ... and one that only SHARES a prefix with its neighbours
        vals[k] = (vals[k] + rng.choice(["", " ", "\r", "\n"]) + gen_body(rng, rng.randint(1, 3)))[:40]
    return vals


MERGE_WORDS = ["a", "b", "c1", "d", "e-2", "f"]


def gen_merge(rng):
    """(s1, s2): the value stored under the key and the value the operand of merge_fields holds under it -- multi-line
    values built from a common pool of continuation lines (so that the operand contributes lines that are new, known,
    first, middle or last), single-line lists with the two delimiters, or one of each / anything of the domain"""
    r = rng.random()
    if r < 0.6:
        pool = [rng.choice([" ", "\t", "  "]) + w for w in rng.sample(MERGE_WORDS, 4)]
        pool[0] += " " + pick_x(rng)
        first = rng.choice(["", "", pick_x(rng)])
        sep1, sep2 = (rng.choice(["\n", "\n", "\n", "\r\n"]) for _ in range(2))
        s1 = first + "".join(sep1 + ln for ln in rng.sample(pool, rng.randint(1, 2)))
        s2 = (first if rng.random() < 0.7 else pick_x(rng)) + "".join(sep2 + ln for ln in rng.sample(pool, rng.randint(1, 3)))
        return s1, s2
    if r < 0.82:
        delim = rng.choice([" ", ", "])
        return (delim.join(rng.sample(MERGE_WORDS, rng.randint(1, 3))) + rng.choice(["", "", "\r"]),
                delim.join(rng.sample(MERGE_WORDS, rng.randint(0, 3))))
    return gen_value(rng)[:16], gen_value(rng)[:16]


MERGE_FORMS = ("para", "para", "same", "live", "dict", "three-arg", "three-arg-self")
MERGE_CALLS = ("merge_fields", "merge_fields", "mergeFields")


def enc_para(items):
    return [{"k": cp(k), "v": cp(v)} for k, v in items]


TRBNAMES = RBNAMES + ("wF", "wT")


def enc_rb(rb):
    """table of the distinct observations + 1-based index per name (they are usually equal)"""
    table, ix = [], {}
    for n in TRBNAMES:
        o = {"st": rb[n]["st"], "paras": [[cp(k) for k in p] for p in rb[n]["paras"]]}
        if o not in table:
            table.append(o)
        ix[n] = table.index(o) + 1
    return {"o": table, "ix": ix}


def rb_get(rbj, n):
    return rbj["o"][rbj["ix"][n] - 1]


NO_RB = {"o": [], "ix": {n: 0 for n in TRBNAMES}}




TRACE_CLASSES = ALL_CLASSES
# _multivalued_fields of the classes (lower case): not validated there, ordinary fields elsewhere
MULTI = {"Deb822": (), "Dsc": ("files", "checksums-sha1", "checksums-sha256", "checksums-sha512"),
         "Changes": ("files", "checksums-sha1", "checksums-sha256", "checksums-sha512"),
         "BuildInfo": ("checksums-md5", "checksums-sha1", "checksums-sha256", "checksums-sha512"),
         "Release": ("md5sum", "sha1", "sha256", "sha512"),
         "PdiffIndex": ("sha1-current", "sha1-history", "sha1-patches", "sha256-current", "sha256-history"),
         "Sources": ("files", "checksums-sha1", "checksums-sha256", "checksums-sha512"), "Packages": (), "Removals": ()}
SPELL = {"files": "Files", "checksums-sha1": "Checksums-Sha1", "checksums-sha256": "Checksums-Sha256",
         "checksums-sha512": "Checksums-Sha512", "checksums-md5": "Checksums-Md5", "md5sum": "MD5Sum",
         "sha1": "SHA1", "sha256": "SHA256", "sha512": "SHA512", "sha1-current": "SHA1-Current",
         "sha1-history": "SHA1-History", "sha1-patches": "SHA1-Patches", "sha256-current": "SHA256-Current",
         "sha256-history": "SHA256-History"}
LONG_KEYS = ["X-" + "k" * 31, "Y" * 32, "Z-" + "q" * 62, "W" * 65]          # 33, 32, 64, 65 characters


def _items_all(objs):
    out = []
    for d in objs:
        try:
            out.append(project(d))
        except Exception as e:                                       # noqa: BLE001
            out.append([["<items() raised %s>" % type(e).__name__, ""]])
    return out


def record_trace(rng, nev, script=None):
    """random assignment history on TWO live objects (any class) interleaved with multivalued-key
    assignments to throw-away objects; values are re-used across keys, objects and classes and repeated
    after rejections; now and then a live object is replaced by an EMPTY paragraph of its class (every
    way to obtain one: "fresh") or by a paragraph BUILT FROM A MAPPING ("build": plain mappings, the other
    live object, a throw-away paragraph of any class -- possibly holding a raw string under a key that is
    multivalued, hence unvalidated, in ITS class).  `script` re-executes a recorded history."""
    if script is None:
        classes = [rng.choice(TRACE_CLASSES), rng.choice(TRACE_CLASSES)]
        starts = []
        for _ in classes:
            pool = KEY_POOL + ([rng.choice(LONG_KEYS)] if rng.random() < 0.2 else [])
            keys = rng.sample(pool, rng.randint(1, 3))
            if rng.random() < 0.2:                                             # normalisation twins side by side
                t = 2 * rng.randrange(len(TWIN_KEYS) // 2)
                keys = keys[:1] + [TWIN_KEYS[t], TWIN_KEYS[t + 1]]
            starts.append([[k, simple_value(rng)] for k in keys])
    else:
        classes, starts = script["classes"], script["starts"]
    builds = script["builds"] if script is not None and "builds" in script else (
        [rng.choice(BUILD_KINDS) for _ in classes] if script is None else ["assign"] * len(classes))
    objs = [build(c, st, bk, sum(len(k) + len(v) for k, v in st)) for c, st, bk in zip(classes, starts, builds)]
    init = _items_all(objs)
    events, calls = [], []
    newkeys = 0
    used = []                                     # values given so far
    last = None
    # planned multi-step shapes, drawn within the ordinary history (their steps are ordinary events, other events may
    # come in between): a CHAIN of assignments to the same key with values that extend / are prefixes of / share a
    # prefix with the stored one; a MERGE -- a value stored under a key, then merge_fields on that key
    plans, pending = {}, []
    if script is None:
        if rng.random() < 0.6:
            plans[rng.randrange(0, max(1, nev - 4))] = "chain"
        if rng.random() < 0.4:
            plans[rng.randrange(0, max(1, nev - 2))] = "merge"
    for i in range(nev if script is None else len(script["calls"])):
        extra = None
        if script is None and not pending and plans and i >= min(plans):
            kind = plans.pop(min(plans))
            obj = rng.randint(1, len(objs))
            clsname = classes[obj - 1]
            present = [k for k in objs[obj - 1] if k.lower() not in MULTI[clsname]]
            if not present or rng.random() < 0.25:
                key = rng.choice([k for k in KEY_POOL + ["Files", "Conffiles", "Checksums-Md5", "SHA256"]
                                  if k not in present and k.lower() not in MULTI[clsname]])
            else:
                key = rng.choice(present)
            if kind == "chain":
                pending = [[obj, clsname, key, val, rng.choice(("setitem", "setitem", "update", "update-map", "update-kw")), "", None]
                           for val in gen_chain(rng)]
            else:
                s1, s2 = gen_merge(rng)
                form = rng.choice(MERGE_FORMS)
                other = 3 - obj if len(objs) == 2 else obj
                if form == "live" and (other == obj or key.lower() in MULTI[classes[other - 1]]):
                    form = "para"
                opcls = clsname if form == "same" else rng.choice([c for c in TRACE_CLASSES if key.lower() not in MULTI[c]])
                opnd = [[key if rng.random() < 0.8 else key.upper(), s2]]
                if rng.random() < 0.4:
                    opnd.insert(rng.randint(0, 1), ["X-Other", simple_value(rng)])
                mx = {"form": form, "opcls": opcls, "opnd": opnd, "sel": rng.randrange(1000)}
                pending = [[obj, clsname, key, s1, "setitem", "", None]]
                if form == "live":
                    pending.append([other, classes[other - 1], key, s2, "setitem", "", None])
                pending.append([obj, clsname, key, "", "merge", "", mx])
        if script is None and pending and rng.random() < 0.8:
            obj, clsname, key, v, route, carry, extra = pending.pop(0)
        elif script is None:
            r = rng.random()
            ro = rng.random()
            if ro < 0.09:                                                      # an empty paragraph takes the place
                obj = rng.randint(1, len(objs))
                clsname, key, v, route, carry = classes[obj - 1], "", "", "fresh", ""
                extra = {"how": rng.choice(["noarg", "parsed", "parsed", "cleared"]), "sel": rng.randrange(10000)}
            elif ro < 0.21:                                                    # a paragraph built from a mapping
                obj = rng.randint(1, len(objs))
                clsname, key, v, route, carry = classes[obj - 1], "", "", "build", ""
                rc = rng.random()
                if rc < 0.3:
                    car = ["plain", rng.randrange(1000)]
                elif rc < 0.45:
                    car = ["live"]
                else:
                    cc = rng.choice(TRACE_CLASSES)
                    mks = [k for k in MULTI[cc] if k not in MULTI[clsname]]
                    if mks and rng.random() < 0.75:                            # a raw string nobody validated
                        raw = rng.choice(used[-4:]) if (used and rng.random() < 0.4) else gen_value(rng)
                        car = ["para", cc, SPELL[rng.choice(mks)], raw]
                        used.append(raw)
                    else:
                        car = ["para", cc, "", ""]
                extra = {"src": rng.randint(1, len(objs)), "carrier": car, "style": rng.randrange(1000)}
            elif ro < 0.30:                                                    # a dump into a failing file object of the caller
                obj = rng.randint(1, len(objs))
                if last is not None and last[0] and rng.random() < 0.5:
                    obj = last[0]                                              # ... of the object just assigned to
                clsname, key, v, route, carry = classes[obj - 1], "", "", "faultdump", ""
                extra = {"pos": rng.choice(["first", "middle", "last", "any"]), "j": rng.randrange(1000), "sel": rng.randrange(10000)}
            elif last is not None and last[4] != "ok" and r < 0.25:
                obj, clsname, key, v, _ = last                                 # the same call again after a rejection
            else:
                obj = 0 if r > 0.88 else rng.randint(1, len(objs))
                if used and rng.random() < 0.4:
                    v = rng.choice(used[-4:])                                  # the same value elsewhere
                else:
                    v = gen_value(rng)
                if obj == 0:
                    clsname = rng.choice([c for c in TRACE_CLASSES if MULTI[c]])
                    key = SPELL[rng.choice(MULTI[clsname])]                    # the usual spelling: the same
                else:                                                          # name is used on other classes
                    clsname = classes[obj - 1]
                    present = [k for k in objs[obj - 1]]
                    if not present or (len(present) < 5 and rng.random() < 0.35):
                        cand = [k for k in KEY_POOL + LONG_KEYS[:2] + ["Files", "Files", "Checksums-Md5", "SHA256", "Checksums-Sha1"]
                                if k not in present and k.lower() not in MULTI[clsname]]
                        key = rng.choice(cand)
                    else:
                        key = rng.choice(present)
                        if rng.random() < 0.2 and key.isascii():               # (only ASCII case folding is assumed)
                            key = rng.choice([key.lower(), key.upper()])       # another spelling of the same field
            if extra is None:
                route = rng.choice(("setitem", "setitem", "update", "update-map", "update-kw", "setdefault"))
                # (not "parse": re-parsing trims the first line of a value -- C02's subject, not C08's)
                carry = rng.choice(REENTRIES[:-1]) if (obj != 0 and rng.random() < 0.12) else ""
        else:
            obj, clsname, key, v, route = script["calls"][i][:5]
            carry = script["calls"][i][5] if len(script["calls"][i]) > 5 else ""
            extra = script["calls"][i][6] if len(script["calls"][i]) > 6 else None
        op, m = "assign", []
        if route == "merge":
            # d.merge_fields(key, other): the in-place form ASSIGNS; the 3-argument form returns the value, which is then
            # assigned.  The operand: a paragraph of any class / of the same class, the other live object, a plain mapping
            d = objs[obj - 1]
            form = extra["form"]
            if form == "live":
                operand = objs[2 - obj]
                m = [kv for kv in _items_all([operand])[0]]
            elif form == "dict":
                operand, _ = plain_carrier([tuple(kv) for kv in extra["opnd"]], extra["sel"])
                m = [list(kv) for kv in extra["opnd"]]
            else:
                try:
                    operand = build(extra["opcls"], [tuple(kv) for kv in extra["opnd"]])
                except Exception:                                    # noqa: BLE001  the operand itself is refused: nothing to merge
                    continue
                m = [list(kv) for kv in extra["opnd"]]
            try:
                known = key in d or key in operand
                strs = all(isinstance(x[key], str) for x in (d, operand) if key in x)
            except Exception:                                        # noqa: BLE001
                known = strs = False
            if not known or not strs:
                continue                                  # KeyError by documentation / not a string field: not this property's
            call = MERGE_CALLS[extra["sel"] % len(MERGE_CALLS)]
            if form.startswith("three-arg"):
                host = d if form == "three-arg-self" else get_class("Deb822")()
                before = _items_all(objs)
                try:
                    with warnings.catch_warnings():
                        warnings.simplefilter("ignore")
                        merged = getattr(host, call)(key, d if extra["sel"] % 2 else dict(d.items()), operand)
                except Exception:                                    # noqa: BLE001  what merge computes / refuses is not judged here
                    continue
                if not isinstance(merged, str) or len(merged) > 48 or _items_all(objs) != before:
                    continue
                v = merged
                res = assign(d, key, v, "setitem")
                used.append(v)
                last = (obj, clsname, key, v, res)
            else:
                op = "merge"
                try:
                    with warnings.catch_warnings():
                        warnings.simplefilter("ignore")
                        getattr(d, call)(key, operand)
                    res = "ok"
                    v = d[key]
                    if not isinstance(v, str):
                        v = ""
                except ValueError:
                    res = "ValueError"
                except Exception as e:                               # noqa: BLE001
                    res = "EXC:" + type(e).__name__
                last = None
        elif route == "fresh":
            op = "fresh"
            try:
                new, _ = make_empty(clsname, extra["how"], extra["sel"], objs[obj - 1])
                objs[obj - 1] = new
                res = "ok"
            except Exception as e:                                   # noqa: BLE001
                res = "EXC:" + type(e).__name__
            last = None
        elif route == "faultdump":
            op = "faultdump"
            cur = _items_all([objs[obj - 1]])[0]
            if not cur:
                continue                                  # an empty paragraph writes nothing: no fault can be met
            j = {"first": 1, "last": len(cur), "middle": len(cur) // 2 + 1}.get(extra["pos"], 1 + extra["j"] % len(cur))
            res, _ = fault_dump(objs[obj - 1], cur, j, extra["sel"])
            if res == "not-met":
                continue
            last = None
        elif route == "build":
            op = "build"
            src = objs[extra["src"] - 1]
            content = [kv for kv in _items_all([src])[0] if kv[0].lower() not in MULTI[clsname]]
            car = extra["carrier"]
            if car[0] == "plain":
                carrier, _ = plain_carrier(content, car[1])
                m = [list(kv) for kv in content]
            elif car[0] == "live" and content == _items_all([src])[0]:
                carrier, m = src, [list(kv) for kv in content]
            elif car[0] == "live":
                carrier, m = dict(tuple(kv) for kv in content), [list(kv) for kv in content]
            else:
                pairs = [list(kv) for kv in content]
                if car[2]:
                    hit = [j for j, kv in enumerate(pairs) if kv[0].lower() == car[2].lower()]
                    if hit:
                        pairs[hit[0]][1] = car[3]
                    else:
                        pairs.append([car[2], car[3]])
                carrier, m = para_carrier(car[1], pairs), pairs
                if carrier is None:
                    continue        # what that class does with the raw string is not decided by the statement
            new, res = build_from(clsname, carrier, extra["style"])
            if res == "ok":
                objs[obj - 1] = new
            last = None
        else:
            if carry:                             # the live object is replaced by its copy / pickle / ...
                try:
                    objs[obj - 1] = reenter(objs[obj - 1], carry)
                except Exception:                                    # noqa: BLE001  shows up in the items below
                    pass
            if obj != 0 and key not in objs[obj - 1]:
                newkeys += 1
            if obj == 0:
                try:
                    res = assign(get_class(clsname)(), key, v, route)
                except Exception as e:                               # noqa: BLE001
                    res = "EXC:" + type(e).__name__
            else:
                res = assign(objs[obj - 1], key, v, route)
            used.append(v)
            last = (obj, clsname, key, v, res)
        items = _items_all(objs)
        if obj != 0 and (res == "ok" or op == "faultdump") and items[obj - 1]:
            # (after a failed dump: a NEW dump of the same object, read back)
            text, rb = read_all(objs[obj - 1], DUMPS[(i + len(v)) % len(DUMPS)])
            # one of the ways of the object's own class, rotating
            way = [w for w in pick_ways(i + len(v), 4) if w[3] != "omit"][0]
            wkeys = [k for k in objs[obj - 1]]
            for ws_default, name in ((False, "wF"), (True, "wT")):
                rb[name] = read_way(clsname, text, way, ws_default, wkeys, i) if text is not None else rb["sF"]
            rbj = enc_rb(rb)
        else:
            rbj = NO_RB
        calls.append([obj, clsname, key, v, route, carry] + ([extra] if extra is not None else []))
        events.append({"op": op, "obj": obj, "cls": clsname, "key": cp(key), "v": cp(v), "m": enc_para(m), "acc": res == "ok", "res": res,
                       "items": [enc_para(p) for p in items], "rb": rbj})
    return {"objs": [{"cls": c, "para": enc_para(p)} for c, p in zip(classes, init)], "events": events, "newkeys": newkeys,
            "script": {"classes": classes, "starts": starts, "builds": builds, "calls": calls}}


def slim(t):
    return {"objs": t["objs"], "deep": t.get("deep", True), "events": t["events"]}


def _ev(obj, cls, key, v, acc, items, rb=None, res=None, op="assign", m=()):
    return {"op": op, "obj": obj, "cls": cls, "key": cp(key), "v": cp(v), "m": enc_para(m), "acc": acc,
            "res": res or ("ok" if acc else "ValueError"), "items": [enc_para(p) for p in items], "rb": rb or NO_RB}


def _rb(keys, **over):
    r = {n: {"st": "ok", "paras": [keys]} for n in TRBNAMES}
    for n, paras in over.items():
        r[n] = {"st": "ok", "paras": paras}
    return enc_rb(r)


def _tr(events, p1=None, p2=None):
    return {"objs": [{"cls": "Deb822", "para": enc_para(p1 or P3)}, {"cls": "Dsc", "para": enc_para(p2 or Q1)}],
            "deep": True, "events": events}


P3 = [["A", "x"], ["B", "x"], ["C", "x"]]
Q1 = [["Source", "x"]]
K3 = ["A", "B", "C"]
PB = [["A", "x"], ["B", "y\n z: w"], ["C", "x"]]
PC = [["A", "x"], ["B", "y\n z: w"], ["C", "y\n \n z"]]
# literal traces: what the real code does today -- must be accepted
GOOD_TRACE = _tr([
    _ev(1, "Deb822", "B", "y\n z: w", True, [PB, Q1], _rb(K3)),
    _ev(1, "Deb822", "A", "y\nz: w", False, [PB, Q1]),
    _ev(0, "Dsc", "Files", "y\nz: w", True, [PB, Q1]),                          # multivalued key: not validated
    _ev(1, "Deb822", "A", "y\nz: w", False, [PB, Q1]),                          # ... and no later verdict changes
    _ev(2, "Dsc", "Binary", "y\nz: w", False, [PB, Q1]),
    _ev(2, "Dsc", "Binary", "y\n z", True, [PB, Q1 + [["Binary", "y\n z"]]], _rb(["Source", "Binary"])),
    _ev(1, "Deb822", "c", "y\n \n z", True, [[["A", "x"], ["B", "y\n z: w"], ["C", "y\n \n z"]], Q1 + [["Binary", "y\n z"]]],
        _rb(K3, sT=[K3], fT=[K3], bT=[K3])),
    _ev(1, "Deb822", "Files", "y\rz", False, [[["A", "x"], ["B", "y\n z: w"], ["C", "y\n \n z"]], Q1 + [["Binary", "y\n z"]]]),
    # construction: an EMPTY Dsc takes the place of object 2 and is filled -- validation applies as ever
    _ev(2, "Dsc", "", "", True, [PC, []], op="fresh"),
    _ev(2, "Dsc", "Source", "y\nz: w", False, [PC, []]),
    _ev(2, "Dsc", "Source", "y\n z", True, [PC, [["Source", "y\n z"]]], _rb(["Source"])),
    # ... object 1 := Deb822(M): M holds a raw Files value nobody validated -> ValueError, nothing built;
    # with a clean value the paragraph is M's
    _ev(1, "Deb822", "", "", False, [PC, [["Source", "y\n z"]]], op="build", m=[["Source", "y\n z"], ["Files", "y\nz: w"]]),
    _ev(1, "Deb822", "", "", True, [[["Source", "y\n z"], ["Files", "y\n z"]], [["Source", "y\n z"]]], _rb(["Source", "Files"]),
        op="build", m=[["Source", "y\n z"], ["Files", "y\n z"]]),
    _ev(1, "Deb822", "", "", True, [[], [["Source", "y\n z"]]], op="build", m=[]),
    # a dump of object 2 into a failing file object: the fault comes out, the next dump is the whole paragraph
    _ev(2, "Dsc", "Binary", "y\n z", True, [[], [["Source", "y\n z"], ["Binary", "y\n z"]]], _rb(["Source", "Binary"])),
    _ev(2, "Dsc", "", "", False, [[], [["Source", "y\n z"], ["Binary", "y\n z"]]], _rb(["Source", "Binary"]), res="fault", op="faultdump"),
    # the same key again and again, each value extending the stored one, cut at a bare CR: verdicts as ever
    _ev(2, "Dsc", "Binary", "y\r", True, [[], [["Source", "y\n z"], ["Binary", "y\r"]]], _rb(["Source", "Binary"])),
    _ev(2, "Dsc", "Binary", "y\rz: w", False, [[], [["Source", "y\n z"], ["Binary", "y\r"]]]),
    _ev(2, "Dsc", "Binary", "y\r z: w", True, [[], [["Source", "y\n z"], ["Binary", "y\r z: w"]]], _rb(["Source", "Binary"])),
    # merge_fields in place: the merged value is assigned (accepted), or has an empty line and is refused
    _ev(2, "Dsc", "Source", "y\n z\n w", True, [[], [["Source", "y\n z\n w"], ["Binary", "y\r z: w"]]], _rb(["Source", "Binary"]),
        op="merge", m=[["Source", "y\n w"]]),
    _ev(2, "Dsc", "Source", "", False, [[], [["Source", "y\n z\n w"], ["Binary", "y\r z: w"]]], op="merge", m=[["Source", "y\n q\n r"]]),
    _ev(1, "Deb822", "New", "y", True, [[["New", "y"]], [["Source", "y\n z\n w"], ["Binary", "y\r z: w"]]], _rb(["New"]), op="merge", m=[["New", "y"]]),
])


def control_traces():
    """corrupted literal traces: each must be rejected by TraceDeb822Value"""
    bad = "y\nz: w"
    out = []
    # an injecting value reported as accepted, with the read-back it would give
    out.append(_tr([_ev(1, "Deb822", "B", bad, True, [[["A", "x"], ["B", bad], ["C", "x"]], Q1],
                        _rb(K3, **{n: [["A", "B", "z", "C"]] for n in TRBNAMES}))]))
    # ... and with a read-back that hides it: acceptance alone must be rejected
    out.append(_tr([_ev(1, "Deb822", "B", bad, True, [[["A", "x"], ["B", bad], ["C", "x"]], Q1], _rb(K3))]))
    # the same after a multivalued-key assignment of that value (memo keyed by the value only)
    out.append(_tr([_ev(0, "Dsc", "Files", bad, True, [P3, Q1]),
                    _ev(2, "Dsc", "Source", bad, True, [P3, [["Source", bad]]], _rb(["Source"]))]))
    # a clean value reported as rejected
    out.append(_tr([_ev(1, "Deb822", "B", "y\n z", False, [P3, Q1])]))
    # accepted, but one read-back shows an extra field / a split / a truncation
    out.append(_tr([_ev(1, "Deb822", "B", "y\n z: w", True, [PB, Q1], _rb(K3, fF=[["A", "B", "z", "C"]]))]))
    out.append(_tr([_ev(1, "Deb822", "B", "y\n z", True, [[["A", "x"], ["B", "y\n z"], ["C", "x"]], Q1], _rb(K3, sT=[["A", "B"], ["C"]]))]))
    out.append(_tr([_ev(1, "Deb822", "B", "y\n z", True, [[["A", "x"], ["B", "y\n z"], ["C", "x"]], Q1], _rb(K3, bF=[["A", "B"]]))]))
    # rejected, but the paragraph changed / the new key stays behind with an empty value
    out.append(_tr([_ev(1, "Deb822", "B", "y\n", False, [[["A", "x"], ["B", "y\n"], ["C", "x"]], Q1])]))
    out.append(_tr([_ev(2, "Dsc", "Binary", "y\n", False, [P3, Q1 + [["Binary", ""]]])]))
    # the OTHER live paragraph changed (aliasing), on an accepted and on a multivalued-key assignment
    out.append(_tr([_ev(1, "Deb822", "B", "y", True, [[["A", "x"], ["B", "y"], ["C", "x"]], [["Source", "y"]]], _rb(K3))]))
    out.append(_tr([_ev(0, "Changes", "Files", "y", True, [P3, Q1 + [["Files", "y"]]])]))
    # a new key that does not show up at the end of the field names
    out.append(_tr([_ev(2, "Dsc", "Binary", "y", True, [P3, [["Binary", "y"], ["Source", "x"]]], _rb(["Binary", "Source"]))]))
    # wrong exception type
    out.append(_tr([_ev(1, "Deb822", "B", "y\n", False, [P3, Q1], res="EXC:TypeError")]))
    # ---- construction
    mbad = [["Source", "x"], ["Files", bad]]
    # Deb822(M) takes over a raw value that injects, with the read-back it gives / with a read-back that hides it
    out.append(_tr([_ev(1, "Deb822", "", "", True, [mbad, Q1], _rb(["Source", "Files"], **{n: [["Source", "Files", "z"]] for n in TRBNAMES}), op="build", m=mbad)]))
    out.append(_tr([_ev(1, "Deb822", "", "", True, [mbad, Q1], _rb(["Source", "Files"]), op="build", m=mbad)]))
    # the construction fails, but the live object is gone / changed
    out.append(_tr([_ev(1, "Deb822", "", "", False, [[], Q1], op="build", m=mbad)]))
    # a clean mapping is refused; a field is lost on the way; wrong exception
    out.append(_tr([_ev(1, "Deb822", "", "", False, [P3, Q1], op="build", m=[["Source", "x"], ["Files", "y\n z"]])]))
    out.append(_tr([_ev(1, "Deb822", "", "", True, [[["Source", "x"]], Q1], _rb(["Source"]), op="build", m=[["Source", "x"], ["Files", "y\n z"]])]))
    out.append(_tr([_ev(1, "Deb822", "", "", False, [P3, Q1], op="build", m=mbad, res="EXC:AttributeError")]))
    # an empty paragraph that is not empty / that takes the other object with it
    out.append(_tr([_ev(2, "Dsc", "", "", True, [P3, Q1], op="fresh")]))
    out.append(_tr([_ev(2, "Dsc", "", "", True, [[], []], op="fresh")]))
    # a paragraph that started empty no longer validates (with a read-back that hides it)
    out.append(_tr([_ev(2, "Dsc", "", "", True, [P3, []], op="fresh"),
                    _ev(2, "Dsc", "Source", bad, True, [P3, [["Source", bad]]], _rb(["Source"]))]))
    out.append(_tr([_ev(1, "Deb822", "", "", True, [[], Q1], op="fresh"),
                    _ev(1, "Deb822", "B", "y\n", True, [[["B", "y\n"]], Q1], _rb(["B"]))]))
    # ---- faults of the caller's file object
    # after a failed dump the next dump holds only the fields written before the fault / nothing at all
    out.append(_tr([_ev(1, "Deb822", "", "", False, [P3, Q1], _rb(K3, **{n: [["A"]] for n in TRBNAMES}), res="fault", op="faultdump")]))
    out.append(_tr([_ev(1, "Deb822", "", "", False, [P3, Q1], _rb(K3, bF=[["A", "B"]]), res="fault", op="faultdump")]))
    out.append(_tr([_ev(1, "Deb822", "", "", False, [P3, Q1], _rb(K3, **{n: [] for n in TRBNAMES}), res="fault", op="faultdump")]))
    # the fault is swallowed / comes out as something else; the paragraph lost a field on the way
    out.append(_tr([_ev(1, "Deb822", "", "", False, [P3, Q1], _rb(K3), res="swallowed", op="faultdump")]))
    out.append(_tr([_ev(1, "Deb822", "", "", False, [P3, Q1], _rb(K3), res="EXC:AttributeError", op="faultdump")]))
    out.append(_tr([_ev(1, "Deb822", "", "", False, [P3[:2], Q1], _rb(["A", "B"]), res="fault", op="faultdump")]))
    # ---- same-key histories: the stored value ends in a bare CR, the next one extends it by a line that is not
    # indented and is accepted (the str read-back shows the extra field)
    pcr = [["A", "x"], ["B", "y\r"], ["C", "x"]]
    pcr2 = [["A", "x"], ["B", "y\rz: w"], ["C", "x"]]
    out.append(_tr([_ev(1, "Deb822", "B", "y\r", True, [pcr, Q1], _rb(K3)),
                    _ev(1, "Deb822", "B", "y\rz: w", True, [pcr2, Q1], _rb(K3, sF=[["A", "B", "z", "C"]], sT=[["A", "B", "z", "C"]]))]))
    # ---- merge_fields in place: a merged value with an empty line is stored (with the read-back it gives / with one
    # that hides it); refused, but the field changed; the stored value is not the one reported; a field went missing
    mm = "y\n z\n\n w"
    pm = [["A", "x"], ["B", mm], ["C", "x"]]
    out.append(_tr([_ev(1, "Deb822", "B", mm, True, [pm, Q1], _rb(K3, **{n: [["A", "B"], ["C"]] for n in TRBNAMES}), op="merge", m=[["B", "y\n z\n w"]])]))
    out.append(_tr([_ev(1, "Deb822", "B", mm, True, [pm, Q1], _rb(K3), op="merge", m=[["B", "y\n z\n w"]])]))
    out.append(_tr([_ev(1, "Deb822", "B", "", False, [[["A", "x"], ["B", "x y"], ["C", "x"]], Q1], op="merge", m=[["B", "y"]])]))
    out.append(_tr([_ev(1, "Deb822", "B", "x y", True, [[["A", "x"], ["B", "x"], ["C", "x"]], Q1], _rb(K3), op="merge", m=[["B", "y"]])]))
    out.append(_tr([_ev(1, "Deb822", "B", "x y", True, [[["B", "x y"], ["C", "x"]], Q1], _rb(["B", "C"]), op="merge", m=[["B", "y"]])]))
    out.append(_tr([_ev(1, "Deb822", "B", "", False, [P3, Q1], op="merge", m=[["B", "y"]], res="EXC:KeyError")]))
    return out


def corrupt(t):
    """corrupted copies of a recorded trace (negative controls drawn from the run's own data)"""
    import copy
    out = []
    for i, e in enumerate(t["events"]):
        if e["acc"] and e["obj"] != 0 and e["rb"]["o"]:
            c = copy.deepcopy(slim(t))
            rbj = c["events"][i]["rb"]
            r = copy.deepcopy(rb_get(rbj, "sF"))
            r["paras"] = [p + [[120]] for p in r["paras"]] or [[[120]]]
            rbj["o"].append(r)
            rbj["ix"]["sF"] = len(rbj["o"])
            out.append(c)
            break
    for i, e in enumerate(t["events"]):
        if not e["acc"] and e["obj"] != 0 and not e["res"].startswith("EXC:"):
            c = copy.deepcopy(slim(t))
            other = 2 - e["obj"]                                     # 0-based index of the other live object
            c["events"][i]["items"][other] = c["events"][i]["items"][other] + [{"k": [120], "v": []}]
            out.append(c)
            break
    return out


def validate(ctx, traces, with_controls=True):
    """TLC validates the traces; returns (rejected 1-based ids, {id: (accepted prefix, reasons)},
    [(id, event)] where the reader model differs from the observation -- diagnostic)"""
    batch = [slim(t) for t in traces] + [GOOD_TRACE]
    controls = []
    if with_controls:
        controls = control_traces()
        for t in traces[:3]:
            controls += corrupt(t)
    acc, _, r = core.validate_traces(ctx, "TraceDeb822Value", "TraceDeb822Value.cfg", batch,
                                     extra_env={"TRACE_DIAG": "0"}, controls=controls, workers=min(6, core.NCPU), java_opts=JAVA_OPTS)
    if len(batch) not in acc:
        raise core.MachineryError("TraceDeb822Value rejects the literal good trace: trace module broken")
    model_diff = [(v[0], v[1]) for v in r.printed.get("REJECT", []) if isinstance(v, list) and v[0] <= len(traces)]
    rejected = [i for i in range(1, len(traces) + 1) if i not in acc]
    info = {}
    if rejected:
        sub = [slim(traces[i - 1]) for i in rejected[:20]]
        acc2, prog, r2 = core.validate_traces(ctx, "TraceDeb822Value", "TraceDeb822Value.cfg", sub,
                                              extra_env={"TRACE_DIAG": "1"}, workers=1, java_opts=JAVA_OPTS)
        why = {}
        for v in r2.printed.get("REJECT", []):
            if isinstance(v, list) and len(v) >= 3 and isinstance(v[2], list):
                why[v[0]] = v[2]
        for j, i in enumerate(rejected[:20]):
            info[i] = (prog.get(j + 1, 0), why.get(j + 1, []))
        unconfirmed = [i for j, i in enumerate(rejected[:20]) if j + 1 in acc2]
        if unconfirmed:
            raise core.MachineryError("trace validation is not reproducible: traces %r rejected in the batch, accepted alone" % unconfirmed)
    return rejected, info, model_diff


# ------------------------------------------------------------------ the check

def cfg_variant(name, **subst):
    text = open(os.path.join(core.SPEC, name)).read()
    for k, v in subst.items():
        text, n = re.subn(r"(?m)^(\s*%s\s*=\s*).*$" % k, lambda m: m.group(1) + str(v), text)
        if n != 1:
            raise core.MachineryError("cfg %s has no constant %s" % (name, k))
    return text


NEG_CONTROLS = (
    ("NoIndentRule", "Deb822Value", "MC_Deb822Value_neg.cfg", {"NoIndentRule": "TRUE"}, "Sound"),
    ("AllowEndLF", "Deb822Value", "MC_Deb822Value_neg.cfg", {"AllowEndLF": "TRUE"}, "Sound"),
    ("ValidateLFOnly", "Deb822Value", "MC_Deb822Value_neg.cfg", {"ValidateLFOnly": "TRUE"}, "Sound"),
    ("ReaderNoWsRule", "Deb822Value", "MC_Deb822Value_neg.cfg", {"ReaderNoWsRule": "TRUE"}, "Sound"),
    ("StrictDroppedInGpgClasses", "Deb822Value", "MC_Deb822Value_neg.cfg", {"StrictDroppedInGpgClasses": "TRUE"}, "Sound"),
    ("PosStrictMissedByPrepass", "Deb822Value", "MC_Deb822Value_neg.cfg", {"PosStrictMissedByPrepass": "TRUE"}, "Sound"),
    ("MemoByValueOnly", "Deb822ValueHist", "MC_Deb822ValueHist_neg.cfg", {"MemoMode": '"value"'}, "HistoryFree"),
    ("MemoByKeyValue", "Deb822ValueHist", "MC_Deb822ValueHist_neg.cfg", {"MemoMode": '"keyvalue"'}, "HistoryFree"),
    ("RejectStoresEmpty", "Deb822ValueHist", "MC_Deb822ValueHist_neg.cfg", {"RejectStoresEmpty": "TRUE"}, "HistoryFree"),
    ("TrustSourceClass", "Deb822ValueHist", "MC_Deb822ValueHist_neg.cfg",
     {"UseN": "FALSE", "WithBuild": "TRUE", "TrustSourceClass": "TRUE"}, "HistoryFree"),
    ("ParseLeavesUnchecked", "Deb822ValueHist", "MC_Deb822ValueHist_neg.cfg",
     {"UseN": "FALSE", "WithBuild": "TRUE", "ParseLeavesUnchecked": "TRUE"}, "HistoryFree"),
    ("DumpMemoPartial", "Deb822ValueHist", "MC_Deb822ValueHist_neg.cfg", {"DumpMemoPartial": "TRUE"}, "HistSound"),
    ("AppendFastPath", "Deb822ValueHist", "MC_Deb822ValueHist_neg.cfg", {"UseN": "FALSE", "UseExt": "TRUE", "AppendFastPath": "TRUE"}, "HistSound"),
)


def spec_negative_controls(ctx):
    """the properties are not vacuous: each weakened validator / reader / memo must make TLC report
    the violation"""
    def one(job):
        name, module, cfg, sub, want = job
        r = ctx.tlc(module, cfg_variant(cfg, **sub), count=False, workers=1, want_tags=set(),
                    java_opts=["-XX:TieredStopAtLevel=1"])                    # a few hundred states
        return name, want, r.violated
    with ThreadPoolExecutor(max_workers=4) as ex:
        results = list(ex.map(one, NEG_CONTROLS))
    out = {}
    for name, want, got in results:
        out[name] = got
        if got != want:
            raise core.MachineryError("spec-level negative control %s: expected %s violated, TLC reports %r" % (name, want, got))
    ctx.extra["spec_negative_controls"] = out


H_INIT = [[{"k": [65], "v": [120]}] for _ in range(3)]


def run(ctx):
    quick = ctx.tier == "quick"
    rng = ctx.rng
    _check_pools()
    maxlen = 5 if quick else 6
    ctx.assumptions += [
        "bounded: every value up to length %d over 7 code points (x : # space tab CR LF) at the first/middle/last field of A: x / B: x / C: x; longer values and richer neighbour values are sampled (traces, values up to 40 characters)" % maxlen,
        "histories: closed LTS over three live objects (Deb822, Dsc/Changes x 2), keys A / N (absent at first) / Files, values 'x\\n x' / 'x\\nx:x' / 'x\\n' plus multivalued-key assignments to throw-away objects; the reference is history-free, the code has no memo (negative controls: memo by value, by (key, value), rejected assignment leaving an empty field)",
        "construction: closed LTS over the same three objects, keys A / Files: any live paragraph may be replaced by an EMPTY paragraph of its class (no argument / parsing constructor over field-less input / cleared in place) or by Cls(M), M a mapping carrying another live paragraph's fields, optionally with a raw value under Files (plain mapping / paragraph where Files is ordinary / paragraph where Files is multivalued, i.e. unvalidated); reference: verdict = target class + values, never the carrier; constructions handing a key that is multivalued in the TARGET class are outside the domain and never generated; if a carrier class refuses the raw string (unspecified) the history ends there without a verdict",
        "faults of caller-supplied objects (SIZE_STRESS part 5): both LTSs have FaultDump(o, k) -- o.dump(fd) with a file object of the caller that fails while field k is written (capacity-limited twins of BytesIO / StringIO / write()-only objects raising ENOSPC, EPIPE, EIO, ValueError, KeyError, RuntimeError, a private exception or returning a short count at the first / a middle / the last field; objects failing by nature at the first write: text file without text_mode, BytesIO with text_mode, closed file, file opened for reading, /dev/full, encoding='ascii' over non-ASCII text) -- and the construction LTS FaultBuild(o, q, k) -- Cls(M) with a mapping that raises at its k-th item; reference: the caller's fault comes out (the very exception instance; nothing for a short count), every paragraph is unchanged and the next dump of the object is the dump of the whole paragraph (read back after the fault); what reached the failing file object before the fault is not judged; negative control DumpMemoPartial (the entries formatted before the fault are kept and replayed) must violate HistSound",
        "sizes: payload runs up to 64 KiB, 100 / 1000 continuation lines, field names up to 1024 characters, paragraphs up to 1000 fields, the first special character at offset 4095 / 4096 / 4097 go through the CASE / LTS replay only; their expectation is the one TLC computed for the small value (size lemmas StretchInvariant / RepeatInvariant checked by TLC for one duplication step up to the bound); TLC itself scans strings of <= 40 characters (field names <= 65) in trace validation",
        "unspecified acceptance, executed but never judged: 'zone' (a lone CR followed by something that is not indentation -- a defect only if CR ends a line; rejected today), 'blank' (a whitespace-only continuation line; accepted today) and every assignment to a multivalued key of Dsc / Changes (not validated today). Whatever the code accepts must read back as one paragraph with the same keys (setting False; default setting only when no value in the paragraph has a blank continuation line)",
        "the domain excludes every character Python treats as whitespace or line boundary beyond space, tab, CR, LF (DESIGN.md D1): never generated",
        "concretization of x is class-preserving and sampled (printable ASCII incl. '-', Latin-1, CJK, astral); concrete values are cross-checked by trace validation on the code points",
        "trusted: TLC, the projections (list(d.items()), key lists of iter_paragraphs), the concretizer",
    ]
    workers = min(8, core.NCPU)
    phase = {}
    t_ph = time.time()
    # worker processes for the replay legs are forked now, before any thread exists
    import multiprocessing
    WORKDIR[0] = ctx.work
    pool = multiprocessing.get_context("fork").Pool(min(4 if quick else 6, core.NCPU))

    # 1. (b) code -> spec: assignment histories are recorded first; TLC validates them on the
    #    code points in the background while the bounded configuration runs and is replayed
    ntr, nev, deep_every = (200, 12, 1) if quick else (3000, 14, 4)
    traces = [record_trace(rng, nev) for i in range(ntr)]
    for i, t in enumerate(traces):
        t["deep"] = (i % deep_every == 0)         # reader model evaluated by TLC on these (diagnostic)
    phase["trace_record_s"] = round(time.time() - t_ph, 1)
    t_ph = time.time()
    chunk = 2000

    def validate_all():
        res = []
        for off in range(0, len(traces), chunk):
            res.append((off,) + validate(ctx, traces[off:off + chunk], with_controls=True))
        return res
    ex_val = ThreadPoolExecutor(max_workers=1)
    f_val = ex_val.submit(validate_all)

    # 2. spec-level negative controls, the bounded configuration and the history LTS, side by side
    try:
        with ThreadPoolExecutor(max_workers=5) as ex:
            f_bnd = ex.submit(ctx.tlc_must_hold, "Deb822Value",
                              "MC_Deb822Value_quick.cfg" if quick else "MC_Deb822Value.cfg",
                              workers=workers, want_tags={"CASE"})
            f_lts = ex.submit(ctx.tlc_must_hold, "Deb822ValueHist", "MC_Deb822ValueHist.cfg", workers=1,
                              want_tags={"EDGE", "VALUE"})
            f_ltsb = ex.submit(ctx.tlc_must_hold, "Deb822ValueHist", "MC_Deb822ValueHist_build.cfg", workers=1,
                               want_tags={"EDGE", "VALUE"})
            # same-key histories: values that extend one another, cut at a bare CR (closed; keys A / Files)
            f_ext = ex.submit(ctx.tlc_must_hold, "Deb822ValueHist",
                              cfg_variant("MC_Deb822ValueHist_neg.cfg", UseN="FALSE", UseExt="TRUE"), workers=1, want_tags=set())
            f_zone = None if quick else ex.submit(ctx.tlc_must_hold, "Deb822Value", "MC_Deb822Value_zone.cfg",
                                                  workers=2, want_tags={"CASE"})
            r_lts = f_lts.result()
            # 3'. walks through the history LTS start as soon as it is there
            edges = r_lts.printed.get("EDGE", [])
            values = r_lts.printed.get("VALUE", [])
            if not edges or any(not isinstance(e, dict) for e in edges) or len(values) != 4:
                raise core.MachineryError("history LTS: %d EDGE lines, %d VALUE lines" % (len(edges), len(values)))
            from lts import LTS
            g = LTS(edges, H_INIT)
            if g.init not in g.out or len(g.states) != r_lts.distinct:
                raise core.MachineryError("history LTS: %d states from EDGE lines, TLC found %d" % (len(g.states), r_lts.distinct))
            if not {"faultdump", "assign", "scratch"} <= {e["op"] for e in g.edges}:
                raise core.MachineryError("history LTS lacks an action: %s" % sorted({e["op"] for e in g.edges}))
            hvalues = [v for v in values if tuple(v["v"]) != (120,)] + [v for v in values if tuple(v["v"]) == (120,)]
            nwalks, wlen, wchunk = (110, 24, 20) if quick else (1200, 40, 100)
            slim_edges = [{k: e[k] for k in ("from", "op", "args", "res", "to")} for e in g.edges]
            wpay = [(ctx.seed, ctx.tier, off, min(wchunk, nwalks - off), wlen, slim_edges, H_INIT, hvalues, "classic")
                    for off in range(0, nwalks, wchunk)]
            a_walks = pool.map_async(walk_chunk, wpay)
            # ... and through the LTS with construction (Fresh / Rebuild; keys A / Files)
            r_ltsb = f_ltsb.result()
            edges_b = r_ltsb.printed.get("EDGE", [])
            if not edges_b or any(not isinstance(e, dict) for e in edges_b) or len(r_ltsb.printed.get("VALUE", [])) != 4:
                raise core.MachineryError("construction LTS: %d EDGE lines" % len(edges_b))
            gb = LTS(edges_b, H_INIT)
            if gb.init not in gb.out or len(gb.states) != r_ltsb.distinct:
                raise core.MachineryError("construction LTS: %d states from EDGE lines, TLC found %d" % (len(gb.states), r_ltsb.distinct))
            if not {"fresh", "rebuild", "assign", "scratch", "faultdump", "faultbuild"} <= {e["op"] for e in gb.edges}:
                raise core.MachineryError("construction LTS lacks an action")
            nwalks_b, wchunk_b = (90, 15) if quick else (900, 100)
            slim_b = [{k: e[k] for k in ("from", "op", "args", "res", "to")} for e in gb.edges]
            wpay_b = [(ctx.seed, ctx.tier, off, min(wchunk_b, nwalks_b - off), wlen, slim_b, H_INIT, hvalues, "build")
                      for off in range(0, nwalks_b, wchunk_b)]
            a_walks_b = pool.map_async(walk_chunk, wpay_b)
            r_bnd = f_bnd.result()
            r_ext = f_ext.result()
            r_zone = f_zone.result() if f_zone else None
        # the (small) negative-control runs go after the big one, next to the replay
        ex_neg = ThreadPoolExecutor(max_workers=1)
        f_neg = ex_neg.submit(spec_negative_controls, ctx)
    except BaseException:
        pool.terminate()
        ex_val.shutdown(wait=True)
        raise
    cases = r_bnd.printed.get("CASE", [])
    if len(cases) != r_bnd.distinct or any(not isinstance(c, dict) for c in cases):
        raise core.MachineryError("bounded configuration: %d CASE lines for %d states" % (len(cases), r_bnd.distinct))
    cases.sort(key=lambda c: (len(c["v"]), c["v"]))
    zones = {}
    for c in cases:
        zones[c["cls"]] = zones.get(c["cls"], 0) + 1
    ops = {}
    for e in g.edges:
        kk = "%s/%s" % (e["op"], e["res"])
        ops[kk] = ops.get(kk, 0) + 1
    ops_b = {}
    for e in gb.edges:
        kk = "%s/%s" % (e["op"], e["res"])
        ops_b[kk] = ops_b.get(kk, 0) + 1
    ctx.extra["model"] = {"alphabet": [120, 58, 35, 32, 9, 13, 10], "max_len": maxlen, "values": len(cases),
                          "classes": zones,
                          "zone_what_if_len4": (None if r_zone is None else {
                              "zone_values": sum(1 for c in r_zone.printed.get("CASE", []) if c["cls"] == "zone"),
                              "would_read_back_clean_if_accepted": sum(1 for c in r_zone.printed.get("CASE", []) if c["cls"] == "zone" and c["zs"])}),
                          "positions": 3, "forms": ["str", "file(LF)"], "ws": [False, True],
                          "history_lts": {"states": len(g.states), "edges": len(g.edges), "edges_per_action": ops,
                                          "objects": ["D: the key is an ordinary field", "S: the key is multivalued", "S"], "keys": ["A", "N", "Files"],
                                          "values": [txt(v["v"]) for v in hvalues]},
                          "same_key_lts": {"states": r_ext.distinct, "transitions": r_ext.generated, "keys": ["A", "Files"],
                                           "values": ["x\n x", "x\nx:x", "x\n", "x\r", "x\r x", "x\rx:x"]},
                          "construction_lts": {"states": len(gb.states), "edges": len(gb.edges), "edges_per_action": ops_b,
                                               "keys": ["A", "Files"], "fresh_hows": sorted(EMPTY_WAYS),
                                               "carriers": ["dict", "D paragraph", "S paragraph (raw value under its multivalued key)"]}}
    phase["tlc_bounded+controls+lts_s"] = round(time.time() - t_ph, 1)
    t_ph = time.time()

    # 3. (a) every CASE line into the real classes (worker processes, fixed chunks with their own
    #    seeded generators: the result does not depend on the number of processes)
    stats = {}
    stress = {}
    forms = {}
    n_known = 0
    known_ex = []
    n_checked = 0
    n_bad = 0
    n_cfault = 0
    sampled = set()
    payloads = [(ctx.seed, ctx.tier, off, cases[off:off + CASE_CHUNK]) for off in range(0, len(cases), CASE_CHUNK)]
    try:
        chunk_results = list(pool.imap(replay_chunk, payloads))
        walk_results = a_walks.get() + a_walks_b.get()
    finally:
        pool.close()
        pool.join()
    for r in chunk_results:
        if r.get("crash"):
            raise core.MachineryError("case replay worker failed:\n" + r["crash"])
        n_checked += r["n"]
        n_cfault += r.get("faults", 0)
        for k, n in r["stats"].items():
            stats[k] = stats.get(k, 0) + n
        for k, n in r["stress"].items():
            stress[k] = stress.get(k, 0) + n
        for k, n in r["forms"].items():
            forms[k] = forms.get(k, 0) + n
        for dmsg in r["drift"][:3]:
            ctx.drift(dmsg)
        for vcase, msg in r["violations"]:
            if n_bad < 3:
                ctx.violation(vcase, msg)
            n_bad += 1
        nk, kex = r["known"]
        n_known += nk
        known_ex += kex
    # divergences with the signature of the known deviation of the code (the model has it as the
    # constant PosStrictMissedByPrepass): a KNOWN-FINDING while known_findings.json lists it as open,
    # a violation otherwise
    if n_known:
        if ctx.known_open(KNOWN_POS_STRICT):
            for _ in range(n_known):
                ctx.known_hit(KNOWN_POS_STRICT)
        else:
            for vcase, msg in known_ex[:1]:
                ctx.violation(vcase, msg + "  [signature %s: gpg-aware class built from a list / file with strict passed positionally -- %d such divergences in this run]" % (KNOWN_POS_STRICT, n_known))
            n_bad += n_known
    ctx.extra["known_deviation_hits"] = {KNOWN_POS_STRICT: n_known}
    for idx, c in enumerate(cases):
        v = c["v"]
        nontrivial = any(x in (10, 13) for x in v)
        ctx.case_seen(("case", tuple(v)), nontrivial)
        if c["cls"] not in sampled and len(v) >= 4 and nontrivial:
            sampled.add(c["cls"])
            ctx.sample("case #%d: value %s -> class %s, model Validate %s%s" % (
                idx, show(txt(v)), c["cls"], "ok" if c["acc"] else "ValueError",
                "; read back as one paragraph %s from str/StringIO/BytesIO" % show(["A", "B", "C"]) if c["acc"] else "; items() unchanged"))
    ctx.extra["case_replays"] = n_checked
    ctx.extra["case_replay_violations"] = n_bad
    ctx.extra["case_replays_after_a_failed_dump"] = n_cfault
    ctx.extra["size_stressed_replays"] = stress
    ctx.extra["outcomes_per_class"] = {k: n for k, n in sorted(stats.items()) if not k.startswith("aligned/")}
    ctx.extra["aligned_cases"] = {k[len("aligned/"):]: n for k, n in sorted(stats.items()) if k.startswith("aligned/")}
    ctx.evaluations += max(0, n_checked - len(cases))
    # walks
    n_walks = n_steps = n_wbad = 0
    wops = {}
    wkinds = {}
    wfaults = {}
    for r in walk_results:
        if r.get("crash"):
            raise core.MachineryError("history replay worker failed:\n" + r["crash"])
        n_walks += r["n"]
        n_steps += r["steps"]
        wkinds[r["kind"]] = wkinds.get(r["kind"], 0) + r["n"]
        for k, n in r["forms"].items():
            forms[k] = forms.get(k, 0) + n
        for k, n in r["ops"].items():
            wops[k] = wops.get(k, 0) + n
        for k, n in r.get("faults", {}).items():
            wfaults[k] = wfaults.get(k, 0) + n
        for vcase, msg in r["violations"]:
            if n_wbad < 3:
                ctx.violation(vcase, msg)
            n_wbad += 1
    for w in range(n_walks):
        ctx.distinct.add(("walk", w))
    ctx.evaluations += n_steps
    ctx.extra["history_walks"] = {"walks": n_walks, "walks_per_lts": wkinds, "steps": n_steps, "steps_per_action": wops, "violations": n_wbad,
                                  "faulted_dumps_per_file_object": dict(sorted(wfaults.items()))}
    ctx.extra["file_object_kinds"] = {FORM_SRC[k]: n for k, n in sorted(forms.items())}
    phase["replay_s"] = round(time.time() - t_ph, 1)

    # 4. results of the trace validation
    n_rej = 0
    n_diff = 0
    try:
        f_neg.result()
        results = f_val.result()
    finally:
        ex_neg.shutdown(wait=True)
        ex_val.shutdown(wait=True)
    for off, rejected, info, model_diff in results:
        part = traces[off:off + chunk]
        for tid, l in model_diff[:5]:
            e = part[tid - 1]["events"][l - 1]
            ctx.drift("reader/validator model differs from the observation on value %s (trace %d event %d)" % (show(txt(e["v"])), off + tid, l))
        n_diff += len(model_diff)
        for i in rejected[:3]:
            t = part[i - 1]
            at, why = info.get(i, (0, []))
            e = t["events"][at] if at < len(t["events"]) else None
            ctx.violation({"kind": "trace", "script": t["script"], "first_unexplained_event": at + 1},
                          "recorded history on %s not explained by Deb822Value at event %d: %s; failed obligations %s"
                          % ("/".join(o["cls"] for o in t["objs"]), at + 1, _evshow(t, at) if e else "?", why))
        n_rej += len(rejected)
    nvals = sum(len(t["events"]) for t in traces)
    nacc = sum(1 for t in traces for e in t["events"] if e["acc"])
    ctx.traces += n_checked + n_walks + len(traces)
    ctx.evaluations += nvals
    for i, t in enumerate(traces):
        ctx.distinct.add(("trace", i))
    t0 = traces[0]
    ctx.sample("recorded trace on %s, first events: %s" % ("/".join(o["cls"] for o in t0["objs"]), "; ".join(_evshow(t0, i) for i in range(min(3, len(t0["events"]))))))
    ctx.extra["traces_recorded"] = len(traces)
    ctx.extra["trace_values"] = {"assigned": nvals, "accepted": nacc, "max_len": max(len(e["v"]) for t in traces for e in t["events"]),
                                 "multivalued_key_events": sum(1 for t in traces for e in t["events"] if e["obj"] == 0),
                                 "new_key_events": sum(t["newkeys"] for t in traces),
                                 "fresh_events": sum(1 for t in traces for e in t["events"] if e["op"] == "fresh"),
                                 "same_key_events": _same_key_stats(traces),
                                 "merge_in_place_events": {r: sum(1 for t in traces for e in t["events"] if e["op"] == "merge" and e["res"] == r)
                                                           for r in sorted({e["res"] for t in traces for e in t["events"] if e["op"] == "merge"})},
                                 "merge_three_arg_then_assigned": sum(1 for t in traces for c in t["script"]["calls"]
                                                                      if len(c) > 6 and c[4] == "merge" and c[6]["form"].startswith("three-arg")),
                                 "faulted_dump_events": sum(1 for t in traces for e in t["events"] if e["op"] == "faultdump"),
                                 "build_events": {r: sum(1 for t in traces for e in t["events"] if e["op"] == "build" and e["res"] == r)
                                                  for r in sorted({e["res"] for t in traces for e in t["events"] if e["op"] == "build"})},
                                 "build_events_with_raw_multivalued_value": sum(1 for t in traces for c in t["script"]["calls"]
                                                                                 if len(c) > 6 and c[4] == "build" and c[6]["carrier"][0] == "para" and c[6]["carrier"][2]),
                                 "reader_model_evaluated_on": sum(len(t["events"]) for t in traces if t["deep"])}
    ctx.extra["traces_rejected"] = n_rej
    ctx.extra["model_vs_observation_differences"] = n_diff
    ctx.tlc_runs.sort(key=lambda x: (x["module"], x["violated"] is not None, -x["generated"]))   # completion order varies
    phase["total_s"] = round(time.time() - ctx.t0, 1)
    ctx.extra["phase_wall"] = phase              # informational only, never part of a verdict


def _same_key_stats(traces):
    """assignments to a key of a live object whose STORED value is a proper prefix of the new one / extends it /
    shares a non-empty prefix with it, and how many of the first kind were cut right behind a bare CR, LF (evidence)"""
    out = {"extends_stored": 0, "prefix_of_stored": 0, "shares_prefix": 0, "stored_ends_in_bare_CR": 0, "cut_in_front_of_LF": 0, "cut_in_front_of_CR": 0}
    for t in traces:
        ps = [{txt(f["k"]).lower(): txt(f["v"]) for f in o["para"]} for o in t["objs"]]
        for e in t["events"]:
            if e["obj"] and e["op"] == "assign":
                old, new = ps[e["obj"] - 1].get(txt(e["key"]).lower()), txt(e["v"])
                if old and new and old != new:
                    if new.startswith(old):
                        out["extends_stored"] += 1
                        out["stored_ends_in_bare_CR"] += old.endswith("\r")
                        out["cut_in_front_of_LF"] += new[len(old)] == "\n"
                        out["cut_in_front_of_CR"] += new[len(old)] == "\r"
                    elif old.startswith(new):
                        out["prefix_of_stored"] += 1
                    elif old[0] == new[0]:
                        out["shares_prefix"] += 1
            if e["obj"]:
                ps[e["obj"] - 1] = {txt(f["k"]).lower(): txt(f["v"]) for f in e["items"][e["obj"] - 1]}
    return out


def _evshow(t, i):
    e = t["events"][i]
    tgt = "throw-away %s" % e["cls"] if e["obj"] == 0 else "object %d (%s)" % (e["obj"], e["cls"])
    call = t.get("script", {}).get("calls", [])
    extra = call[i][6] if (i < len(call) and len(call[i]) > 6) else {}
    if e.get("op") == "fresh":
        how = extra.get("how")
        s = "%s replaced by an empty paragraph (%s) -> %s, now holds %s" % (
            tgt, EMPTY_WAYS[how][extra.get("sel", 0) % len(EMPTY_WAYS[how])] if how in EMPTY_WAYS else "?", e["res"],
            short(show([[txt(f["k"]), txt(f["v"])] for f in e["items"][e["obj"] - 1]]), 120))
    elif e.get("op") == "faultdump":
        s = "%s dumped into a failing file object (%s, fault placed at field: %s) -> %s, paragraph afterwards %s" % (
            tgt, FAULT_KINDS[extra.get("sel", 0) % len(FAULT_KINDS)][0], extra.get("pos"), e["res"],
            short(show([[txt(f["k"]), txt(f["v"])] for f in e["items"][e["obj"] - 1]]), 120))
    elif e.get("op") == "merge":
        s = "%s .%s(%s, %s) in place, operand holding %s -> %s, field afterwards %s" % (
            tgt, MERGE_CALLS[extra.get("sel", 0) % len(MERGE_CALLS)], show(txt(e["key"])),
            {"live": "the other live object", "dict": "a plain mapping"}.get(extra.get("form"), "a %s paragraph" % extra.get("opcls")),
            short(show([[txt(f["k"]), txt(f["v"])] for f in e["m"]]), 160), e["res"], show(txt(e["v"])))
    elif e.get("op") == "build":
        s = "%s := %s with M = %s holding %s -> %s" % (
            tgt, BUILD_STYLES[extra.get("style", 0) % len(BUILD_STYLES)].replace("Cls", e["cls"]), extra.get("carrier"),
            short(show([[txt(f["k"]), txt(f["v"])] for f in e["m"]]), 200), e["res"])
    else:
        s = "%s [%s] := %s -> %s" % (tgt, txt(e["key"]), show(txt(e["v"])), e["res"])
    if (e["acc"] or e.get("op") == "faultdump") and e["obj"] != 0 and e["rb"]["o"]:
        s += " read back " + ",".join("%s=%s" % (n, _rbshow({"st": rb_get(e["rb"], n)["st"], "paras": [[txt(k) for k in p] for p in rb_get(e["rb"], n)["paras"]]})) for n in ("sF", "bT"))
    return s


def replay(ctx, case):
    WORKDIR[0] = ctx.work
    if case["kind"] == "case":
        conc = Conc.from_json(case["conc"])
        known = []
        msg, _ = check_case(case["case"], case["cls"], conc, case.get("route", "setitem"), wsel=case.get("wsel", 0),
                            known=known if (case.get("known") and ctx.known_open(case["known"])) else None,
                            nways=case.get("nways", 2))
        return msg
    if case["kind"] == "walk":
        hc = HistConc.from_json(case["conc"])
        msg, _ = run_walk(case["path"], case["init"], hc)
        return msg
    if case["kind"] == "trace":
        new = record_trace(None, 0, script=case["script"])
        rejected, info, _ = validate(ctx, [new], with_controls=False)
        if rejected:
            at, why = info.get(1, (0, []))
            return "history still not explained by the specification at event %d: %s; failed obligations %s" % (at + 1, _evshow(new, at) if at < len(new["events"]) else "?", why)
        return None
    return "unknown case kind"
