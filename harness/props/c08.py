"""C08 -- an accepted field value can never inject fields or split the paragraph.

spec:      spec/Deb822Value.tla   statement layer (EndsLF / HasEmptyLine / HasUnindentedCont /
                                  BlankCont, Classify) + transcription layer (Validate =
                                  validate_input, Dump = _dump_format, ReadBack = iter_paragraphs /
                                  _skip_useless_lines / split_gpg_and_payload / _internal_parser for
                                  str input (splitlines) and file input (lines end at LF only), with
                                  whitespace-separates-paragraphs TRUE / FALSE) over code points
           spec/TraceDeb822Value.tla  trace validation on concrete code points
binding:   (a) one CASE line per value (every value up to length 5 / 6 over x : # space tab CR LF;
               classification, model verdict and expected key list computed by TLC) replayed into
               Deb822 and Dsc: assigned to the first / middle / last field of a three-field
               paragraph, x concretized to printable ASCII / non-ASCII; accepted <=> classification,
               ValueError leaves list(d.items()) unchanged, on accept the dump is read back with
               Deb822.iter_paragraphs from str, io.StringIO and io.BytesIO with
               whitespace-separates-paragraphs False and with the default setting;
           (b) random assignment histories (values up to 40 characters over the domain, neighbour
               fields holding previously accepted multi-line values) recorded from the real classes
               and validated by TLC, which evaluates Classify / Validate / ReadBack on the concrete
               code points.
negative controls run in every check: NoIndentRule, AllowEndLF, ValidateLFOnly, ReaderNoWsRule must
make TLC report Sound violated; corrupted control traces must be rejected, a literal good one accepted.
"""
import io
import json
import os
import re
import time
import warnings
from concurrent.futures import ThreadPoolExecutor

import core

MANIFEST = dict(
    technique="TLA+ spec over code points (Deb822Value: statement layer + transcription of validate_input, _dump_format and the iter_paragraphs reader for str and file input with both whitespace settings) model-checked by TLC; bounded-exhaustive CASE lines replayed into Deb822/Dsc; recorded assignment histories validated by TLC (TraceDeb822Value)",
    text="TLC enumerates every value up to length 5 (quick) / 6 (thorough) over the seven symbols x : # space tab CR LF, assigns it to the first, middle and last field of a three-field paragraph and checks on the transcription of the code that an accepted value, dumped and read back by the character-level model of iter_paragraphs (str.splitlines for str input, LF-terminated lines for file input), gives exactly one paragraph with the same field names when whitespace-only lines do not separate paragraphs, and under the default setting too when no continuation line is blank (Sound); that the three defects named by the statement imply rejection and that the validator's scanner equals the declarative characterisation (RejectComplete, RejectExact); that rejection leaves the paragraph unchanged. Every CASE line (value, classification accept/blank/zone/reject, expected key list) is replayed into the real Deb822 and Dsc classes (all three positions for what is accepted, several concretizations of x, d[k]=v and update()), the dump being read back from str, io.StringIO and io.BytesIO under both settings; assignment histories recorded from the real classes on random domain text up to 40 characters (3 200 values quick / 50 000 thorough, neighbour fields holding accepted multi-line values) are validated by TLC on the concrete code points, where the reader and validator models are evaluated as well.",
    note="Small scope: values <= 6 symbols exhaustively, longer ones sampled (traces); neighbour fields are 'x' in the model, richer in the traces. Unspecified (executed, never judged on acceptance): 'zone' = a lone CR followed by something that is not indentation (a defect only if CR ends a line; rejected today) and 'blank' = a whitespace-only continuation line (accepted today); whatever is accepted must still read back as one paragraph with the same keys. Default-setting read-back is judged only when no value of the paragraph has a blank continuation line. Characters outside the property's domain (NBSP, VT, FF, U+0085, U+2028, other Unicode whitespace) are never generated. Trusted: TLC, the projections (list(d.items()), key lists of the paragraphs read back), the concretizer. Spec-level negative controls and corrupted control traces are run in every check.",
    design="5 (C08)")

X = 120
SPECIAL = {58, 35, 32, 9, 13, 10}
CLASSES = ("Deb822", "Dsc")
FORMS = ("s", "f", "b")                       # str, io.StringIO, io.BytesIO
RBNAMES = ("sF", "sT", "fF", "fT", "bF", "bT")
WS_FALSE = {"whitespace-separates-paragraphs": False}
JAVA_OPTS = ["-Xss32m"]                     # the reader model recurses per line / per character of a line

# field names that no class gives a special meaning on assignment
KEY_POOL = ["Source", "Binary", "Maintainer", "Version", "Homepage", "Standards-Version", "Format",
            "Architecture", "Uploaders", "Vcs-Git", "X-Comment", "Description", "Build-Depends",
            "Package", "Section", "Priority", "Testsuite", "a", "Zz9", "X-a_b.c+d"]
# what the model's x stands for: printable, not whitespace, not ':' '#', never a DESIGN D1 character
X_ASCII = [chr(c) for c in range(33, 127) if c not in (58, 35)]
X_OTHER = list("éßØЖΩ中日あ€—¿őא٣Ａ①") + ["\U0001F600", "\U00010400"]


def _check_pools():
    for ch in X_ASCII + X_OTHER:
        if not ch.isprintable() or ch.isspace() or ch in ":#" or len(ch.splitlines()) != 1 or len(ch) != 1:
            raise core.MachineryError("concretizer pool contains %r, which is outside the domain of C08" % ch)
    low = [k.lower() for k in KEY_POOL]
    if len(set(low)) != len(low):
        raise core.MachineryError("key pool not unique up to case")


def pick_x(rng):
    return rng.choice(X_ASCII) if rng.random() < 0.7 else rng.choice(X_OTHER)


def cp(s):
    return [ord(c) for c in s]


def txt(a):
    return "".join(map(chr, a))


def show(s):
    return json.dumps(s, ensure_ascii=True)


# ------------------------------------------------------------------ driving the real classes

def get_class(name):
    import debian.deb822 as m
    return getattr(m, name)


def build(clsname, pairs):
    d = get_class(clsname)()
    for k, v in pairs:
        d[k] = v
    return d


def project(d):
    return [[k, d[k]] for k in d]


def assign(d, key, value, route="setitem"):
    """returns "ok" | "ValueError" | "EXC:<type>" -- every exception is an observation"""
    try:
        if route == "update":
            d.update([(key, value)])
        else:
            d[key] = value
        return "ok"
    except ValueError:
        return "ValueError"
    except Exception as e:                                           # noqa: BLE001
        return "EXC:" + type(e).__name__


def read_back(text, form, ws_default):
    """[st, paras]: key list of every paragraph iter_paragraphs yields for the dumped text"""
    from debian.deb822 import Deb822
    if form == "s":
        src = text
    elif form == "f":
        src = io.StringIO(text)
    else:
        src = io.BytesIO(text.encode("utf-8"))
    try:
        with warnings.catch_warnings():
            warnings.simplefilter("ignore")
            if ws_default:
                it = Deb822.iter_paragraphs(src, use_apt_pkg=False)
            else:
                it = Deb822.iter_paragraphs(src, use_apt_pkg=False, strict=dict(WS_FALSE))
            return {"st": "ok", "paras": [list(p.keys()) for p in it]}
    except Exception as e:                                           # noqa: BLE001
        return {"st": "EXC:" + type(e).__name__, "paras": []}


def read_all(d):
    """dump + the six read-backs; a failing dump is an observation as well"""
    try:
        text = d.dump()
    except Exception as e:                                           # noqa: BLE001
        bad = {"st": "EXC(dump):" + type(e).__name__, "paras": []}
        return None, {n: bad for n in RBNAMES}
    rb = {}
    for f in FORMS:
        rb[f + "F"] = read_back(text, f, False)
        rb[f + "T"] = read_back(text, f, True)
    return text, rb


# ------------------------------------------------------------------ (a) CASE replay

class Conc:
    """keys of the three fields, neighbour values and one character per x of the value"""

    def __init__(self, rng=None, value=(), canonical=True):
        if canonical or rng is None:
            self.keys = ["A", "B", "C"]
            self.nb = ["x", "x", "x"]
            self.xs = ["x" for c in value if c == X]
        else:
            self.keys = rng.sample(KEY_POOL, 3)
            self.nb = [pick_x(rng) for _ in range(3)]
            self.xs = [pick_x(rng) for c in value if c == X]

    def value(self, v):
        it = iter(self.xs)
        return "".join(next(it) if c == X else chr(c) for c in v)

    def to_json(self):
        return {"keys": self.keys, "nb": self.nb, "xs": self.xs}

    @classmethod
    def from_json(cls, j):
        c = cls.__new__(cls)
        c.keys, c.nb, c.xs = list(j["keys"]), list(j["nb"]), list(j["xs"])
        return c


def check_case(case, clsname, pos, conc, route="setitem", stats=None):
    """replay one CASE line at one position; returns (message or None, [drift notes]).
    Expected values -- cls, blank, keys (as model code points, mapped through conc), wt -- come
    from TLC; this function only drives the real class and compares."""
    v = conc.value(case["v"])
    cls = case["cls"]
    keys = conc.keys
    start = [[k, n] for k, n in zip(keys, conc.nb)]
    where = "%s %s[%r] = %s (field %d of %s)" % (clsname, "update" if route == "update" else "d", keys[pos - 1], show(v), pos, show(keys))
    drift = []
    try:
        d = build(clsname, start)
    except Exception as e:                                           # noqa: BLE001
        return "%s: building the start paragraph raised %s" % (where, type(e).__name__), drift
    res = assign(d, keys[pos - 1], v, route)
    if stats is not None:
        stats[(cls, res)] = stats.get((cls, res), 0) + 1
    if res.startswith("EXC:"):
        return "%s raised %s (the statement allows ValueError only)" % (where, res[4:]), drift
    if cls == "accept" and res != "ok":
        return "%s raised ValueError; the value has no defect and no blank continuation line (model: accepted)" % where, drift
    if cls == "reject" and res == "ok":
        return "%s was accepted; the value ends in a newline / has an empty or unindented continuation line (model: ValueError)" % where, drift
    if (res == "ok") != case["acc"]:
        drift.append("acceptance of %s (class %s) differs from the transcription of validate_input" % (show(v), cls))
    try:
        items = project(d)
    except Exception as e:                                           # noqa: BLE001
        return "%s: reading the paragraph back raised %s" % (where, type(e).__name__), drift
    if res != "ok":
        if items != start:
            return "%s raised ValueError but the paragraph changed: %s" % (where, show(items)), drift
        return None, drift
    stored = [[k, (v if i == pos - 1 else n)] for i, (k, n) in enumerate(zip(keys, conc.nb))]
    if items != stored:
        drift.append("%s accepted but items() = %s" % (where, show(items)))
    text, rb = read_all(d)
    one = {"st": "ok", "paras": [keys]}                      # = OneParagraph(KeysOf(P0)) of the CASE line
    kmap = {tuple(k): keys[i] for i, k in enumerate(case["keys"])}
    for f in FORMS:
        got = rb[f + "F"]
        if got != one:
            return ("%s accepted; dump %s read back (%s input, whitespace-separates-paragraphs=False) gives %s, expected one paragraph with keys %s"
                    % (where, show(text), _formname(f), _rbshow(got), show(keys))), drift
        got = rb[f + "T"]
        if not case["blank"]:
            if got != one:
                return ("%s accepted (no blank continuation line); dump %s read back (%s input, default setting) gives %s, expected one paragraph with keys %s"
                        % (where, show(text), _formname(f), _rbshow(got), show(keys))), drift
        elif case["acc"] and case["wt"]:
            w = case["wt"][pos - 1]["str" if f == "s" else "file"]
            exp = {"st": w["st"], "paras": [[kmap.get(tuple(k), txt(k)) for k in p] for p in w["paras"]]}
            if got != exp and all(tuple(k) in kmap for p in w["paras"] for k in p):
                drift.append("%s: default-setting read-back (%s) %s, reader model %s" % (where, _formname(f), _rbshow(got), _rbshow(exp)))
    return None, drift


CASE_CHUNK = 1500


def replay_chunk(payload):
    """worker: replay a chunk of CASE lines; everything it needs comes with the payload"""
    import random
    import traceback
    seed, tier, off, chunk = payload
    quick = tier == "quick"
    rng = random.Random("C08-%s-cases-%d" % (seed, off))
    out = {"n": 0, "stats": {}, "drift": [], "violations": []}
    stats = {}
    try:
        for j, c in enumerate(chunk):
            idx = off + j
            v = c["v"]
            # canonical concretization: all three positions for what is accepted and read back,
            # one rotating position for the values the statement wants rejected
            canon_pos = (1, 2, 3) if c["cls"] in ("accept", "blank") else (1 + idx % 3,)
            jobs = [("Deb822", pos, Conc(value=v), "setitem") for pos in canon_pos]
            # rotating extras: other class / other concretization / update() route
            k = idx % 6
            extra_pos = 1 + (idx // 6) % 3
            if k < 3:
                jobs.append(("Dsc", extra_pos, Conc(rng, v, canonical=(k == 0)), "setitem"))
            elif k < 5:
                jobs.append(("Deb822", extra_pos, Conc(rng, v, canonical=False), "setitem"))
            else:
                jobs.append(("Deb822", extra_pos, Conc(rng, v, canonical=False), "update"))
            if not quick:
                jobs.append(("Dsc" if idx % 2 else "Deb822", 1 + (idx // 2) % 3, Conc(rng, v, canonical=False), "setitem"))
            for clsname, pos, conc, route in jobs:
                msg, drift = check_case(c, clsname, pos, conc, route, stats)
                out["n"] += 1
                if drift and len(out["drift"]) < 3:
                    out["drift"].append(drift[0])
                if msg:
                    if len(out["violations"]) < 3:
                        out["violations"].append(({"kind": "case", "case": c, "cls": clsname, "pos": pos,
                                                   "conc": conc.to_json(), "route": route}, msg))
                    break
        out["stats"] = {"%s/%s" % k: n for k, n in stats.items()}
    except Exception:                                                # noqa: BLE001  harness bug, not an observation
        out["crash"] = traceback.format_exc()
    return out


def _formname(f):
    return {"s": "str", "f": "io.StringIO", "b": "io.BytesIO"}[f]


def _rbshow(r):
    return r["st"] if r["st"] != "ok" else "%d paragraph(s) %s" % (len(r["paras"]), show(r["paras"]))


# ------------------------------------------------------------------ (b) trace recording

BOUNDARIES = ["\n"] * 7 + ["\r\n"] * 2 + ["\r"]


def gen_body(rng, n):
    out = []
    for _ in range(n):
        r = rng.random()
        if r < 0.62:
            out.append(pick_x(rng))
        elif r < 0.74:
            out.append(" ")
        elif r < 0.80:
            out.append("\t")
        elif r < 0.90:
            out.append(":")
        else:
            out.append("#")
    return "".join(out)


def gen_value(rng):
    """a value over the property's domain (printable, ':', '#', space, tab, CR, LF), <= 40 chars"""
    mode = rng.random()
    if mode < 0.25:                                     # uniform over the seven symbol classes
        n = rng.randint(0, 9)
        s = "".join(rng.choice([pick_x(rng), ":", "#", " ", "\t", "\r", "\n"]) for _ in range(n))
    elif mode < 0.85:                                   # line structured, mostly well-formed
        lines = [gen_body(rng, rng.choice([0, 0, 1, 2, 3, 5, 8]))]
        for _ in range(rng.choice([0, 1, 1, 2, 2, 3, 4])):
            r = rng.random()
            if r < 0.80:
                indent = "".join(rng.choice(" \t") for _ in range(rng.randint(1, 2)))
            else:
                indent = ""
            r = rng.random()
            if r < 0.10:
                body = ""
            elif r < 0.20:
                body = gen_body(rng, rng.randint(1, 3)).replace(":", " ") + ": " + gen_body(rng, rng.randint(0, 2))
            else:
                body = gen_body(rng, rng.randint(1, 8))
            lines.append(indent + body)
        s = lines[0]
        for ln in lines[1:]:
            s += rng.choice(BOUNDARIES) + ln
        r = rng.random()
        if r < 0.06:
            s += "\n"
        elif r < 0.12:
            s += "\r"
        elif r < 0.16:
            s += " "
    elif mode < 0.88:                                   # armor shaped continuation lines
        s = gen_body(rng, rng.randint(0, 2)) + rng.choice(["\n ", "\n", "\r", "\r\n\t", "\n \r", "\r "]) \
            + rng.choice(["-----BEGIN PGP SIGNATURE-----", "-----END PGP SIGNATURE-----", "-----BEGIN PGP SIGNED MESSAGE-----"]) \
            + rng.choice(["", "\r", " ", "\n x"])
    else:                                               # injection shaped
        key = gen_body(rng, rng.randint(1, 4)).replace(":", "x").replace(" ", "x").replace("\t", "x")
        sep = rng.choice(["\n", "\r", "\r\n", "\n\r", "\n\n", "\n ", "\r ", "\n\t", " \r", "\n \r", "\n#", "\r\r\n ", "\n \n"])
        s = gen_body(rng, rng.randint(0, 3)) + sep + key + rng.choice([":", ": ", " :", ":\t"]) + gen_body(rng, rng.randint(0, 3))
    return s[:40]


def simple_value(rng):
    r = rng.random()
    if r < 0.5:
        return "".join(pick_x(rng) for _ in range(rng.randint(1, 4)))
    if r < 0.7:
        return ""
    if r < 0.85:
        return pick_x(rng) + "\n " + pick_x(rng) + "\n\t" + pick_x(rng) + ": " + pick_x(rng)
    return "\n " + pick_x(rng) + " #" + pick_x(rng)


def enc_para(items):
    return [{"k": cp(k), "v": cp(v)} for k, v in items]


def enc_rb(rb):
    """table of the distinct observations + 1-based index per name (the six are usually equal)"""
    table, ix = [], {}
    for n in RBNAMES:
        o = {"st": rb[n]["st"], "paras": [[cp(k) for k in p] for p in rb[n]["paras"]]}
        if o not in table:
            table.append(o)
        ix[n] = table.index(o) + 1
    return {"o": table, "ix": ix}


def rb_get(rbj, n):
    return rbj["o"][rbj["ix"][n] - 1]


NO_RB = {"o": [], "ix": {n: 0 for n in RBNAMES}}


def record_trace(rng, clsname, nev, script=None):
    """random assignment history on one real object; `script` = [(pos, value, route)] re-executes
    a recorded one"""
    if script is None:
        keys = rng.sample(KEY_POOL, rng.randint(3, 4))
        start = [[k, simple_value(rng)] for k in keys]
    else:
        start = script["start"]
        keys = [k for k, _ in start]
    d = build(clsname, start)
    init = project(d)
    events, calls = [], []
    for i in range(nev if script is None else len(script["calls"])):
        if script is None:
            pos = rng.randint(1, len(keys))
            v = gen_value(rng)
            route = "update" if rng.random() < 0.15 else "setitem"
        else:
            pos, v, route = script["calls"][i]
        res = assign(d, keys[pos - 1], v, route)
        try:
            items = project(d)
        except Exception as e:                                       # noqa: BLE001
            items = [["<items() raised %s>" % type(e).__name__, ""]]
        if res == "ok":
            _, rb = read_all(d)
            rbj = enc_rb(rb)
        else:
            rbj = NO_RB
        calls.append([pos, v, route])
        events.append({"pos": pos, "v": cp(v), "acc": res == "ok", "res": res, "items": enc_para(items), "rb": rbj})
    return {"cls": clsname, "init": enc_para(init), "events": events,
            "script": {"start": start, "calls": calls}}


def slim(t):
    return {"init": t["init"], "deep": t.get("deep", True), "events": t["events"]}


def _ev(pos, v, acc, items, rb=None, res=None):
    return {"pos": pos, "v": cp(v), "acc": acc, "res": res or ("ok" if acc else "ValueError"),
            "items": enc_para(items), "rb": rb or NO_RB}


def _rb(keys, **over):
    r = {n: {"st": "ok", "paras": [keys]} for n in RBNAMES}
    for n, paras in over.items():
        r[n] = {"st": "ok", "paras": paras}
    return enc_rb(r)


P3 = [["A", "x"], ["B", "x"], ["C", "x"]]
K3 = ["A", "B", "C"]
# literal traces: what the real code does today on four assignments -- must be accepted
GOOD_TRACE = {"init": enc_para(P3), "deep": True, "events": [
    _ev(2, "y\n z: w", True, [["A", "x"], ["B", "y\n z: w"], ["C", "x"]], _rb(K3)),
    _ev(1, "y\nz: w", False, [["A", "x"], ["B", "y\n z: w"], ["C", "x"]]),
    _ev(3, "y\n \n z", True, [["A", "x"], ["B", "y\n z: w"], ["C", "y\n \n z"]],
        _rb(K3, sT=[K3], fT=[K3], bT=[K3])),
    _ev(1, "y\rz", False, [["A", "x"], ["B", "y\n z: w"], ["C", "y\n \n z"]]),
]}


def control_traces():
    """corrupted literal traces: each must be rejected by TraceDeb822Value"""
    out = []
    # an injecting value reported as accepted, with the read-back it would give
    out.append({"init": enc_para(P3), "deep": True, "events": [
        _ev(2, "y\nz: w", True, [["A", "x"], ["B", "y\nz: w"], ["C", "x"]], _rb(K3, **{n: [["A", "B", "z", "C"]] for n in RBNAMES}))]})
    # ... and with a read-back that hides it: acceptance alone must be rejected
    out.append({"init": enc_para(P3), "deep": True, "events": [
        _ev(2, "y\nz: w", True, [["A", "x"], ["B", "y\nz: w"], ["C", "x"]], _rb(K3))]})
    # a clean value reported as rejected
    out.append({"init": enc_para(P3), "deep": True, "events": [_ev(2, "y\n z", False, P3)]})
    # accepted, but one read-back shows an extra field / a split / a truncation
    out.append({"init": enc_para(P3), "deep": True, "events": [
        _ev(2, "y\n z: w", True, [["A", "x"], ["B", "y\n z: w"], ["C", "x"]], _rb(K3, fF=[["A", "B", "z", "C"]]))]})
    out.append({"init": enc_para(P3), "deep": True, "events": [
        _ev(2, "y\n z", True, [["A", "x"], ["B", "y\n z"], ["C", "x"]], _rb(K3, sT=[["A", "B"], ["C"]]))]})
    out.append({"init": enc_para(P3), "deep": True, "events": [
        _ev(2, "y\n z", True, [["A", "x"], ["B", "y\n z"], ["C", "x"]], _rb(K3, bF=[["A", "B"]]))]})
    # rejected, but the paragraph changed
    out.append({"init": enc_para(P3), "deep": True, "events": [_ev(2, "y\n", False, [["A", "x"], ["B", "y\n"], ["C", "x"]])]})
    # wrong exception type
    out.append({"init": enc_para(P3), "deep": True, "events": [_ev(2, "y\n", False, P3, res="EXC:TypeError")]})
    return out


def corrupt(t):
    """corrupted copies of a recorded trace (negative controls drawn from the run's own data)"""
    import copy
    out = []
    for i, e in enumerate(t["events"]):
        if e["acc"]:
            c = copy.deepcopy(slim(t))
            rbj = c["events"][i]["rb"]
            r = copy.deepcopy(rb_get(rbj, "sF"))
            r["paras"] = [p + [[120]] for p in r["paras"]] or [[[120]]]
            rbj["o"].append(r)
            rbj["ix"]["sF"] = len(rbj["o"])
            out.append(c)
            break
    for i, e in enumerate(t["events"]):
        if not e["acc"]:
            c = copy.deepcopy(slim(t))
            c["events"][i]["items"] = c["events"][i]["items"][:-1]
            out.append(c)
            break
    return out


def validate(ctx, traces, with_controls=True):
    """TLC validates the traces; returns (rejected 1-based ids, {id: (accepted prefix, reasons)},
    [(id, event)] where the reader model differs from the observation -- diagnostic)"""
    batch = [slim(t) for t in traces] + [GOOD_TRACE]
    controls = []
    if with_controls:
        controls = control_traces()
        for t in traces[:3]:
            controls += corrupt(t)
    acc, _, r = core.validate_traces(ctx, "TraceDeb822Value", "TraceDeb822Value.cfg", batch,
                                     extra_env={"TRACE_DIAG": "0"}, controls=controls, workers=min(8, core.NCPU), java_opts=JAVA_OPTS)
    if len(batch) not in acc:
        raise core.MachineryError("TraceDeb822Value rejects the literal good trace: trace module broken")
    model_diff = [(v[0], v[1]) for v in r.printed.get("REJECT", []) if isinstance(v, list) and v[0] <= len(traces)]
    rejected = [i for i in range(1, len(traces) + 1) if i not in acc]
    info = {}
    if rejected:
        sub = [slim(traces[i - 1]) for i in rejected[:20]]
        acc2, prog, r2 = core.validate_traces(ctx, "TraceDeb822Value", "TraceDeb822Value.cfg", sub,
                                              extra_env={"TRACE_DIAG": "1"}, workers=1, java_opts=JAVA_OPTS)
        why = {}
        for v in r2.printed.get("REJECT", []):
            if isinstance(v, list) and len(v) >= 3 and isinstance(v[2], list):
                why[v[0]] = v[2]
        for j, i in enumerate(rejected[:20]):
            info[i] = (prog.get(j + 1, 0), why.get(j + 1, []))
        unconfirmed = [i for j, i in enumerate(rejected[:20]) if j + 1 in acc2]
        if unconfirmed:
            raise core.MachineryError("trace validation is not reproducible: traces %r rejected in the batch, accepted alone" % unconfirmed)
    return rejected, info, model_diff


# ------------------------------------------------------------------ the check

def cfg_variant(name, **subst):
    text = open(os.path.join(core.SPEC, name)).read()
    for k, v in subst.items():
        text, n = re.subn(r"(?m)^(\s*%s\s*=\s*).*$" % k, lambda m: m.group(1) + str(v), text)
        if n != 1:
            raise core.MachineryError("cfg %s has no constant %s" % (name, k))
    return text


NEG_CONTROLS = ("NoIndentRule", "AllowEndLF", "ValidateLFOnly", "ReaderNoWsRule")


def spec_negative_controls(ctx):
    """Sound is not vacuous: each weakened validator / reader must make TLC report it violated"""
    def one(name):
        r = ctx.tlc("Deb822Value", cfg_variant("MC_Deb822Value_neg.cfg", **{name: "TRUE"}), count=False,
                    workers=1, want_tags=set(), java_opts=["-XX:TieredStopAtLevel=1"])     # a few hundred states
        return name, r.violated
    with ThreadPoolExecutor(max_workers=len(NEG_CONTROLS)) as ex:
        results = list(ex.map(one, NEG_CONTROLS))
    out = {}
    for name, got in results:
        out[name] = got
        if got != "Sound":
            raise core.MachineryError("spec-level negative control %s: expected Sound violated, TLC reports %r" % (name, got))
    ctx.extra["spec_negative_controls"] = out


def run(ctx):
    quick = ctx.tier == "quick"
    rng = ctx.rng
    _check_pools()
    maxlen = 5 if quick else 6
    ctx.assumptions += [
        "bounded: every value up to length %d over 7 code points (x : # space tab CR LF) at the first/middle/last field of A: x / B: x / C: x; longer values and richer neighbour values are sampled (traces, values up to 40 characters)" % maxlen,
        "unspecified acceptance, executed but never judged: 'zone' (a lone CR followed by something that is not indentation -- a defect only if CR ends a line; rejected today) and 'blank' (a whitespace-only continuation line; accepted today). Whatever the code accepts must read back as one paragraph with the same keys (setting False; default setting only when no value in the paragraph has a blank continuation line)",
        "the domain excludes every character Python treats as whitespace or line boundary beyond space, tab, CR, LF (DESIGN.md D1): never generated",
        "concretization of x is class-preserving and sampled (printable ASCII incl. '-', Latin-1, CJK, astral); concrete values are cross-checked by trace validation on the code points",
        "trusted: TLC, the projections (list(d.items()), key lists of iter_paragraphs), the concretizer",
    ]
    workers = min(8, core.NCPU)
    phase = {}
    t_ph = time.time()
    # worker processes for the CASE replay are forked now, before any thread exists
    import multiprocessing
    pool = multiprocessing.get_context("fork").Pool(min(4 if quick else 6, core.NCPU))

    # 1. (b) code -> spec: assignment histories are recorded first; TLC validates them on the
    #    code points in the background while the bounded configuration runs and is replayed
    ntr, nev, deep_every = (400, 8, 1) if quick else (5000, 10, 4)
    traces = [record_trace(rng, CLASSES[i % 2], nev) for i in range(ntr)]
    for i, t in enumerate(traces):
        t["deep"] = (i % deep_every == 0)         # reader model evaluated by TLC on these (diagnostic)
    phase["trace_record_s"] = round(time.time() - t_ph, 1)
    t_ph = time.time()
    chunk = 3500

    def validate_all():
        res = []
        for off in range(0, len(traces), chunk):
            res.append((off,) + validate(ctx, traces[off:off + chunk], with_controls=True))
        return res
    ex_val = ThreadPoolExecutor(max_workers=1)
    f_val = ex_val.submit(validate_all)

    # 2. spec-level negative controls and the bounded configuration, side by side
    try:
        with ThreadPoolExecutor(max_workers=3) as ex:
            f_neg = ex.submit(spec_negative_controls, ctx)
            f_bnd = ex.submit(ctx.tlc_must_hold, "Deb822Value",
                              "MC_Deb822Value_quick.cfg" if quick else "MC_Deb822Value.cfg",
                              workers=workers, want_tags={"CASE"})
            f_zone = None if quick else ex.submit(ctx.tlc_must_hold, "Deb822Value", "MC_Deb822Value_zone.cfg",
                                                  workers=2, want_tags={"CASE"})
            f_neg.result()
            r_bnd = f_bnd.result()
            r_zone = f_zone.result() if f_zone else None
    except BaseException:
        pool.terminate()
        ex_val.shutdown(wait=True)
        raise
    cases = r_bnd.printed.get("CASE", [])
    if len(cases) != r_bnd.distinct or any(not isinstance(c, dict) for c in cases):
        raise core.MachineryError("bounded configuration: %d CASE lines for %d states" % (len(cases), r_bnd.distinct))
    cases.sort(key=lambda c: (len(c["v"]), c["v"]))
    zones = {}
    for c in cases:
        zones[c["cls"]] = zones.get(c["cls"], 0) + 1
    ctx.extra["model"] = {"alphabet": [120, 58, 35, 32, 9, 13, 10], "max_len": maxlen, "values": len(cases),
                          "classes": zones,
                          "zone_what_if_len4": (None if r_zone is None else {
                              "zone_values": sum(1 for c in r_zone.printed.get("CASE", []) if c["cls"] == "zone"),
                              "would_read_back_clean_if_accepted": sum(1 for c in r_zone.printed.get("CASE", []) if c["cls"] == "zone" and c["zs"])}),
                          "positions": 3, "forms": ["str", "file(LF)"], "ws": [False, True]}
    phase["tlc_bounded+controls_s"] = round(time.time() - t_ph, 1)
    t_ph = time.time()

    # 3. (a) every CASE line into the real classes (worker processes, fixed chunks with their own
    #    seeded generators: the result does not depend on the number of processes)
    stats = {}
    n_checked = 0
    n_bad = 0
    sampled = set()
    payloads = [(ctx.seed, ctx.tier, off, cases[off:off + CASE_CHUNK]) for off in range(0, len(cases), CASE_CHUNK)]
    try:
        chunk_results = list(pool.imap(replay_chunk, payloads))
    finally:
        pool.close()
        pool.join()
    for r in chunk_results:
        if r.get("crash"):
            raise core.MachineryError("case replay worker failed:\n" + r["crash"])
        n_checked += r["n"]
        for k, n in r["stats"].items():
            stats[k] = stats.get(k, 0) + n
        for dmsg in r["drift"][:3]:
            ctx.drift(dmsg)
        for vcase, msg in r["violations"]:
            if n_bad < 3:
                ctx.violation(vcase, msg)
            n_bad += 1
    for idx, c in enumerate(cases):
        v = c["v"]
        nontrivial = any(x in (10, 13) for x in v)
        ctx.case_seen(("case", tuple(v)), nontrivial)
        if c["cls"] not in sampled and len(v) >= 4 and nontrivial:
            sampled.add(c["cls"])
            ctx.sample("case #%d: value %s -> class %s, model Validate %s%s" % (
                idx, show(txt(v)), c["cls"], "ok" if c["acc"] else "ValueError",
                "; read back as one paragraph %s from str/StringIO/BytesIO" % show(["A", "B", "C"]) if c["acc"] else "; items() unchanged"))
    ctx.extra["case_replays"] = n_checked
    ctx.extra["case_replay_violations"] = n_bad
    ctx.extra["outcomes_per_class"] = {k: n for k, n in sorted(stats.items())}
    ctx.evaluations += max(0, n_checked - len(cases))
    phase["case_replay_s"] = round(time.time() - t_ph, 1)

    # 4. results of the trace validation
    n_rej = 0
    n_diff = 0
    try:
        results = f_val.result()
    finally:
        ex_val.shutdown(wait=True)
    for off, rejected, info, model_diff in results:
        part = traces[off:off + chunk]
        for tid, l in model_diff[:5]:
            e = part[tid - 1]["events"][l - 1]
            ctx.drift("reader/validator model differs from the observation on value %s (trace %d event %d)" % (show(txt(e["v"])), off + tid, l))
        n_diff += len(model_diff)
        for i in rejected[:3]:
            t = part[i - 1]
            at, why = info.get(i, (0, []))
            e = t["events"][at] if at < len(t["events"]) else None
            ctx.violation({"kind": "trace", "cls": t["cls"], "script": t["script"], "first_unexplained_event": at + 1},
                          "recorded %s history not explained by Deb822Value at event %d: %s; failed obligations %s"
                          % (t["cls"], at + 1, _evshow(t, at) if e else "?", why))
        n_rej += len(rejected)
    nvals = sum(len(t["events"]) for t in traces)
    nacc = sum(1 for t in traces for e in t["events"] if e["acc"])
    ctx.traces += n_checked + len(traces)
    ctx.evaluations += nvals
    for i, t in enumerate(traces):
        ctx.distinct.add(("trace", i))
    t0 = traces[0]
    ctx.sample("recorded %s trace, first events: %s" % (t0["cls"], "; ".join(_evshow(t0, i) for i in range(min(3, len(t0["events"]))))))
    ctx.extra["traces_recorded"] = len(traces)
    ctx.extra["trace_values"] = {"assigned": nvals, "accepted": nacc, "max_len": max(len(e["v"]) for t in traces for e in t["events"]),
                                 "reader_model_evaluated_on": sum(len(t["events"]) for t in traces if t["deep"])}
    ctx.extra["traces_rejected"] = n_rej
    ctx.extra["model_vs_observation_differences"] = n_diff
    ctx.tlc_runs.sort(key=lambda x: (x["module"], x["violated"] is not None, -x["generated"]))   # completion order varies
    phase["total_s"] = round(time.time() - ctx.t0, 1)
    ctx.extra["phase_wall"] = phase              # informational only, never part of a verdict


def _evshow(t, i):
    e = t["events"][i]
    keys = [txt(f["k"]) for f in t["init"]]
    s = "%s := %s -> %s" % (keys[e["pos"] - 1], show(txt(e["v"])), e["res"])
    if e["acc"]:
        s += " read back " + ",".join("%s=%s" % (n, _rbshow({"st": rb_get(e["rb"], n)["st"], "paras": [[txt(k) for k in p] for p in rb_get(e["rb"], n)["paras"]]})) for n in ("sF", "bT"))
    return s


def replay(ctx, case):
    if case["kind"] == "case":
        conc = Conc.from_json(case["conc"])
        msg, _ = check_case(case["case"], case["cls"], case["pos"], conc, case.get("route", "setitem"))
        return msg
    if case["kind"] == "trace":
        new = record_trace(None, case["cls"], 0, script=case["script"])
        rejected, info, _ = validate(ctx, [new], with_controls=False)
        if rejected:
            at, why = info.get(1, (0, []))
            return "history still not explained by the specification at event %d: %s; failed obligations %s" % (at + 1, _evshow(new, at) if at < len(new["events"]) else "?", why)
        return None
    return "unknown case kind"
