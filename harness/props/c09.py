"""C09 -- Deb822 mappings stay ordered, case-insensitive, case-preserving in any history.

spec:      spec/OrderedMap.tla (reference), spec/LinkedSet.tla (implementation layer)
binding:   (a) replay of the complete LTS emitted by TLC into debian.deb822.Deb822
           (b) validation of recorded histories by spec/TraceOrderedMap.tla
negative controls: corrupted traces (two keys exchanged after a re-ordering, KeyError turned into ok,
           a changed spelling, an EMPTIED mapping after a sort whose key function failed, two tied
           neighbours exchanged after a keyed sort, a swallowed exception of a faulting iterable)

API surface / domain
  operation of the statement           model action (OrderedMap.tla)        exercised by (every public way drawn per call)
  assignment                           Set(n, s, v)                         d[k]=v, update({k: v}), update([(k, v)])
  lookup / membership                  Get / Has                            d[k], get(k), get_as_string(k); k in d, k in d.keys()
  deletion                             Del                                  del d[k], pop(k)
  order_first/last/before/after        MoveFirst/MoveLast/MoveBefore/After  the four methods, any case variant of both keys
  sort_fields() / key=None / str.lower Sort (MSort)                         lts + trace leg
  sort_fields(key=f), arbitrary f      SortBy(kf, NoFault, ..) = MSortBy:   lts: all 8 two-valued key tables from every state;
    ("same semantics as for sorted":     the STABLE sort of the current       traces: tables with ties, reversed, permutations,
    in the domain - "sorting")           order by kf[name]; SortLaw           "known fields first", up to 300 names; key values as
                                                                              int / tuple / str / float / negative int
  sort_fields(key=f), f FAULTING for   SortBy(kf, fn, fm), fm in            lts: every state x name x mode as ordinary steps of
    one field (SIZE_STRESS part 5):      raise / incomp / cmpraise:           edges and walks (fault at the first, a middle, the
    f raises the caller's exception,     fn present and >= 2 keys: the call   last field, an absent field); traces: arbitrary
    returns an incomparable key,         fails with the caller's exception    (kf, fn, fm); exception classes CallerFault, OSError,
    returns a key whose comparison       (identity checked) resp. TypeError   ValueError, KeyError, LookupError, RuntimeError,
    raises.  In the domain: sorting      and the mapping is UNCHANGED         ZeroDivisionError, UnicodeError; then the history
    is an operation of the statement,    (ErrAtomic); fn absent: the plain    carries on (same object, retained copies, fresh parse)
    "sorted" semantics has no result     sort.  UNSPECIFIED: fn is the only
    when the key function fails          key (f need not be called): either
                                         outcome, mapping unchanged
  dump(fd) into a failing fd,          IOFault(kind): mapping unchanged,    _FlakyWriter raising at the first / middle / last
    parse of a failing line iterator     caller's exception out (dump of an   write (binary and text mode); generator of str / bytes
                                         EMPTY mapping: unspecified)          lines or iterator object raising at step 0 / mid / end,
                                                                              followed by a fresh parse of the same text
  update(iterable that raises)         trace module only (updfault):        generator yielding 0-3 pairs, then raising
                                         UNSPECIFIED which prefix of the
                                         pairs was assigned; the caller's
                                         exception must come out
  copying                              Copy                                 copy(), deepcopy, pickle round trip, cls(d)
  dump/parse cycle                     DumpParse                            dump() as str / bytes / lines / StringIO / BytesIO,
                                                                              dump(fd) binary and text, str(d)
  start objects: empty, dict-initialised, parsed from text, parsed from a list of lines; classes Deb822, Packages,
    Sources, Dsc.
  key alphabet (field-name SHAPES; the   Names are abstract in the model (a   Conc / record_trace draw the names of every history from
    statement quantifies over "a key       rank); the homomorphism name ->      WORDS plus freshly drawn short names: length 1 (a letter
    alphabet", i.e. any legal field        string is the binding's, so the      whose two cases are the case variants, a digit, a
    name: US-ASCII 33..126 without ':',    shape is a dimension of the          punctuation character), length 2 and 3 over the whole
    not starting with '#' or '-',          concretization, stated in the        legal range, boundary lengths 16..300 (stretch); every
    length >= 1)                           header of OrderedMap.tla             other LTS edge of the quick tier, all walks, all traces;
                                                                              counted per shape x parsed/in-memory in the evidence
                                                                              (a shape never taken through a parse = MachineryError)
  out of domain / unspecified: order_before/after(k, k) with k absent (KeyError or ValueError); copy.copy()
    (DESIGN.md 10.4); key functions that depend on the SPELLING they are handed (the harness folds the name before
    its table lookup); key functions with side effects on the paragraph; a key function faulting for the only field;
    field names starting with '#' (the line is a comment) or '-' (Policy 5.1 forbids both), non-ASCII field names.
"""
import json
import random

import core

MANIFEST = dict(
    technique="TLA+ spec (OrderedMap reference + LinkedSet implementation layer) model-checked by TLC; complete LTS replayed into Deb822; recorded histories validated by TLC (TraceOrderedMap)",
    text="TLC explores the closed state space of the implementation-level model (hash table + doubly linked list + value dict) and checks that it refines the reference ordered mapping in every reachable state, i.e. for histories of any length over 3 names x 2 spellings x 2 values. Sorting by a caller-supplied key function is the stable sort of the current order; a key function, file object or line iterator of the caller that fails (raises, returns incomparable keys) is an ordinary step of the histories that must let the caller's exception out and change nothing. The binding is two-way: every transition of the reference LTS plus long random walks are replayed into the real Deb822 class from four kinds of start object with all observables compared after each call, and histories recorded from the real class over 8 names x 4 spellings are validated by TLC against the same actions.",
    note="Small-scope: model constants 3 names/2 spellings/2 values; concretization of names and values is sampled. Trusted: TLC, the projections list(d)/d[k]/dump(), the concretizer. Corrupted control traces must be rejected in every run.",
    design="5 (C09)")

from lts import LTS, skey, strip

# ------------------------------------------------------------------ concretization
WORDS = ["Package", "Source", "Version", "Depends", "X-Foo-Bar", "Maintainer", "Uploaders",
         "Build-Depends", "Homepage", "Vcs-Git", "Section", "Priority", "Architecture", "Zz9"]
VALUE_POOL = ["1", "2", "foo (>= 1.0), bar", "x\n continued\n .\n more", "", "a: b", "#no comment", "éà 中",
              # character stress (notes/SIZE_STRESS.md part 2): not NFC-stable text and its precomposed twin,
              # singletons, BOM / zero-width / NBSP inside a value, non-BMP
              "cafe\u0301 \u212b\u2126 \ufb01", "caf\u00e9 \u00c5\u03a9 fi", "x\ufeffy\u200dz", "a\u00a0b\u3000c", "\U0001f600 \U0010ffff",
              "t\n \u0301lone-mark\n \ufeffbom-line"]


# field-name SHAPES.  The model's names are abstract (an integer rank); the statement quantifies over "a key alphabet", i.e.
# over every legal field name: US-ASCII 33..126 except ':' and not starting with '#' (a comment line) or '-' (Policy 5.1).
# WORDS only holds ordinary names of 3+ letters, so the concretization also draws names of length 1 (a letter - its two
# cases are the case variants -, a digit, a punctuation character), 2 and 3 over the whole legal character range.
NAME_FIRST = [chr(c) for c in range(33, 127) if chr(c) not in ":#-"]
NAME_REST = [chr(c) for c in range(33, 127) if chr(c) != ":"]
LETTERS = "ABCDEFGHIJKLMNOPQRSTUVWXYZabcdefghijklmnopqrstuvwxyz"


def short_names(rng, k, taken=()):
    """k short field names with pairwise different case-folded forms (and different from those in taken)"""
    out, seen = [], set(x.lower() for x in taken)
    while len(out) < k:
        first = rng.choice(LETTERS) if rng.random() < 0.6 else rng.choice(NAME_FIRST)
        u = rng.random()
        name = first + "".join(rng.choice(NAME_REST) for _ in range(0 if u < 0.6 else (1 if u < 0.85 else 2)))
        if name.lower() not in seen:
            seen.add(name.lower())
            out.append(name)
    return out


def name_pool(rng):
    return WORDS + short_names(rng, 6, WORDS)


def in_lower_order(names):
    low = [x.lower() for x in names]
    return all(a < b for a, b in zip(low, low[1:]))


def shape_of(names):
    n = min(len(x) for x in names) if names else 0
    return "len1" if n == 1 else "len2" if n == 2 else "len3+"


BOUNDARY = [1, 2, 8, 15, 16, 17, 31, 32, 33, 63, 64, 65, 72, 73, 80, 127, 128, 129, 255, 256, 257, 1023, 1024, 1025, 4095, 4096, 4097]


def stretch(rng, base):
    """size stress: a field name of a boundary length that keeps the base word as prefix (so the
    lower-case sort order between different base words is unchanged)"""
    n = rng.choice([x for x in BOUNDARY if 16 <= x <= 300])
    if n <= len(base) + 1:
        return base
    return base + "-" + "x" * (n - len(base) - 1)


def big_value(rng):
    k = rng.choice(BOUNDARY)
    if rng.random() < 0.5:
        return "v" * k
    lines = rng.choice([2, 10, 11, 100, 101])
    return "first\n" + "\n".join(" line %d %s" % (i, "y" * (k % 90)) for i in range(lines))


def tail_char(rng):
    """character stress: a character whose UTF-8 encoding ends in a chosen trailing byte 0x80..0xBF"""
    return chr(0x400 + rng.randrange(64))


def spellings(base):
    cap = base
    low = base.lower()
    up = base.upper()
    mixed = "".join(c.upper() if i % 2 else c.lower() for i, c in enumerate(base))
    return {"U": cap, "L": low, "X": up, "M": mixed}


class Conc:
    """maps model names (ranks) to real field names whose lower-case sort order equals the rank
    order, model spellings to case variants and model values to real values"""

    def __init__(self, rng, names, values, canonical=False):
        if canonical:
            chosen = sorted(WORDS, key=str.lower)[:len(names)]
        else:
            chosen = sorted(rng.sample(name_pool(rng), len(names)), key=str.lower)
        if not canonical and rng.random() < 0.15:
            st = [stretch(rng, b) for b in chosen]
            if in_lower_order(st):       # (a suffix can exchange 'a' and 'a!': keep the plain names then)
                chosen = st
        assert in_lower_order(chosen)
        self.base = {n: b for n, b in zip(sorted(names), chosen)}
        vs = sorted(values)
        if canonical:
            cv = VALUE_POOL[:len(vs)]
        else:
            cv = rng.sample(VALUE_POOL, len(vs))
            if rng.random() < 0.1:
                cv[0] = big_value(rng)
            if rng.random() < 0.3:
                cv[-1] = "w" + tail_char(rng) + "\n l2 " + tail_char(rng) + "\n " + tail_char(rng)
        self.val = dict(zip(vs, cv))
        self.rval = {v: k for k, v in self.val.items()}

    def key(self, n, s):
        return spellings(self.base[n])[s]

    def any_key(self, rng, n):
        return rng.choice(list(spellings(self.base[n]).values()))

    def to_json(self):
        return {"base": {str(k): v for k, v in self.base.items()}, "val": self.val}

    @classmethod
    def from_json(cls, j):
        c = cls.__new__(cls)
        c.base = {int(k): v for k, v in j["base"].items()}
        c.val = dict(j["val"])
        c.rval = {v: k for k, v in c.val.items()}
        return c


# ------------------------------------------------------------------ driving the real object

def build(kind, model_state, conc, clsname="Deb822"):
    """construct a paragraph object in the given model state by one of the start kinds"""
    Deb822 = cls_of(clsname)
    pairs = [(conc.key(e["n"], e["s"]), conc.val[e["v"]]) for e in model_state]
    if kind == "dict":
        return Deb822(dict(pairs))
    if kind == "parsed":
        text = "".join("%s:%s%s\n" % (k, " " if v and not v.startswith("\n") else "", v) for k, v in pairs)
        return Deb822(text)
    if kind == "parsed-lines":
        text = "".join("%s: %s\n" % (k, v) for k, v in pairs)
        return Deb822(text.splitlines(True)) if pairs else Deb822([])
    d = Deb822()
    for k, v in pairs:
        d[k] = v
    return d


CLASSES = ["Deb822", "Deb822", "Packages", "Sources", "Dsc"]     # same mapping behaviour (no structured field names in WORDS)


def cls_of(name):
    import debian.deb822 as m
    return getattr(m, name)


# ------------------------------------------------------------------ caller-supplied objects that fault
# (notes/SIZE_STRESS.md part 5): key functions, file objects and iterators built by the harness;
# what they do is fixed by the MODEL's arguments (kf, fn, fm / kind), only their Python shape is drawn

class CallerFault(Exception):
    """a private exception class of the caller"""


FAULT_EXC = [CallerFault, OSError, ValueError, KeyError, LookupError, RuntimeError, ZeroDivisionError, UnicodeError]
KEY_REPS = ["int", "tuple", "str", "float", "negint"]


class _CmpKey(object):
    """a sort key whose comparison raises the caller's exception when the faulty key takes part"""
    __slots__ = ("v", "exc")

    def __init__(self, v, exc=None):
        self.v, self.exc = v, exc

    def _cmp(self, other, f):
        for x in (self, other):
            if isinstance(x, _CmpKey) and x.exc is not None:
                raise x.exc
        return f(self.v, other.v)

    def __lt__(self, other):
        return self._cmp(other, lambda a, b: a < b)

    def __gt__(self, other):
        return self._cmp(other, lambda a, b: a > b)

    def __le__(self, other):
        return self._cmp(other, lambda a, b: a <= b)

    def __ge__(self, other):
        return self._cmp(other, lambda a, b: a >= b)


def make_key_function(pick, kf, fault, fm):
    """kf: lower-cased field name -> key rank; fault: lower-cased name the function faults for (or
    None); returns (f, inst) where inst is the exception instance the caller raises (or None)"""
    rep = KEY_REPS[pick(len(KEY_REPS))]
    conv = {"int": lambda v: v, "tuple": lambda v: (v,), "str": lambda v: "k%06d" % v,
            "float": lambda v: v + 0.5, "negint": lambda v: v - 1000}[rep]
    inst = None
    if fault is not None and fm in ("raise", "cmpraise"):
        cls = FAULT_EXC[pick(len(FAULT_EXC))]
        inst = cls("key function of the caller fails for %s" % fault)
    bad = None
    if fm == "incomp":
        pool = {"int": [None, "x", object(), (0,)], "negint": [None, "x", object(), [0]], "float": [None, "1.5", object()],
                "str": [None, 0, object(), ("k",)], "tuple": [(None,), None, 0, [0], ("x",)]}[rep]
        bad = pool[pick(len(pool))]

    def f(k):
        low = k.lower()
        if low == fault:
            if fm == "raise":
                raise inst
            if fm == "incomp":
                return bad
            return _CmpKey(conv(kf[low]), inst)
        return _CmpKey(conv(kf[low])) if (fm == "cmpraise" and fault is not None) else conv(kf[low])
    return f, inst


class _FlakyWriter(object):
    """a file object of the caller whose k-th write() raises (k = 0: never)"""

    def __init__(self, k, inst):
        self.k, self.inst, self.n = k, inst, 0

    def write(self, data):
        self.n += 1
        if self.n == self.k:
            raise self.inst
        return len(data)

    def flush(self):
        pass


class _FlakyLines(object):
    """an iterator of the caller that yields k lines and raises at the next step"""

    def __init__(self, lines, k, inst):
        self.lines, self.k, self.inst, self.i = lines, k, inst, 0

    def __iter__(self):
        return self

    def __next__(self):
        if self.i >= self.k:
            raise self.inst
        self.i += 1
        return self.lines[self.i - 1]


def _flaky_gen(lines, k, inst):
    for x in lines[:k]:
        yield x
    raise inst


def faulted_call(call, inst):
    """outcome of a call that was handed a faulting object: only the caller's own exception
    instance counts as CallerError"""
    try:
        call()
    except Exception as ex:
        if inst is not None and ex is inst:
            return "CallerError"
        if type(ex) in (TypeError, KeyError, ValueError):
            return type(ex).__name__
        return "EXC:" + type(ex).__name__
    return "ok"


def io_fault(d, kind, pick):
    cls = type(d)
    inst = FAULT_EXC[pick(len(FAULT_EXC))]("file object of the caller fails")
    if kind == "dump":
        text_mode = bool(pick(2))
        probe = _FlakyWriter(0, None)
        d.dump(probe, text_mode=text_mode)
        n = probe.n
        k = [1, (n + 1) // 2, n][pick(3)] if n else 1
        w = _FlakyWriter(k, inst)
        return faulted_call(lambda: d.dump(w, text_mode=text_mode), inst)
    text = d.dump()
    lines = [x + "\n" for x in text.split("\n")[:-1]]
    k = [0, len(lines) // 2, len(lines)][pick(3)]
    form = pick(3)
    if form == 1:
        lines = [x.encode("utf-8") for x in lines]
    src = _FlakyLines(lines, k, inst) if form == 2 else _flaky_gen(lines, k, inst)
    res = faulted_call(lambda: cls(src), inst)
    # a fresh parse of the same input in the same process is not affected by the failed one
    if observe_raw(cls(text)) != observe_raw(d):
        return "fresh-parse-differs-after-failed-parse"
    return res


def sort_desc(lower_of, kf, fn, fm):
    """model arguments of SortBy -> descriptor for apply_op; lower_of: name rank -> lower-cased field name"""
    return {"kf": {lower_of[n]: kf[n - 1] for n in lower_of}, "fault": lower_of[fn] if fn else None, "fm": fm}


def apply_op(d, op, keys, val, rng=None):
    """returns (new object, result string).  API-surface audit (notes/API_SURFACE.md): every
    public way of performing the operation is drawn at random - the model sees one action"""
    import copy
    import io
    import pickle
    pick = (lambda n: rng.randrange(n)) if rng is not None else (lambda n: 0)
    cls = type(d)
    if op == "sortby":
        f, inst = make_key_function(pick, val["kf"], val["fault"], val["fm"])
        return d, faulted_call(lambda: d.sort_fields(key=f), inst)
    if op == "iofault":
        return d, io_fault(d, val, pick)
    if op == "updfault":
        inst = FAULT_EXC[pick(len(FAULT_EXC))]("iterable of the caller fails")
        return d, faulted_call(lambda: d.update(_flaky_gen(list(val), len(val), inst)), inst)
    try:
        if op == "set":
            v = pick(3)
            if v == 0:
                d[keys[0]] = val
            elif v == 1:
                d.update({keys[0]: val})
            else:
                d.update([(keys[0], val)])
            return d, "ok"
        if op == "get":
            v = pick(3)
            if v == 0:
                return d, ("VAL", d[keys[0]])
            if v == 1:
                r = d.get(keys[0], None)
                if r is None:
                    return d, "KeyError"
                return d, ("VAL", r)
            return d, ("VAL", d.get_as_string(keys[0]))
        if op == "has":
            v = pick(2)
            return d, "true" if ((keys[0] in d) if v == 0 else (keys[0] in d.keys())) else "false"
        if op == "del":
            if pick(2) == 0:
                del d[keys[0]]
            else:
                d.pop(keys[0])
        elif op == "first":
            d.order_first(keys[0])
        elif op == "last":
            d.order_last(keys[0])
        elif op == "before":
            d.order_before(keys[0], keys[1])
        elif op == "after":
            d.order_after(keys[0], keys[1])
        elif op == "sort":
            v = pick(3)
            if v == 0:
                d.sort_fields()
            elif v == 1:
                d.sort_fields(key=None)
            else:
                d.sort_fields(key=lambda x: x.lower())
        elif op == "copy":
            before = observe_raw(d)
            # copy.copy(d) is NOT used: Deb822Dict defines no __copy__, so the generic shallow copy
            # shares the private key set and value dict with its source (observation recorded in
            # DESIGN.md 10.4; the statement's "copying" is the documented copy() method)
            v = pick(5)
            if v in (0, 1):
                c = d.copy()
            elif v == 2:
                c = copy.deepcopy(d)
            elif v == 3:
                c = pickle.loads(pickle.dumps(d))
            else:
                c = cls(d)
            if observe_raw(d) != before:
                return c, "copy-changed-original"
            return c, "ok"
        elif op == "dumpparse":
            v = pick(7)
            if v == 0:
                return cls(d.dump()), "ok"
            if v == 1:
                return cls(d.dump().encode("utf-8")), "ok"
            if v == 2:
                return cls(d.dump().splitlines(True)), "ok"
            if v == 3:
                return cls(io.StringIO(d.dump())), "ok"
            if v == 4:
                buf = io.BytesIO()
                d.dump(buf)
                return cls(io.BytesIO(buf.getvalue())), "ok"
            if v == 5:
                buf = io.StringIO()
                d.dump(buf, text_mode=True)
                return cls(buf.getvalue()), "ok"
            return cls(str(d)), "ok"
        else:
            raise AssertionError(op)
        return d, "ok"
    except KeyError:
        return d, "KeyError"
    except ValueError:
        return d, "ValueError"
    except Exception as e:      # any other exception type is an observation, not a harness failure
        return d, "EXC:" + type(e).__name__


def observe_raw(d):
    return [(k, d[k]) for k in d]


def expected_obs(model_state, conc):
    return [(conc.key(e["n"], e["s"]), conc.val[e["v"]]) for e in model_state]


def check_views(d, model_state, conc, universe):
    """the other verdict observables: len, membership and lookup under every case variant,
    items()/keys()/values(), dump()"""
    from debian.deb822 import Deb822
    exp = expected_obs(model_state, conc)
    if len(d) != len(exp):
        return "len() = %d, model has %d keys" % (len(d), len(exp))
    if list(d.keys()) != [k for k, _ in exp] or list(d.values()) != [v for _, v in exp] or list(d.items()) != exp:
        return "keys()/values()/items() disagree with the model %r" % (exp,)
    present = {e["n"]: conc.val[e["v"]] for e in model_state}
    for n in universe:
        for s, k in spellings(conc.base[n]).items():
            if (k in d) != (n in present):
                return "%r in d is %r, model says %r" % (k, k in d, n in present)
            if n in present:
                if d[k] != present[n] or d.get(k) != present[n]:
                    return "d[%r] = %r, model says %r" % (k, d[k], present[n])
            else:
                if d.get(k, "<dflt>") != "<dflt>":
                    return "d.get(%r) found a value for an absent key" % k
    text = d.dump()
    exp_text = "".join("%s:%s%s\n" % (k, "" if (not v or v[0] == "\n") else " ", v) for k, v in exp)
    if text != exp_text:
        return "dump() = %r, model gives %r" % (text, exp_text)
    if observe_raw(Deb822(text)) != exp:
        return "re-parsing dump() gives %r, model %r" % (observe_raw(Deb822(text)), exp)
    return None


def run_path(start_kind, start_state, path, conc, rng, universe, deep=True):
    """replay one model behaviour; returns None or a message (verdict observables only)"""
    try:
        return _run_path(start_kind, start_state, path, conc, rng, universe, deep)
    except Exception as ex:
        if not core.raised_by_code_under_test(ex):
            raise
        import traceback
        return "unexpected %s from the library while observing the mapping: %s" % (
            type(ex).__name__, traceback.format_exc().strip().splitlines()[-3:])


def _run_path(start_kind, start_state, path, conc, rng, universe, deep=True):
    d = build(start_kind, start_state, conc, rng.choice(CLASSES))
    exp0 = expected_obs(start_state, conc)
    if observe_raw(d) != exp0:
        return "step 0 (%s start): object shows %r, model %r" % (start_kind, observe_raw(d), exp0)
    retained = []     # sources of copy()/dump+parse: independent objects, must never change afterwards
    for i, e in enumerate(path):
        if e["op"] in ("copy", "dumpparse"):
            retained.append((i + 1, d, observe_raw(d)))
        a = e["args"]
        op = e["op"]
        if op == "set":
            keys, val = [conc.key(a[0], a[1])], conc.val[a[2]]
        elif op in ("before", "after"):
            keys, val = [conc.any_key(rng, a[0]), conc.any_key(rng, a[1])], None
        elif op in ("sort", "copy", "dumpparse"):
            keys, val = [], None
        elif op == "sortby":
            keys, val = [], sort_desc({n: conc.base[n].lower() for n in conc.base}, a[0], a[1], a[2])
        elif op == "iofault":
            keys, val = [], a[0]
        else:
            keys, val = [conc.any_key(rng, a[0])], None
        prev = d
        d, res = apply_op(d, op, keys, val, rng)
        if op in ("copy", "dumpparse") and d is not prev and rng.random() < 0.5:
            # both objects are in the same model state now: carry on with the SOURCE and retain
            # the copy instead (a copy must not read through to / share structure with its source)
            retained[-1] = (i + 1, d, observe_raw(prev))
            d = prev
        mres = e["res"]
        unspec = op in ("before", "after") and a[0] == a[1] and not any(x["n"] == a[0] for x in e["from"])
        where = "step %d %s%r" % (i + 1, op, tuple(keys) + ((val,) if val is not None else ()))
        if op == "sortby":
            where = "step %d sort_fields(key=f) [f: %r, faulting for %r in mode %r]" % (i + 1, val["kf"], val["fault"], val["fm"])
        elif op == "iofault":
            where = "step %d %s with a faulting %s" % (i + 1, "dump(fd)" if val == "dump" else "parse", "fd" if val == "dump" else "line iterator")
        if isinstance(res, tuple):
            if mres == "KeyError" or res[1] != conc.val[mres]:
                return "%s returned %r, model says %r" % (where, res[1], mres if mres == "KeyError" else conc.val[mres])
        elif unspec:
            if res not in ("KeyError", "ValueError"):
                return "%s: expected an error, got %r" % (where, res)
        elif res != mres and res not in e.get("alt", ()):
            return "%s: outcome %r, model says %r" % (where, res, mres)
        obs = observe_raw(d)
        exp = expected_obs(e["to"], conc)
        if obs != exp:
            return "%s: mapping is %r, model says %r" % (where, obs, exp)
        for (j, src, snap) in retained:
            try:
                now = observe_raw(src)
            except Exception as ex:
                return "%s: the other object of the copy made at step %d can no longer be read (%s)" % (where, j, type(ex).__name__)
            if src is not d and now != snap:
                return "%s: the other object of the copy made at step %d changed from %r to %r" % (where, j, snap, observe_raw(src))
        if deep or i == len(path) - 1:
            m = check_views(d, e["to"], conc, universe)
            if m:
                return "%s: %s" % (where, m)
    return None


def walk_weight(x):
    """random walks: state-changing steps three times as likely; the 8 key-function variants of a
    fault-free sort_fields(key=f) and the 9 faulted ones share the weight of a few ordinary calls"""
    w = 3.0 if x["from"] != x["to"] else 1.0
    if x["op"] == "sortby":
        return w * (0.5 if x["args"][1] == 0 else 0.7)
    return w


def private_drift(ctx):
    """diagnostic only: the private linked list agrees with itself"""
    from debian.deb822 import Deb822
    try:
        d = Deb822({"A": "1", "b": "2", "C": "3"})
        d.order_first("c")
        ks = d._Deb822Dict__keys
        order = ks._OrderedSet__order
        fwd = list(order)
        bwd = list(reversed(order))
        if fwd != bwd[::-1] or len(order) != len(fwd) or set(map(str.lower, ks._OrderedSet__table)) != set(map(str.lower, fwd)):
            ctx.drift("private linked list inconsistent: fwd=%r bwd=%r" % (fwd, bwd))
    except AttributeError as e:
        ctx.drift("private layout changed: %s" % e)
    except Exception as e:       # a diagnostic never decides anything: the replay below judges the public behaviour
        ctx.drift("private linked list probe failed: %s: %s" % (type(e).__name__, e))


# ------------------------------------------------------------------ trace recording

def record_trace(rng, nnames, nops):
    """random history on the real class with a larger alphabet than the model; names are logged
    as ranks in lower-case sort order, spellings/values verbatim"""
    if nnames <= len(WORDS):
        base = sorted(rng.sample(name_pool(rng), nnames), key=str.lower)
    else:       # size stress: many keys
        base = sorted(["%s-%03d" % (WORDS[i % len(WORDS)], i) for i in range(nnames - 4)] + short_names(rng, 4), key=str.lower)
    if rng.random() < 0.15:
        st = [stretch(rng, b) for b in base]
        if in_lower_order(st):
            base = st
    assert in_lower_order(base)
    values = VALUE_POOL + ([big_value(rng)] if rng.random() < 0.2 else []) + ["w" + tail_char(rng), "m\n x" + tail_char(rng)]
    rank = {b.lower(): i + 1 for i, b in enumerate(base)}

    def proj(d):
        out = []
        for k in d:
            out.append({"n": rank[k.lower()], "s": k, "v": d[k]})
        return out

    start_kind = rng.choice(["empty", "dict", "parsed"])
    init_n = rng.sample(range(nnames), rng.randint(0, min(4, nnames))) if start_kind != "empty" else []
    if nnames > 20:          # size stress: start with most of the keys present
        start_kind = rng.choice(["dict", "parsed"])
        init_n = rng.sample(range(nnames), (nnames * 9) // 10)
    pairs = []
    for i in init_n:
        pairs.append((rng.choice(list(spellings(base[i]).values())), rng.choice(VALUE_POOL[:4] + VALUE_POOL[5:])))
    from debian.deb822 import Deb822
    if start_kind == "dict":
        d = Deb822(dict(pairs))
    elif start_kind == "parsed":
        d = Deb822("".join("%s: %s\n" % kv for kv in pairs))
    else:
        d = Deb822()
    init = [{"n": rank[k.lower()], "s": k, "v": v} for k, v in pairs]
    events = []
    ops = ["set"] * 5 + ["get", "has", "del", "del", "first", "last", "before", "after", "before", "after", "sort", "copy", "dumpparse",
                         "sortby", "sortby", "sortby", "iofault", "updfault"]
    lower_of = {i + 1: b.lower() for i, b in enumerate(base)}
    for _ in range(nops):
        op = rng.choice(ops)
        i = rng.randrange(nnames)
        j = rng.randrange(nnames)
        if op in ("before", "after") and rng.random() < 0.1:
            j = i
        k1 = rng.choice(list(spellings(base[i]).values()))
        k2 = rng.choice(list(spellings(base[j]).values()))
        v = rng.choice(values)
        ev = {"op": op, "n": i + 1, "r": j + 1, "s": k1, "v": v}
        arg = v
        if op == "sortby":
            # the caller's key function: few key values (ties: stability), the reverse order, a
            # permutation, or the "known fields first" table; it faults for the first / a middle /
            # the last field of the paragraph, for any name (possibly absent), or not at all
            style = rng.randrange(4)
            if style == 0:
                kf = [rng.randrange(3) for _ in range(nnames)]
            elif style == 1:
                kf = [nnames - x for x in range(nnames)]
            elif style == 2:
                kf = rng.sample(range(nnames), nnames)
            else:
                known = rng.sample(range(nnames), min(nnames, 3))
                kf = [known.index(x) if x in known else 1000 for x in range(nnames)]
            cur = [rank[k.lower()] for k in d]
            u = rng.random()
            if u < 0.4:
                fn = 0
            elif u < 0.85 and cur:
                fn = cur[rng.choice([0, len(cur) // 2, -1, rng.randrange(len(cur))])]
            else:
                fn = i + 1
            fm = rng.choice(["raise", "incomp", "cmpraise"]) if fn else "none"
            ev.update(kf=kf, fn=fn, fm=fm)
            arg = sort_desc(lower_of, kf, fn, fm)
        elif op == "iofault":
            ev["kind"] = rng.choice(["dump", "parse"])
            arg = ev["kind"]
        elif op == "updfault":
            ps = []
            for _k in range(rng.choice([0, 1, 1, 2, 3])):
                x = rng.randrange(nnames)
                ps.append({"n": x + 1, "s": rng.choice(list(spellings(base[x]).values())), "v": rng.choice(values)})
            ev["ps"] = ps
            arg = [(q["s"], q["v"]) for q in ps]
        d, res = apply_op(d, op, [k1, k2], arg, rng)
        if isinstance(res, tuple):
            res = res[1]
        ev.update(res=res, obs=proj(d))
        events.append(ev)
    return {"init": init, "events": events, "start": start_kind, "base": base}


def corrupt(t, how):
    """negative controls: a history the specification must NOT accept"""
    import copy
    t = copy.deepcopy(t)
    for e in t["events"]:
        if how == "order" and len(e["obs"]) >= 2 and e["op"] in ("first", "last", "before", "after", "sort") and e["res"] == "ok":
            e["obs"][0], e["obs"][1] = e["obs"][1], e["obs"][0]
            return t
        if how == "res" and e["res"] == "KeyError":
            e["res"] = "ok"
            return t
        if how == "spelling" and e["op"] == "set" and e["obs"]:
            e["obs"][-1]["s"] = e["obs"][-1]["s"] + "x"
            return t
        if how == "faultsort" and e["op"] == "sortby" and e["res"] in ("CallerError", "TypeError") and len(e["obs"]) >= 2:
            e["obs"] = []          # a failed sort that emptied the order list
            return t
        if how == "keysort" and e["op"] == "sortby" and e["res"] == "ok" and len(e["obs"]) >= 2 and e["obs"][0]["n"] != e["obs"][1]["n"] \
                and e["kf"][e["obs"][0]["n"] - 1] == e["kf"][e["obs"][1]["n"] - 1]:
            e["obs"][0], e["obs"][1] = e["obs"][1], e["obs"][0]      # an unstable sort
            return t
        if how == "updres" and e["op"] == "updfault":
            e["res"] = "ok"        # the caller's exception was swallowed
            return t
    return None


def validate(ctx, traces, with_controls=True):
    controls = []
    if with_controls:
        for how in ("order", "res", "spelling", "faultsort", "keysort", "updres"):
            for t in traces:
                c = corrupt(t, how)
                if c:
                    controls.append(c)
                    break
    acc, _, r = core.validate_traces(ctx, "TraceOrderedMap", "TraceOrderedMap.cfg", traces,
                                     extra_env={"TRACE_DIAG": "0"}, controls=controls)
    rejected = [i for i in range(1, len(traces) + 1) if i not in acc]
    info = {}
    if rejected:
        sub = [traces[i - 1] for i in rejected[:20]]
        _, prog, _ = core.validate_traces(ctx, "TraceOrderedMap", "TraceOrderedMap.cfg", sub,
                                          extra_env={"TRACE_DIAG": "1"})
        for j, i in enumerate(rejected[:20]):
            info[i] = prog.get(j + 1, 0)
    return rejected, info


# ------------------------------------------------------------------ the check

def run(ctx):
    quick = ctx.tier == "quick"
    rng = ctx.rng
    ctx.assumptions += [
        "model constants: 3 names x 2 spellings x 2 values (closed state space: histories of any length over this alphabet)",
        "concretization of names/values is sampled (seeded); re-ordering an absent key relative to itself is unspecified",
        "trusted: TLC, the projection list(d)/d[k]/dump(), the concretizer",
    ]
    # 1. design level: implementation-layer model refines the reference (any history)
    r_impl = ctx.tlc_must_hold("LinkedSet", "MC_LinkedSet.cfg" if not quick else "MC_LinkedSet_quick.cfg", workers=4)
    # 2. reference LTS, complete
    r = ctx.tlc_must_hold("OrderedMap", "MC_OrderedMap_lts.cfg", workers=1, want_tags={"EDGE"})
    g = LTS(r.printed["EDGE"], [])
    ctx.extra["lts"] = {"states": len(g.states), "edges": len(g.edges),
                        "impl_layer_states": r_impl.distinct}
    ops = {}
    for e in g.edges:
        ops[e["op"]] = ops.get(e["op"], 0) + 1
    ctx.extra["edges_per_action"] = ops
    ctx.extra["lts_faulted_calls"] = {r: sum(1 for e in g.edges if e["op"] in ("sortby", "iofault") and e["res"] == r)
                                      for r in ("CallerError", "TypeError")}
    ctx.extra["lts_unspecified_edges"] = sum(1 for e in g.edges if len(e.get("alt", ())) > 1)
    names, values = [1, 2, 3], ["1", "2"]
    private_drift(ctx)

    # 3a. every transition of the LTS, from three kinds of start object
    paths = g.paths()
    nconc = 1 if quick else 4
    kinds = ["empty", "dict", "parsed", "parsed-lines"]
    n_replayed = 0
    shapes = {}          # name shape x (parsed start / dump-parse cycle in the history): how often exercised

    def note_shape(conc, kind, path):
        k = "%s/%s" % (shape_of(list(conc.base.values())),
                       "parsed" if (kind.startswith("parsed") or any(x["op"] in ("dumpparse", "iofault") for x in path)) else "memory")
        shapes[k] = shapes.get(k, 0) + 1

    for idx, e in enumerate(g.edges):
        for c in range(nconc):
            conc = Conc(rng, names, values, canonical=(c == 0 and not (quick and idx % 2)))
            kind = kinds[(idx + c) % len(kinds)]
            if kind == "empty":
                start, path = [], paths[e["_f"]] + [e]
            else:
                start, path = e["from"], [e]
            pseed = rng.getrandbits(32)
            note_shape(conc, kind, path)
            msg = run_path(kind, start, path, conc, random.Random(pseed), names)
            nontrivial = e["from"] != e["to"] or e["res"] not in ("ok", "true", "false")
            ctx.case_seen(("edge", e["_f"], e["op"], skey(e["args"])), nontrivial)
            n_replayed += 1
            if msg:
                ctx.violation({"kind": "path", "start_kind": kind, "start": start, "path": [strip(x) for x in path],
                               "conc": conc.to_json(), "seed": pseed}, msg)
                break
        if len(ctx.violations) >= 5:
            break
    ctx.sample("lts edge: " + json.dumps(strip(g.edges[len(g.edges) // 2]), separators=(",", ":")))

    # 3b. random walks (long histories) and all short paths from the empty mapping
    nwalks, wlen = (300, 30) if quick else (5000, 40)
    keys = list(g.states)
    for w in range(nwalks):
        if len(ctx.violations) >= 5:
            break
        start_key = rng.choice(keys)
        kind = rng.choice(kinds[1:]) if start_key != g.init else "empty"
        path = g.walk(rng, start_key, wlen, weight=walk_weight)
        conc = Conc(rng, names, values)
        pseed = rng.getrandbits(32)
        note_shape(conc, kind, path)
        msg = run_path(kind, g.states[start_key], path, conc, random.Random(pseed), names, deep=(w % 10 == 0))
        ctx.case_seen(("walk", w, start_key), True)
        n_replayed += 1
        if msg:
            ctx.violation({"kind": "path", "start_kind": kind, "start": g.states[start_key],
                           "path": [strip(x) for x in path], "conc": conc.to_json(), "seed": pseed, "deep": (w % 10 == 0)}, msg)
    if not quick:
        n = 0
        for path in g.all_paths(3):
            conc = Conc(rng, names, values, canonical=True)
            pseed = rng.getrandbits(32)
            msg = run_path("empty", [], path, conc, random.Random(pseed), names, deep=False)
            n += 1
            if msg:
                ctx.violation({"kind": "path", "start_kind": "empty", "start": [],
                               "path": [strip(x) for x in path], "conc": conc.to_json(), "seed": pseed, "deep": False}, msg)
                break
        ctx.evaluations += n
        n_replayed += n
        ctx.extra["all_paths_depth3"] = n
    ctx.extra["behaviours_replayed"] = n_replayed
    ctx.extra["replayed_by_name_shape"] = dict(sorted(shapes.items()))
    if not ctx.violations and not (shapes.get("len1/parsed") and shapes.get("len2/parsed") and shapes.get("len3+/parsed")):
        raise core.MachineryError("a field-name shape was never taken through a parse: %r" % (shapes,))

    # 4. code -> spec: recorded histories over 8 names x 4 spellings validated by TLC
    ntr, nops = (400, 25) if quick else (6000, 40)
    traces = []
    # the last two sizes are the size stress: many keys, long histories
    plan = [(8, nops)] * ntr + ([(40, 120), (120, 300)] if quick else [(40, 120)] * 6 + [(120, 300)] * 6 + [(300, 700)] * 2)
    for nn, no in plan:
        tseed = rng.getrandbits(32)
        try:
            traces.append(record_trace(random.Random(tseed), nn, no))
        except Exception as ex:
            if not core.raised_by_code_under_test(ex):
                raise
            import traceback
            if len(ctx.violations) < 5:
                ctx.violation({"kind": "record", "seed": tseed, "nnames": nn, "nops": no},
                              "unexpected %s from the library while recording a history: %s"
                              % (type(ex).__name__, traceback.format_exc().strip().splitlines()[-3:]))
    rejected, info = validate(ctx, traces)
    ctx.traces += n_replayed + len(traces)
    ctx.evaluations += len(traces)
    for i in range(len(traces)):
        ctx.distinct.add(("trace", i))
    ctx.sample("recorded trace (first 3 events): " + json.dumps(
        {"init": traces[0]["init"], "events": traces[0]["events"][:3]}, separators=(",", ":"), ensure_ascii=False))
    for i in rejected[:5]:
        t = traces[i - 1]
        at = info.get(i, 0)
        ev = t["events"][at] if at < len(t["events"]) else None
        ctx.violation({"kind": "trace", "trace": t, "first_unexplained_event": at + 1},
                      "recorded history not explained by OrderedMap: event %d %r (after %d accepted events)"
                      % (at + 1, ev, at))
    ctx.extra["traces_recorded"] = len(traces)
    tshape = {}
    for t in traces:
        k = "%s/%s" % (shape_of(t["base"]), "parsed" if (t["start"] == "parsed" or any(e["op"] in ("dumpparse", "iofault") for e in t["events"])) else "memory")
        tshape[k] = tshape.get(k, 0) + 1
    ctx.extra["traces_by_name_shape"] = dict(sorted(tshape.items()))
    fc = {}
    for t in traces:
        for e in t["events"]:
            if e["op"] in ("sortby", "iofault", "updfault"):
                k = "%s/%s:%s" % (e["op"], e.get("fm") or e.get("kind") or len(e.get("ps", ())), e["res"])
                fc[k] = fc.get(k, 0) + 1
    ctx.extra["trace_events_caller_objects"] = dict(sorted(fc.items()))
    ctx.extra["traces_rejected"] = len(rejected)


def replay(ctx, case):
    import random
    if case["kind"] == "path":
        conc = Conc.from_json(case["conc"])
        return run_path(case["start_kind"], case["start"], case["path"], conc, random.Random(case.get("seed", 0)),
                        sorted(conc.base), deep=case.get("deep", True))
    if case["kind"] == "record":
        try:
            record_trace(random.Random(case["seed"]), case["nnames"], case["nops"])
        except Exception as ex:
            if not core.raised_by_code_under_test(ex):
                raise
            return "unexpected %s from the library while recording the history" % type(ex).__name__
        return None
    if case["kind"] == "trace":
        # re-execute the recorded calls on the current tree and validate the new trace
        t = case["trace"]
        new = re_record(t)
        rejected, info = validate(ctx, [new], with_controls=False)
        if rejected:
            return "history still not explained by the specification at event %d" % (info.get(1, 0) + 1)
        return None
    return "unknown case kind"


def re_record(t):
    from debian.deb822 import Deb822
    base = t["base"]
    rank = {b.lower(): i + 1 for i, b in enumerate(base)}
    pairs = [(e["s"], e["v"]) for e in t["init"]]
    if t["start"] == "dict":
        d = Deb822(dict(pairs))
    elif t["start"] == "parsed":
        d = Deb822("".join("%s: %s\n" % kv for kv in pairs))
    else:
        d = Deb822()
    events = []
    lower_of = {i + 1: b.lower() for i, b in enumerate(base)}
    for e in t["events"]:
        k2 = base[e["r"] - 1]
        arg = e["v"]
        if e["op"] == "sortby":
            arg = sort_desc(lower_of, e["kf"], e["fn"], e["fm"])
        elif e["op"] == "iofault":
            arg = e["kind"]
        elif e["op"] == "updfault":
            arg = [(q["s"], q["v"]) for q in e["ps"]]
        d, res = apply_op(d, e["op"], [e["s"], k2], arg)
        if isinstance(res, tuple):
            res = res[1]
        events.append(dict(e, res=res, obs=[{"n": rank[k.lower()], "s": k, "v": d[k]} for k in d]))
    return {"init": t["init"], "events": events, "start": t["start"], "base": base}
