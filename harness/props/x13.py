"""X13 (extra) -- the document-structure API of debian.copyright: Copyright (construction, header, add_*,
iteration, dump), the validation decision table of Copyright / Header / FilesParagraph / LicenseParagraph
(strict and non-strict), the typed attributes and the _LineBased / _SpaceSeparated / _single_line conversions.

STATEMENT
  (a) Structure.  A Copyright object is a Header object plus an ordered list of FilesParagraph /
      LicenseParagraph objects.  Copyright() holds a new Header in the current format and no paragraphs;
      Copyright(sequence) holds one object per accepted paragraph of the input, in input order.
      add_license_paragraph(p) puts p after every other paragraph; add_files_paragraph(p) puts p directly after
      the last FilesParagraph of the list (first when there is none) and nothing else moves; `header = h`
      replaces the header object; each raises TypeError for an argument of another class and then changes
      nothing.  all_paragraphs() / iter() give the header and then the list, all_files_paragraphs() /
      all_license_paragraphs() the objects of that class in list order, dump() (returned or written to f) the
      dump of the header followed for each paragraph by an empty line and its dump -- always THE objects
      that were parsed or added, as they are now.  Queries change nothing and a call on one document never
      changes another one, also when both hold the same paragraph object.
  (b) Validation.  An input without paragraphs or whose first paragraph has neither Format nor
      Format-Specification is NotMachineReadableError whatever `strict`.  Format-Specification is taken as
      Format; a format that differs from the current one only by the http: scheme and / or a missing final
      slash is rewritten to the current one; any other value is kept (all three: logged warning);
      known_format() / current_format() say whether the value now IS the current format.  A further paragraph
      with a Files field is a FilesParagraph, any other one with a License field a LicenseParagraph; a
      paragraph with neither, a Files paragraph without Copyright, without License or with an empty Files
      field is a format error: MachineReadableFormatError (a ValueError) when strict, otherwise a logged
      warning (the paragraph with neither field is left out, a defective Files paragraph is kept).  What is
      accepted strictly is accepted non-strictly with the same result, and a valid document in the current
      format logs nothing.  FilesParagraph(data, strict=..) / LicenseParagraph(data) / Header(data) decide
      alike; FilesParagraph.create / LicenseParagraph.create succeed exactly when every required part is given
      (TypeError for None / a non-License, MachineReadableFormatError for a malformed value); assigning None
      to an attribute deletes an optional field and is a TypeError for a required one (Format; Files,
      Copyright, License; License).
  (c) Conversions.  lines (_LineBased): to_str = None for no items, else the stripped items one per line (one
      item: on the first line; several: continuation lines after an empty first line),
      MachineReadableFormatError when a stripped item is empty or contains a newline; from_str = the
      non-empty stripped lines; from_str(to_str(l)) = the stripped items and to_str(l) is a well-formed
      deb822 value.  words (_SpaceSeparated): items joined by one blank, error for an empty item or any white
      space inside; from_str = maximal runs of non-white-space; from_str(to_str(l)) = l.  single: stored as
      given unless it contains a newline (error).
  Unspecified (executed, any outcome accepted): both Format and Format-Specification present; which of two
  applicable exceptions is raised; a str.splitlines() boundary other than newline that stripping does not
  remove in an item / raw value of `lines`, and inside a `single` value assigned through an attribute (deb822's
  own validation decides); the empty string for `single`; texts that contain such boundaries inside a line
  (reader: C02 / C17); the exact number and wording of warnings; iterators used across a change; copy /
  pickle / comparison of documents.

spec:     spec/CopyrightStruct.tla    objects as identity terms, pure operator SCall (one action per call)
          spec/CopyrightStructMC.tla  closed models "one" / "two" (EDGE emission)
          spec/CopyrightValid.tla     decision tables Load / HeaderLoad / FilesCtor / LicCtor / AttrSet / Create
          spec/CopyrightValidMC.tla   every header shape x bodies x strict (CASE ... emission)
          spec/CopyrightConv.tla      conversions over character classes
          spec/CopyrightConvMC.tla    bounded-exhaustive lists / raw texts (LIST / RAW emission)
          spec/TraceCopyrightStruct.tla, spec/TraceCopyrightConv.tla   trace validation
model checking: Struct: DocsOK, AddFilesRule (declarative), AddLicenseRule, SetHeaderRule, HeaderKept,
          TypeChecked, ErrAtomic, QueriesPure, DocsIndependent, ViewsAgree, LayoutKept.  Valid:
          StrictImpliesTolerant, TolerantNeverFormatError, NotReadableWhateverStrict, StrictOnlyValid,
          TolerantWarns, ValidQuiet, KindsInOrder, KnownIffCurrent + constant laws FixLaw, CtorAgrees,
          RequiredStay, CreateLaw, LicCreateLaw.  Conv: RoundTripLines, DebSafeLines, RoundTripWords,
          LinesFailIff, WordsFailIff, NilIffEmpty, RawLinesStable, RawWordsStable, SingleLaw.
          Spec-level negative controls, re-run in every check (each must make TLC report the named property):
          AddMode=append / afterfirst -> AddFilesRule, SharedList -> DocsIndependent, FSilent -> TolerantWarns,
          FStrictDrops -> StrictOnlyValid, NoStrip -> DebSafeLines, SplitLinesSingle -> SingleLaw.
binding:  spec -> code: every EDGE of the one-document model is replayed state by state (fresh objects, the
          state rebuilt along TLC's shortest path) and the two-document model by random walks; every CASE /
          CTOR / HDR / ATTR / CREATE / LCREATE / FSET line and every LIST / RAW line is concretized (tame, odd
          characters, boundary sizes) and executed, expectation = TLC's.  code -> spec: random histories over
          several live documents (new / parsed strictly or not from texts of random shapes, objects shared
          between documents, wrong-typed arguments, touches, every query form; documents of 100..1000
          paragraphs) and random conversions are recorded and validated by TLC together with corrupted
          control traces that must be rejected.  State-leak probes: earlier documents are kept alive and
          looked at again, calls are repeated, objects are shared between documents and changed in place,
          parsed inputs are scribbled over after the call.
          Sizes / characters (notes/SIZE_STRESS.md): values and items of 1..8193 characters, 0..257 (1000)
          paragraphs / patterns / items, NFC/NFD twins, case hazards, BOM / zero-width / non-BMP, every UTF-8
          trailing byte, all str.splitlines() boundaries (inside items, `single` values and touched fields).
          Conversion verdicts are length-independent by construction (character-class homomorphism, see
          CopyrightConv.tla); identity terms and shapes are opaque to TLC.

API surface (notes/API_SURFACE.md)
  entry point / variant                                             exercised by
  Copyright() / (None) / (sequence=None) / (strict=False)           replay + trace (World.new_doc)
  Copyright(seq) str, lines +-newline, tuple, iterator, generator,
    StringIO, bytes, byte lines, BytesIO, latin-1 + encoding, file  replay (CASE) + trace (doc_x13.PARSE_FORMS)
  positional / keyword / default strict                              replay + trace (doc_x13.construct, 4 styles)
  .header getter (attribute, property.fget); setter (assignment,
    setattr, property.fset)                                         replay (EDGE) + trace
  add_files_paragraph / add_license_paragraph positional / paragraph=  replay + trace
  all_paragraphs, iter(), list(), __iter__(), all_files_paragraphs,
    all_license_paragraphs                                          replay + trace
  dump() / dump(None) / dump(f=) / dump(f) / file on disk           replay + trace (World.dump, 4 forms)
  Header() / (None) / (data=) / (Deb822) / subclass                 replay (HDR, objects of kind H) + trace
  Header.known_format / current_format / format setter              replay (HDR, FSET, CASE)
  FilesParagraph(data[, strict=]) / LicenseParagraph(data)          replay (CTOR) + trace (objects)
  FilesParagraph.create / LicenseParagraph.create positional /
    keyword / on a subclass                                         replay (CREATE, LCREATE) + objects
  every typed attribute of the three classes: value / None          replay (ATTR)
  upstream_contact / files_excluded / files_included / files /
    format / upstream_name with lists, tuples, generators           replay (LIST, RAW) + trace (conversions)
  _LineBased / _SpaceSeparated from_str / to_str, _single_line      replay + trace (private: AttributeError -> drift)
  find_files_paragraph, matches, files_pattern, globs_to_re         out of scope here: C16
  License, format_multiline*, parse_multiline*                      out of scope here: C17
  item protocol of the paragraph classes, RestrictedFieldError      out of scope here: X07
  _internal_validate argument of the paragraph constructors         private: not called by the check
  copy / pickle / == of Copyright                                   out of domain (not documented)

finding (KNOWN): X13-nonstrict-silent, see KNOWN below.  It is a defect switch of CopyrightValid.tla (FSilent):
          a divergence is reported as KNOWN-FINDING only when TLC's as-built table explains the observation.
"""
import json
import os
import random
import time
from concurrent.futures import ThreadPoolExecutor

import core
import doc_x13 as DX
from lts import skey

MANIFEST = None
LEVEL = "model_checking"

EXTRA = dict(
    title="debian.copyright document structure: paragraph management, validation decision table, typed-attribute conversions",
    statement=(
        "A Copyright object is a Header plus an ordered list of Files / License paragraph objects: Copyright() has a new "
        "current-format header and no paragraphs, Copyright(sequence) one object per accepted input paragraph in input order; "
        "add_license_paragraph appends, add_files_paragraph inserts directly after the last FilesParagraph (first when none), "
        "the header setter replaces the header, each raising TypeError (nothing changed) for another class; all_paragraphs / "
        "iter / all_files_paragraphs / all_license_paragraphs / dump show exactly those objects in that order as they are now, "
        "queries change nothing and documents never influence each other. Validation: no paragraph or no Format(-Specification) "
        "is NotMachineReadableError whatever strict; http: / missing-slash variants of the current format are rewritten, other "
        "formats kept with a warning; a non-header paragraph with neither Files nor License, or a Files paragraph without "
        "Copyright / License / patterns is MachineReadableFormatError when strict and a logged warning otherwise (what strict "
        "accepts non-strict accepts identically, a valid current-format document logs nothing); create() succeeds exactly when "
        "every required part is given and None deletes optional fields but is a TypeError for required ones. Conversions: "
        "line-based and space-separated lists are stored stripped / joined, refuse empty items and embedded newlines / white "
        "space with MachineReadableFormatError, read back what was stored, and single-line values are refused only for a newline."),
    technique=(
        "TLA+ specs CopyrightStruct (identity-term state machine, 11 invariants / action properties), CopyrightValid (decision "
        "tables, 13 laws) and CopyrightConv (character-class model, 9 laws) model-checked by TLC with 7 spec-level negative "
        "controls; the complete emitted LTS / decision tables / bounded lists replayed into real objects through every entry "
        "point with tame, odd-character and size-stressed payloads; recorded multi-document histories and conversions "
        "validated by TLC (TraceCopyrightStruct, TraceCopyrightConv) with corrupted control traces."))

K_SILENT = "X13-nonstrict-silent"
KNOWN = [
    dict(id=K_SILENT,
         signature="Copyright(text, strict=False) says nothing about a defective Files paragraph: __init__ passes `strict` "
                   "positionally to FilesParagraph(p, strict) where it binds to `_internal_validate`, so the checks are skipped "
                   "instead of logged, e.g. Copyright('Format: <current>\\n\\nFiles: *\\nLicense: MIT\\n', strict=False) logs no "
                   "warning (expected: 'Files paragraph missing Copyright field', as FilesParagraph(data, strict=False) and the "
                   "paragraph with neither Files nor License do)"),
]
KNOWN_IDS = {k["id"] for k in KNOWN}

NEG_CONTROLS = [("CopyrightStructMC", "CopyrightStruct_neg_append.cfg", "AddFilesRule"),
                ("CopyrightStructMC", "CopyrightStruct_neg_first.cfg", "AddFilesRule"),
                ("CopyrightStructMC", "CopyrightStruct_neg_shared.cfg", "DocsIndependent"),
                ("CopyrightValidMC", "CopyrightValid_neg_silent.cfg", "TolerantWarns"),
                ("CopyrightValidMC", "CopyrightValid_neg_drops.cfg", "StrictOnlyValid"),
                ("CopyrightConvMC", "CopyrightConv_neg_nostrip.cfg", "DebSafeLines"),
                ("CopyrightConvMC", "CopyrightConv_neg_single.cfg", "SingleLaw")]
MAXV = 5


class Known(object):
    def __init__(self):
        self.hits, self.example = {}, {}

    def hit(self, kid, example):
        self.hits[kid] = self.hits.get(kid, 0) + 1
        self.example.setdefault(kid, example)


def read_lines(path, tags):
    """fast reader of TLC's <<"TAG", "json">> lines"""
    out = {t: [] for t in tags}
    with open(path, errors="replace") as f:
        for line in f:
            if not line.startswith('<<"'):
                continue
            tag, _, rest = line[3:].partition('", "')
            if tag in out and rest.endswith('">>\n'):
                out[tag].append(json.loads(rest[:-4].replace('\\"', '"').replace("\\\\", "\\")))
    return out


def lib_error(ex):
    return core.raised_by_code_under_test(ex)


def full(ctx):
    return len(ctx.violations) >= MAXV


# ====================================================================== (b) validation: replay of the tables
ERR_BASES = {"MachineReadableFormatError": ("Error", "ValueError"), "NotMachineReadableError": ("Error",)}


def observe_parse(doc, err, warned):
    """what a parse did, in the vocabulary of CopyrightValid.Load"""
    if err:
        return {"err": err, "kinds": [], "keep": [], "fmt": DX.fmt_class(None), "warned": warned, "known": False}
    ps = list(doc.all_paragraphs())
    kinds, keep = [], []
    from debian import copyright as C
    for p in ps[1:]:
        kinds.append("F" if type(p) is C.FilesParagraph else "L" if type(p) is C.LicenseParagraph else "?" + type(p).__name__)
        try:
            keep.append(int(p["X-Marker"]))
        except (KeyError, ValueError):
            keep.append(-1)
    h = doc.header
    known, current = h.known_format(), h.current_format()
    return {"err": "", "kinds": kinds, "keep": keep, "fmt": DX.fmt_class(h.format), "warned": warned,
            "known": known if known == current else "?known_format()=%r current_format()=%r" % (known, current)}


def parse_matches(exp, obs):
    if obs["err"]:
        return obs["err"] in exp["errs"]
    if exp["errs"] or obs["kinds"] != exp["kinds"] or obs["keep"] != exp["keep"]:
        return False
    return exp["unspec"] or (obs["fmt"] == exp["fmt"] and obs["warned"] == exp["warned"] and obs["known"] == exp["known"])


def content_ok(doc, hf, paras, exp):
    """the accepted paragraphs carry the fields of the text (diagnostic cross-check of the projection)"""
    for p in list(doc.all_paragraphs())[1:]:
        m = p["X-Marker"]
        want = dict((n.lower(), v) for n, v in paras[int(m) - 1])
        got = dict((k.lower(), p[k]) for k in p)
        if got != want:
            return "paragraph %s of the text has the fields %r after parsing, written were %r" % (m, got, want)
    return None


def run_case(case, seed, stress, work=None, form=None):
    """one CASE of CopyrightValidMC -> (status, message): status None | 'known' | 'viol'"""
    rng = random.Random("x13-case-%s" % seed)
    text, hf, paras = DX.make_text(rng, case["inp"], stress)
    doc, err, warned, records = DX.parse(rng, text, case["strict"], form=form, work=work)
    obs = observe_parse(doc, err, warned)
    if err:
        from debian import copyright as C
        cls = getattr(C, err, None)
        bases = [b.__name__ for b in cls.__mro__] if isinstance(cls, type) else []
        for b in ERR_BASES.get(err, ()):
            if b not in bases:
                return "viol", "%s is not a %s" % (err, b)
    what = "Copyright(%r, strict=%s): %s, log %r" % (text[:400], case["strict"], json.dumps(obs, ensure_ascii=False)[:400], records[:3])
    if parse_matches(case["exp"], obs):
        if doc is not None:
            msg = content_ok(doc, hf, paras, case["exp"])
            if msg:
                return "viol", what + ": " + msg
        return None, what
    if case["built"] != case["exp"] and parse_matches(case["built"], obs):
        return "known", what
    return "viol", what + "; the specification says %s" % json.dumps(case["exp"])


def replay_cases(ctx, cases, rng, known, quick):
    n = 0
    forms = list(DX.PARSE_FORMS)
    for i, c in enumerate(cases):
        if full(ctx):
            break
        reps = [(0, None)] + ([(rng.choice([1, 1, 2]), forms[i % len(forms)])] if (not quick or i % 3 == 0) else [])
        if i % 40 == 0:
            reps.append((2, "str"))
        for stress, form in reps:
            seed = rng.getrandbits(40)
            try:
                st, msg = run_case(c, seed, stress, ctx.work, form)
            except Exception as ex:      # noqa: BLE001
                if not lib_error(ex):
                    raise
                st, msg = "viol", "unexpected %s while observing a parsed document: %s" % (type(ex).__name__, ex)
            n += 1
            ctx.case_seen(("case", i, stress), True)
            if st == "known" and K_SILENT in KNOWN_IDS:
                known.hit(K_SILENT, msg)
            elif st:
                ctx.violation({"kind": "case", "case": c, "seed": seed, "stress": stress, "form": form}, msg)
        if i == 777:
            ctx.sample("decision-table case: " + json.dumps({"inp": c["inp"], "strict": c["strict"], "exp": c["exp"]}, separators=(",", ":"))[:500])
    return n


def shape_data(rng, p, how):
    """a Deb822 paragraph of shape p for the constructors"""
    from debian.deb822 import Deb822
    fields = DX.para_fields(rng, p, 1, rng.choice([0, 1]))
    if how == 0:
        return Deb822(dict(fields))
    if how == 1:
        return Deb822("".join("%s:%s%s\n" % (n, " " if v else "", v) for n, v in fields))
    d = Deb822()
    for n, v in fields:
        d[n] = v
    return d


def call_outcome(fn):
    with DX.LogCapture() as cap:
        try:
            r = fn()
            err = ""
        except Exception as ex:      # noqa: BLE001
            if not lib_error(ex) and not isinstance(ex, TypeError):
                raise
            r, err = None, type(ex).__name__
    return r, err, cap.warned


def run_ctor(row, seed):
    from debian import copyright as C
    rng = random.Random("x13-ctor-%s" % seed)
    p, strict = row["p"], row["strict"]
    msgs = []
    for how in range(3):
        d = shape_data(rng, p, how)
        if strict:
            fn = [lambda: C.FilesParagraph(d), lambda: C.FilesParagraph(d, strict=True), lambda: C.FilesParagraph(data=d)][how]
        else:
            fn = [lambda: C.FilesParagraph(d, strict=False), lambda: C.FilesParagraph(data=d, strict=False),
                  lambda: C.FilesParagraph(strict=False, data=d)][how]
        r, err, warned = call_outcome(fn)
        exp = row["files"]
        if ([err] if err else []) != exp["errs"] or (not err and warned != exp["warned"]):
            msgs.append("FilesParagraph(%r, strict=%s): %s, warned %s; the specification says %s" % (dict(d), strict, err or "accepted", warned, json.dumps(exp)))
        d2 = shape_data(rng, p, how)
        r, err, warned = call_outcome([lambda: C.LicenseParagraph(d2), lambda: C.LicenseParagraph(data=d2), lambda: C.LicenseParagraph(d2)][how])
        exp = row["lic"]
        if ([err] if err else []) != exp["errs"] or (not err and warned):
            msgs.append("LicenseParagraph(%r): %s, warned %s; the specification says %s" % (dict(d2), err or "accepted", warned, json.dumps(exp)))
    return msgs[0] if msgs else None


def run_hdr(row, seed):
    from debian import copyright as C
    from debian.deb822 import Deb822
    rng = random.Random("x13-hdr-%s" % seed)
    h, exp = row["hdr"], row["exp"]
    d = Deb822()
    fields = []
    if h["fmt"]["sch"] != "none":
        fields.append(("Format", DX.fmt_text(rng, h["fmt"])))
    if h["fs"]["sch"] != "none":
        fields.append(("Format-Specification", DX.fmt_text(rng, h["fs"])))
    fields.insert(rng.randrange(len(fields) + 1), ("Upstream-Name", "x"))
    for n, v in fields:
        d[n] = v
    r, err, warned = call_outcome([lambda: C.Header(d), lambda: C.Header(data=d)][rng.randrange(2)])
    what = "Header(%r): %s, warned %s" % (fields, err or "accepted", warned)
    if err != exp["err"]:
        return what + "; the specification says %s" % json.dumps(exp)
    if err or exp["unspec"]:
        return None
    obs = {"fmt": DX.fmt_class(r.format), "warned": warned, "known": r.known_format(), "current": r.current_format()}
    if (obs["fmt"], obs["warned"], obs["known"], obs["current"]) != (exp["fmt"], exp["warned"], exp["known"], exp["known"]):
        return what + ", %s; the specification says %s" % (json.dumps(obs), json.dumps(exp))
    if "Format-Specification" in d or r["Format"] != r.format:
        return what + ": the deprecated field is still there / Format differs from .format"
    return None


def run_fset(row, seed):
    from debian import copyright as C
    rng = random.Random("x13-fset-%s" % seed)
    h = DX.make_obj(rng, "H")
    txt = DX.fmt_text(rng, row["fmt"])
    h.format = txt
    obs = (h.format, h.known_format(), h.current_format())
    if obs != (txt, row["known"], row["known"]):
        return "header.format = %r: format / known_format() / current_format() = %r, the specification says known = %s" % (txt, obs, row["known"])
    h.format = C._CURRENT_FORMAT if hasattr(C, "_CURRENT_FORMAT") else DX.CUR
    if not (h.known_format() and h.current_format()):
        return "header.format = <current format>: known_format() / current_format() are not both True"
    return None


def good_value(rng, kind, v):
    """a value of class v for a field of kind `kind` (classes of CopyrightValid.ValClasses)"""
    if v == "none":
        return None
    if kind == "id":
        return DX.value(rng, rng.choice([0, 1, 2])) + rng.choice(["", "\n continued", "\n " + rng.choice(DX.LOOKALIKE)])
    if kind == "single":
        return DX.value(rng, rng.choice([0, 1])) + ("" if v == "line" else rng.choice(["\nx", "\n x", "\n"]))
    if kind == "lic":
        return DX.lic_obj(rng)
    n = {"empty": 0, "one": 1, "many": rng.choice([2, 3, 17, 100])}.get(v, 2)
    sep = "@" if kind == "lines" else "/"
    items = ["%s%s%d" % (rng.choice(["a", "\u00e9", "x" * rng.choice([1, 80, 257])]), sep, i) for i in range(n)]
    if kind == "lines":
        items = [it + rng.choice(["", " <x y>", "\u00a0z"]) for it in items]
    if v == "blank":
        items[rng.randrange(len(items))] = rng.choice(["", "  "]) if kind == "lines" else ""
    elif v == "nl":
        items[rng.randrange(len(items))] = "a\nb"
    elif v == "ws":
        items[rng.randrange(len(items))] = rng.choice(["a b", "a\tb", "a\nb", "a\xa0b", " a", "a\u2028b", "a\x0cb", "a\x85b", "a\u3000b", "a\x1fb"])
    return rng.choice([list, tuple, iter])(items)


def fresh(rng, cls):
    return DX.make_obj(rng, {"Header": "H", "FilesParagraph": "F", "LicenseParagraph": "L"}[cls])


def run_attr(row, seed):
    """obj.attr = value of class v -> stored / deleted / TypeError / MachineReadableFormatError, nothing else changes"""
    rng = random.Random("x13-attr-%s" % seed)
    fd, v = row["fd"], row["v"]
    msgs = []
    for present in (True, False):
        obj = fresh(rng, row["cls"])
        if not present and fd["an"]:
            setattr(obj, fd["attr"], None)
        elif present and fd["name"] not in obj and fd["an"]:
            setattr(obj, fd["attr"], good_value(rng, fd["kind"], {"id": "str", "single": "line", "lic": "lic"}.get(fd["kind"], "one")))
        before = [(k, obj[k]) for k in obj]
        val = good_value(rng, fd["kind"], v)
        shown = val if isinstance(val, (str, type(None))) else list(val) if not hasattr(val, "synopsis") else val
        if not isinstance(val, (str, type(None))) and not hasattr(val, "synopsis"):
            val = type(val)(shown) if not hasattr(val, "__next__") else iter(shown)
        try:
            setattr(obj, fd["attr"], val)
            out = "ok"
        except Exception as ex:      # noqa: BLE001
            if not lib_error(ex):
                raise
            out = type(ex).__name__
        after = [(k, obj[k]) for k in obj]
        has = fd["name"] in obj
        was = any(k.lower() == fd["name"].lower() for k, _ in before)
        what = "%s.%s = %r (field %s before): %s, fields after %r" % (row["cls"], fd["attr"], shown, "present" if was else "absent", out, after[:6])
        exp = row["out"]
        if exp in ("TypeError", "MachineReadableFormatError"):
            if out != exp or after != before:
                msgs.append(what + "; the specification says %s and nothing changed" % exp)
        elif out != "ok":
            msgs.append(what + "; the specification says " + exp)
        else:
            others = lambda fs: [(k, x) for k, x in fs if k.lower() != fd["name"].lower()]      # noqa: E731
            if others(after) != others(before) or has != (exp == "stored"):
                msgs.append(what + "; the specification says %s and no other field changes" % exp)
            back = getattr(obj, fd["attr"])
            if exp == "deleted" and back not in (None, ()):
                msgs.append(what + ": reads back %r after the deletion" % (back,))
            if exp == "stored" and fd["kind"] in ("id", "single") and back != shown:
                msgs.append(what + ": reads back %r" % (back,))
    return msgs[0] if msgs else None


def run_create(row, seed):
    from debian import copyright as C
    rng = random.Random("x13-create-%s" % seed)
    msgs = []
    for how in range(3):
        f, c, li = good_value(rng, "words", row["files"]), good_value(rng, "id", row["copyright"]), good_value(rng, "lic", row["license"])
        fshow = f if f is None else list(f)
        f = None if f is None else fshow if how != 1 else tuple(fshow)
        cls = C.FilesParagraph
        if how == 2:
            class Sub(C.FilesParagraph):
                pass
            cls = Sub
        r, err, warned = call_outcome((lambda: cls.create(f, c, li)) if how != 1 else (lambda: cls.create(files=f, copyright=c, license=li)))
        what = "FilesParagraph.create(%r, %r, %r): %s" % (fshow, c, li, err or "created")
        if (err and err not in row["errs"]) or (not err and row["errs"]):
            msgs.append(what + "; the specification says %s" % (row["errs"] or "created"))
        elif not err:
            if type(r) is not cls or list(r.files) != fshow or r.copyright != c or r.license != li or warned:
                msgs.append(what + ": a %s with files %r copyright %r license %r (warned %s)" % (type(r).__name__, r.files, r.copyright, r.license, warned))
            else:
                from debian.deb822 import Deb822
                r2, err2, w2 = call_outcome(lambda: C.FilesParagraph(Deb822(r.dump())))
                if err2 or w2:
                    msgs.append(what + ": the created paragraph is not strictly valid (%s)" % (err2 or "warning"))
    return msgs[0] if msgs else None


def run_lcreate(row, seed):
    from debian import copyright as C
    rng = random.Random("x13-lcreate-%s" % seed)
    lic = DX.lic_obj(rng)
    arg = {"lic": lic, "none": None, "str": "MIT", "tuple": ("MIT", "text")}[row["license"]]
    msgs = []
    for how in range(2):
        r, err, warned = call_outcome((lambda: C.LicenseParagraph.create(arg)) if how == 0 else (lambda: C.LicenseParagraph.create(license=arg)))
        what = "LicenseParagraph.create(%r): %s" % (arg, err or "created")
        if ([err] if err else []) != row["errs"]:
            msgs.append(what + "; the specification says %s" % (row["errs"] or "created"))
        elif not err and (type(r) is not C.LicenseParagraph or r.license != lic or "Files" in r or warned):
            msgs.append(what + ": license reads back %r" % (r.license,))
    return msgs[0] if msgs else None


TABLE_RUNNERS = {"CTOR": run_ctor, "HDR": run_hdr, "FSET": run_fset, "ATTR": run_attr, "CREATE": run_create, "LCREATE": run_lcreate}


def replay_tables(ctx, tabs, rng, reps):
    n = 0
    for tag, fn in TABLE_RUNNERS.items():
        for i, row in enumerate(tabs[tag]):
            for _ in range(reps):
                if full(ctx):
                    return n
                seed = rng.getrandbits(40)
                try:
                    msg = fn(row, seed)
                except Exception as ex:      # noqa: BLE001
                    if not lib_error(ex):
                        raise
                    msg = "unexpected %s from the library: %s" % (type(ex).__name__, ex)
                n += 1
                ctx.case_seen((tag, i), True)
                if msg:
                    ctx.violation({"kind": "table", "tag": tag, "row": row, "seed": seed}, msg)
    return n


# ====================================================================== (a) structure: replay of the LTS
VALID = {"F": {"f": "ok", "c": True, "l": True}, "L": {"f": "no", "c": False, "l": True}}
CURH = {"fmt": {"sch": "https", "body": "cur", "sl": 1}, "fs": {"sch": "none", "body": "none", "sl": 0}}


def start_world(state0, seed, work=None):
    """fresh real documents for the initial state of the model -> (world, None) or (world, message)"""
    rng = random.Random("x13-world-%s" % seed)
    w = DX.World(rng, work)
    for d, doc in enumerate(state0):
        kinds = [o["k"] for o in doc["ps"]]
        if not kinds and rng.random() < 0.7:
            msg = w.new_doc()
        else:
            text, _, _ = DX.make_text(rng, {"empty": False, "hdr": CURH, "body": [VALID[k] for k in kinds]}, rng.choice([0, 0, 1]))
            src = [text]
            real, err, warned, _ = DX.parse(rng, text, rng.random() < 0.7, work=work)
            if err:
                return w, "a valid document %r is refused: %s" % (text[:300], err)
            src[0] = None                 # the caller forgets its input
            msg = w.adopt(real, kinds)
        if msg:
            return w, msg
    return w, None


def run_edges(world, path, edges):
    """follow `path` (state-changing edges from the initial state), then execute `edges` (all leaving the state
    reached, none of them changing it except possibly the last) -> None or (edge, message)"""
    for e in list(path) + list(edges):
        try:
            res = world.apply(e["call"])
            obs = world.observe()
        except Exception as ex:      # noqa: BLE001
            if not lib_error(ex):
                raise
            return e, "unexpected %s from the library: %s" % (type(ex).__name__, ex)
        if res != e["res"] or obs != e["to"]:
            return e, "%s -> %s, documents %s; the specification says %s, %s" % (
                json.dumps(e["call"]), json.dumps(res)[:300], json.dumps(obs)[:400], json.dumps(e["res"]), json.dumps(e["to"]))
    return None


def slim(e):
    return {k: e[k] for k in ("from", "call", "res", "to")}


def replay_one(ctx, edges, rng, museum_size=6):
    """every edge of the one-document model: the state is rebuilt with fresh objects along TLC's shortest path"""
    by_state, order = {}, []
    for e in edges:
        k = skey(e["from"])
        if k not in by_state:
            by_state[k] = []
            order.append(k)
        by_state[k].append(e)
    # shortest paths (TLC explores breadth-first: the first edge that reaches a state is on a shortest path)
    path = {}
    for e in edges:
        if e["to"] != e["from"]:
            kt = skey(e["to"])
            if kt not in path:
                path[kt] = e
    def route(k):
        out = []
        seen = set()
        while k in path and k not in seen:
            seen.add(k)
            out.append(path[k])
            k = skey(path[k]["from"])
        return k, out[::-1]
    n = 0
    museum = []
    for k in order:
        if full(ctx):
            break
        root, pth = route(k)
        es = by_state[k]
        still = [e for e in es if e["to"] == e["from"]]
        moving = [e for e in es if e["to"] != e["from"]]
        rng.shuffle(still)
        groups = [still] + [[e] for e in moving]
        for g in groups:
            if not g:
                continue
            seed = rng.getrandbits(40)
            state0 = (pth[0]["from"] if pth else es[0]["from"])
            world, msg = start_world(state0, seed, ctx.work)
            viol = (None, msg) if msg else run_edges(world, pth, g)
            n += len(g)
            if viol:
                e, m = viol
                ctx.violation({"kind": "edges", "state0": state0, "path": [slim(x) for x in pth], "edges": [slim(x) for x in g], "seed": seed},
                              "document built by %s: %s" % ([x["call"]["op"] for x in pth], m))
                break
            museum.append((world, world.observe(), seed))
            if len(museum) > museum_size:
                # an earlier document, kept alive while others were built and changed, is still what it was
                old, oobs, oseed = museum.pop(0)
                now = old.observe()
                if now != oobs:
                    ctx.violation({"kind": "museum", "seed": oseed}, "a document changed while other documents were used: %s, was %s" % (json.dumps(now)[:300], json.dumps(oobs)[:300]))
    return n, len(order)


def walk_two(ctx, edges, rng, nwalks, length):
    """random walks over the two-document model with one long-lived world per walk"""
    out = {}
    for e in edges:
        out.setdefault(skey(e["from"]), []).append(e)
    targets = {skey(e["to"]) for e in edges if e["to"] != e["from"]}
    init = [k for k in out if k not in targets]
    n = 0
    for _ in range(nwalks):
        if full(ctx):
            break
        seed = rng.getrandbits(40)
        r = random.Random(seed)
        cur = r.choice(init)
        pth = []
        for _ in range(length):
            e = r.choices(out[cur], weights=[5 if x["to"] != x["from"] else 1 for x in out[cur]])[0]
            pth.append(e)
            cur = skey(e["to"])
        world, msg = start_world(pth[0]["from"], seed, ctx.work)
        viol = (None, msg) if msg else run_edges(world, pth, [])
        n += 1
        if viol:
            ctx.violation({"kind": "edges", "state0": pth[0]["from"], "path": [slim(x) for x in pth], "edges": [], "seed": seed}, "walk over two documents: " + viol[1])
    return n


# ====================================================================== (c) conversions: replay of LIST / RAW
LINE_ATTRS = [("upstream_contact", "Upstream-Contact"), ("files_excluded", "Files-Excluded"), ("files_included", "Files-Included")]
MRFE = "MachineReadableFormatError"


def seq_form(rng, items):
    how = rng.randrange(4)
    return list(items) if how == 0 else tuple(items) if how == 1 else iter(list(items)) if how == 2 else (x for x in list(items))


def private(name):
    """a private helper of debian.copyright (None when it is not there any more: drift, not an alarm)"""
    from debian import copyright as C
    return getattr(C, name, None)


def do_to(rng, kind, items, via):
    """assign the items -> (outcome, raw stored or None, value read back or None, description).
    outcome: 'raw' | 'nil' | 'fail' | 'TypeError' | other exception name"""
    from debian import copyright as C
    from debian.deb822 import Deb822
    if via == "direct":
        conv = private("_LineBased" if kind == "lines" else "_SpaceSeparated")
        if conv is None:
            return None
        try:
            raw = conv.to_str(seq_form(rng, items))
        except Exception as ex:      # noqa: BLE001
            if not lib_error(ex):
                raise
            return ("fail" if type(ex).__name__ == MRFE else type(ex).__name__), None, None, "%s.to_str(%r)" % (conv.__name__, items)
        back = None if raw is None else conv.from_str(raw)
        return ("nil" if raw is None else "raw"), raw, back, "%s.to_str(%r)" % (conv.__name__, items)
    if kind == "lines":
        attr, name = via
        obj = C.Header(Deb822({"Format": DX.CUR, name: rng.choice(["old value", "\n a\n b"])})) if rng.random() < 0.6 else C.Header()
    else:
        attr, name = "files", "Files"
        obj = DX.make_obj(rng, "F")
    before = [(k, obj[k]) for k in obj]
    desc = "%s.%s = %r" % (type(obj).__name__, attr, items)
    try:
        setattr(obj, attr, seq_form(rng, items))
    except Exception as ex:      # noqa: BLE001
        if not lib_error(ex):
            raise
        out = "fail" if type(ex).__name__ == MRFE else type(ex).__name__
        if [(k, obj[k]) for k in obj] != before:
            out += "+changed"
        return out, None, None, desc
    raw = obj[name] if name in obj else None
    return ("nil" if raw is None else "raw"), raw, getattr(obj, attr), desc


def run_list(case, seed, stress, nil_of):
    """one LIST line: the items through a `lines` attribute / _LineBased and through files / _SpaceSeparated"""
    rng = random.Random("x13-list-%s" % seed)
    pieces = [DX.conc_text(rng, it, stress) for it in case["l"]]
    items = ["".join(p) for p in pieces]
    msgs = []
    for kind in ("lines", "words"):
        exp = case[kind]
        vias = ["direct", rng.choice(LINE_ATTRS) if kind == "lines" else "files"]
        for via in vias:
            got = do_to(rng, kind, items, via)
            if got is None:
                continue
            out, raw, back, desc = got
            if exp["t"] == "unspec":
                continue
            want = exp["t"]
            if want == "nil" and via != "direct":
                want = {"deleted": "nil", "TypeError": "TypeError"}[nil_of[("Header", via[0]) if kind == "lines" else ("FilesParagraph", "files")]]
            if out != want:
                msgs.append("%s: %s, the specification says %s" % (desc, out if raw is None else "stored %r" % raw, want))
            elif want == "raw":
                wraw = DX.render(pieces, exp["out"])
                wback = tuple(DX.cut(pieces[r["i"] - 1], r) for r in exp["items"])
                if raw != wraw:
                    msgs.append("%s: stored %r, the specification says %r" % (desc, raw, wraw))
                elif back != wback:
                    msgs.append("%s: stored %r reads back %r, the specification says %r" % (desc, raw, back, wback))
    return msgs[0] if msgs else None


def run_raw(case, seed, stress):
    """one RAW line: a stored text read through from_str, and assigned as a single-line value"""
    from debian import copyright as C
    from debian.deb822 import Deb822
    rng = random.Random("x13-raw-%s" % seed)
    pieces = DX.conc_text(rng, case["x"], stress)
    text = "".join(pieces)
    msgs = []
    for kind, cname in (("lines", "_LineBased"), ("words", "_SpaceSeparated")):
        want = tuple(DX.cut(pieces, r) for r in case[kind])
        if kind == "lines" and case["lines_unspec"]:
            want = None
        conv = private(cname)
        if conv is not None:
            got = conv.from_str(text)
            if want is not None and got != want:
                msgs.append("%s.from_str(%r) = %r, the specification says %r" % (cname, text, got, want))
        # through the attribute when deb822 accepts the text as a field value
        try:
            if kind == "lines":
                attr, name = rng.choice(LINE_ATTRS)
                d = Deb822({"Format": DX.CUR})
                d[name] = text
                obj = C.Header(d)
            else:
                attr, name = "files", "Files"
                d = Deb822({"Copyright": "c", "License": "MIT"})
                d[name] = text
                obj = C.FilesParagraph(d, strict=False)
        except ValueError:
            continue
        got = getattr(obj, attr)
        if want is not None and got != want:
            msgs.append("%s.%s with %s = %r reads %r, the specification says %r" % (type(obj).__name__, attr, name, text, got, want))
    # single line
    exp = case["single"]
    fn = private("_single_line")
    if fn is not None and exp != "unspec":
        try:
            r = fn(text)
            out = "raw" if r == text else "returned %r" % (r,)
        except Exception as ex:      # noqa: BLE001
            if not lib_error(ex):
                raise
            out = "fail" if type(ex).__name__ == MRFE else type(ex).__name__
        if out != exp:
            msgs.append("_single_line(%r): %s, the specification says %s" % (text, out, exp))
    if exp != "unspec" and "k" not in case["x"]:
        h = C.Header(Deb822({"Format": DX.CUR, "Upstream-Name": "before"})) if rng.random() < 0.5 else C.Header()
        attr, name = rng.choice([("upstream_name", "Upstream-Name"), ("format", "Format")])
        before = [(k, h[k]) for k in h]
        try:
            setattr(h, attr, text)
            out = "raw" if (h[name], getattr(h, attr)) == (text, text) else "stored %r" % (h[name],)
        except Exception as ex:      # noqa: BLE001
            if not lib_error(ex):
                raise
            out = "fail" if type(ex).__name__ == MRFE else type(ex).__name__
            if [(k, h[k]) for k in h] != before:
                out += "+changed"
        if out != exp:
            msgs.append("Header.%s = %r: %s, the specification says %s" % (attr, text, out, exp))
    return msgs[0] if msgs else None


def replay_conv(ctx, lists, raws, rng, nil_of, quick):
    n = 0
    for tag, rows in (("list", lists), ("raw", raws)):
        for i, c in enumerate(rows):
            if full(ctx):
                return n
            plan = [0] + ([1] if i % 2 == 0 or not quick else []) + ([2] if i % (25 if quick else 5) == 0 else [])
            for stress in plan:
                seed = rng.getrandbits(40)
                try:
                    msg = run_list(c, seed, stress, nil_of) if tag == "list" else run_raw(c, seed, stress)
                except Exception as ex:      # noqa: BLE001
                    if not lib_error(ex):
                        raise
                    msg = "unexpected %s from the library: %s" % (type(ex).__name__, ex)
                n += 1
                ctx.case_seen((tag, i, stress), True)
                if msg:
                    ctx.violation({"kind": tag, "case": c, "seed": seed, "stress": stress, "nil_of": [[k[0], k[1], v] for k, v in nil_of.items()]}, msg)
            if tag == "list" and i == 1500:
                ctx.sample("conversion case: " + json.dumps(c, separators=(",", ":"))[:400])
    # fixed probes: None reads as no items
    for cname in ("_LineBased", "_SpaceSeparated"):
        conv = private(cname)
        if conv is None:
            ctx.drift("debian.copyright.%s not found: direct conversion calls skipped" % cname)
        elif conv.from_str(None) != () or conv.to_str([]) is not None or conv.to_str(()) is not None:
            ctx.violation({"kind": "probe-none"}, "%s: from_str(None) = %r, to_str([]) = %r; expected () and None" % (cname, conv.from_str(None), conv.to_str([])))
    return n


# ====================================================================== code -> spec: recorded histories
NOOBJ = {"k": "-", "d": 0, "i": 0}
NOFMT = {"sch": "none", "body": "none", "sl": 0}
NOINP = {"empty": True, "hdr": {"fmt": NOFMT, "fs": NOFMT}, "body": []}
NOPOBS = {"err": "", "kinds": [], "keep": [], "fmt": NOFMT, "warned": False, "known": False}
NORES = {"t": "ok", "e": "", "os": []}
FORMATS = [{"sch": s, "body": b, "sl": k} for s in ("https", "http", "other") for b in ("cur", "old") for k in (0, 1, 2)]
SHAPES = [{"f": f, "c": c, "l": li} for f in ("no", "empty", "ok") for c in (False, True) for li in (False, True)]


def random_inp(rng, size):
    r = rng.random()
    if r < 0.04:
        return dict(NOINP)
    hdr = dict(CURH)
    if r < 0.25:
        hdr = {"fmt": rng.choice(FORMATS + [NOFMT]), "fs": NOFMT}
    elif r < 0.32:
        hdr = {"fmt": NOFMT, "fs": rng.choice(FORMATS)}
    elif r < 0.35:
        hdr = {"fmt": rng.choice(FORMATS), "fs": rng.choice(FORMATS)}
    if size.startswith("big"):
        n = int(size[3:] or rng.choice([99, 100, 101, 255, 256, 257]))
    else:
        n = rng.choice(DX.COUNTS[:12] if rng.random() < 0.1 else [0, 1, 2, 2, 3, 3, 4, 6])
    pdef = rng.choice([0.0, 0.0, 0.1, 0.4]) if size == "small" else rng.choice([0.0, 0.0, 0.01])
    body = [rng.choice(SHAPES) if rng.random() < pdef else VALID[rng.choice("FFL")] for _ in range(n)]
    return {"empty": False, "hdr": hdr, "body": body}


def record_struct(rng, size, work=None):
    """one random history over several live documents -> list of events (TraceCopyrightStruct)"""
    w = DX.World(rng, work)
    events = []
    ncaller = {"F": 0, "L": 0, "H": 0, "X": 0}
    nops = rng.choice([12, 25, 40]) if size == "small" else rng.choice([8, 12])
    maxdocs = rng.choice([1, 2, 3, 4]) if size == "small" else rng.choice([1, 2])
    stress = rng.choice([0, 1, 1, 2])

    def ev(op, d=0, o=NOOBJ, inp=NOINP, strict=True, res=NORES, pobs=NOPOBS, observe=True):
        events.append({"op": op, "d": d, "o": o, "inp": inp, "strict": strict, "res": res, "pobs": pobs,
                       "obs": w.observe() if observe else []})

    def create():
        if rng.random() < (0.35 if size == "small" else 0.0):
            msg = w.new_doc()
            ev("new", d=len(w.docs))
            return msg
        inp = random_inp(rng, size)
        strict = rng.random() < 0.5
        text, _, _ = DX.make_text(rng, inp, stress if size == "small" else 0)
        doc, err, warned, _ = DX.parse(rng, text, strict, work=work)
        pobs = observe_parse(doc, err, warned)
        msg = None
        if doc is not None:
            kinds = [k if k in ("F", "L") else "F" for k in pobs["kinds"]]
            msg = w.adopt(doc, kinds) if kinds == pobs["kinds"] else "parsed paragraphs of classes %r" % (pobs["kinds"],)
        ev("parse", d=len(w.docs) if doc is not None else 0, inp=inp, strict=strict, pobs=pobs)
        return msg

    def pick_obj(want):
        r = rng.random()
        if r < 0.15:
            kind = rng.choice([k for k in "FLHX" if k != want])
        else:
            kind = want
        r = rng.random()
        known_terms = [dict(zip("kdi", key)) for key in w.real if key[0] == kind]
        if known_terms and r < 0.55:
            return rng.choice(known_terms)
        ncaller[kind] += 1
        return {"k": kind, "d": 0, "i": ncaller[kind]}

    msg = create()
    tries = 0
    while not w.docs and tries < 5 and not msg:
        msg = create()
        tries += 1
    if not w.docs:
        w.new_doc()
        ev("new", d=len(w.docs))
    ops = ["add_files"] * 6 + ["add_license"] * 4 + ["set_header"] * 2 + ["touch"] * 2 + ["header", "all", "iter", "files", "licenses", "dump", "dump"]
    for step in range(nops):
        if msg:
            break
        if len(w.docs) < maxdocs and rng.random() < 0.15:
            msg = create()
            continue
        op = rng.choice(ops)
        d = rng.randrange(len(w.docs)) + 1
        o = NOOBJ
        if op in ("add_files", "add_license", "set_header"):
            o = pick_obj({"add_files": "F", "add_license": "L", "set_header": "H"}[op])
        elif op == "touch":
            o = pick_obj(rng.choice("FLH"))
            if o["k"] == "X":
                o = pick_obj("F")
        res = w.apply({"op": op, "d": d, "o": o})
        if op in ("header", "all", "iter", "files", "licenses", "dump") and rng.random() < 0.3:
            res2 = w.apply({"op": op, "d": d, "o": o})          # asked twice: the same answer
            if res2 != res:
                res = {"t": "?second answer differs: %s" % json.dumps(res2)[:200], "e": "", "os": []}
        ev(op, d=d, o=o, res=res, observe=(size == "small" or step % 4 == 3 or step == nops - 1))
    if size != "small" and not msg:
        for op in ("dump", "files", "licenses"):          # the big documents are always read completely at the end
            for d in range(1, len(w.docs) + 1):
                ev(op, d=d, res=w.apply({"op": op, "d": d, "o": NOOBJ}), observe=False)
    return events, msg


STATIC_STRUCT_CONTROL = [
    {"op": "new", "d": 1, "o": NOOBJ, "inp": NOINP, "strict": True, "res": NORES, "pobs": NOPOBS, "obs": []},
    {"op": "add_license", "d": 1, "o": {"k": "L", "d": 0, "i": 1}, "inp": NOINP, "strict": True, "res": NORES, "pobs": NOPOBS, "obs": []},
    {"op": "add_files", "d": 1, "o": {"k": "F", "d": 0, "i": 1}, "inp": NOINP, "strict": True, "res": NORES, "pobs": NOPOBS,
     "obs": [{"hdr": {"k": "H", "d": 1, "i": 0}, "ps": [{"k": "L", "d": 0, "i": 1}, {"k": "F", "d": 0, "i": 1}]}]}]
STRUCT_HOWS = ["files-pos", "typeerror-ok", "leak", "parse-kinds", "hdr-warned", "hdr-err", "query-order", "license-front"]


def corrupt_struct(tr, how):
    import copy
    for i, e in enumerate(tr):
        c = None
        if how == "files-pos" and e["op"] == "add_files" and e["res"]["t"] == "ok" and e["obs"]:
            obs = copy.deepcopy(e["obs"])
            ps = obs[e["d"] - 1]["ps"]
            j = max(k for k, x in enumerate(ps) if x == e["o"])
            moved = ps[:j] + ps[j + 1:] + [ps[j]]
            if moved != ps:
                obs[e["d"] - 1]["ps"] = moved
                c = dict(e, obs=obs)
        elif how == "license-front" and e["op"] == "add_license" and e["res"]["t"] == "ok" and e["obs"] and len(e["obs"][e["d"] - 1]["ps"]) >= 2:
            obs = copy.deepcopy(e["obs"])
            ps = obs[e["d"] - 1]["ps"]
            moved = [ps[-1]] + ps[:-1]
            if moved != ps:
                obs[e["d"] - 1]["ps"] = moved
                c = dict(e, obs=obs)
        elif how == "typeerror-ok" and e["res"]["t"] == "err":
            c = dict(e, res=NORES)
        elif how == "leak" and e["op"] in ("add_files", "add_license") and e["res"]["t"] == "ok" and len(e["obs"]) >= 2:
            obs = copy.deepcopy(e["obs"])
            q = 0 if e["d"] != 1 else 1
            obs[q]["ps"] = obs[q]["ps"] + [e["o"]]
            c = dict(e, obs=obs)
        elif how == "parse-kinds" and e["op"] == "parse" and len(e["pobs"]["kinds"]) >= 1:
            p = copy.deepcopy(e["pobs"])
            p["kinds"] = p["kinds"][:-1]
            p["keep"] = p["keep"][:-1]
            c = dict(e, pobs=p)
        elif how == "hdr-warned" and e["op"] == "parse" and not e["pobs"]["err"] and not e["inp"]["body"] and e["inp"]["hdr"]["fs"] == NOFMT:
            c = dict(e, pobs=dict(e["pobs"], warned=not e["pobs"]["warned"]))
        elif how == "hdr-err" and e["op"] == "parse" and not e["inp"]["body"] and not e["inp"]["empty"] and e["inp"]["hdr"]["fs"] == NOFMT:
            if e["pobs"]["err"]:
                c = dict(e, pobs=dict(NOPOBS, fmt=e["inp"]["hdr"]["fmt"]), d=1)
            else:
                c = dict(e, pobs=dict(NOPOBS, err="NotMachineReadableError"), d=0)
        elif how == "query-order" and e["res"]["t"] == "objs" and len(e["res"]["os"]) >= 2 and e["res"]["os"][0] != e["res"]["os"][1]:
            os_ = list(e["res"]["os"])
            os_[0], os_[1] = os_[1], os_[0]
            c = dict(e, res=dict(e["res"], os=os_))
        if c is not None:
            return tr[:i] + [c]
    return None


def validate_struct(ctx, traces, with_controls=True):
    """-> (rejected trace numbers, progress of the rejected ones, known notes [(tid, id, l)], number of controls)"""
    controls = []
    if with_controls:
        controls.append(STATIC_STRUCT_CONTROL)
        for how in STRUCT_HOWS:
            for t in traces:
                c = corrupt_struct(t, how)
                if c:
                    controls.append(c)
                    break
    env = {"TRACE_DIAG": "0", "KNOWN_SILENT": "1" if K_SILENT in KNOWN_IDS else "0"}
    acc, _, r = core.validate_traces(ctx, "TraceCopyrightStruct", "TraceCopyrightStruct.cfg", traces, extra_env=env, controls=controls)
    notes = [tuple(x) for x in r.printed.get("REJECT", []) if x[0] <= len(traces)]
    rejected = [i for i in range(1, len(traces) + 1) if i not in acc]
    info = {}
    if rejected:
        sub = [traces[i - 1] for i in rejected[:8]]
        _, prog, _ = core.validate_traces(ctx, "TraceCopyrightStruct", "TraceCopyrightStruct.cfg", sub, extra_env=dict(env, TRACE_DIAG="1"))
        for j, i in enumerate(rejected[:8]):
            info[i] = prog.get(j + 1, 0)
    return rejected, info, notes, len(controls)


def show_event(e):
    e = dict(e)
    if len(json.dumps(e.get("obs"))) > 500:
        e["obs"] = "..."
    if len(e.get("inp", {}).get("body", [])) > 8:
        e["inp"] = dict(e["inp"], body="... %d paragraphs" % len(e["inp"]["body"]))
    if e["op"] != "parse":
        e.pop("inp", None), e.pop("pobs", None), e.pop("strict", None)
    return json.dumps(e, separators=(",", ":"))[:1200]


# ---- conversions
def record_conv(rng):
    """random conversions through attributes and the private converters -> list of events (TraceCopyrightConv)"""
    events = []
    syms = "aabbsnku"

    def rand_syms(n):
        return [rng.choice(syms) for _ in range(n)]

    def E(op, l=(), x=(), t="", text=(), vals=()):      # noqa: E741,N802
        events.append({"op": op, "l": [list(i) for i in l], "x": list(x), "t": t, "text": list(text), "vals": [list(v) for v in vals]})

    for _ in range(rng.choice([6, 10, 16])):
        r = rng.random()
        if r < 0.55:
            kind = rng.choice(["lines", "words"])
            n = rng.choice([0, 1, 1, 2, 2, 3, 5])
            if kind == "words" and rng.random() < 0.6:
                lsyms = [[rng.choice("ab") for _ in range(rng.choice([1, 2, 4]))] for _ in range(n)]
            elif rng.random() < 0.5:
                lsyms = [[rng.choice("abs") for _ in range(rng.choice([1, 2, 3, 5]))] for _ in range(n)]
            else:
                lsyms = [rand_syms(rng.choice([0, 1, 2, 3, 5])) for _ in range(n)]
            items = ["".join(DX.conc_sym(rng, s, 1)[:1] for s in it) for it in lsyms]
            lsyms = [DX.abstract(it) for it in items]
            via = "direct" if (rng.random() < 0.4 or (kind == "words" and not items)) else (rng.choice(LINE_ATTRS) if kind == "lines" else "files")
            got = do_to(rng, kind, items, via)
            if got is None:
                continue
            out, raw, back, _ = got
            E(kind + "_to", l=lsyms, t=out, text=DX.abstract(raw) if raw is not None else ())
            if raw is not None and back is not None:
                E(kind + "_from", x=DX.abstract(raw), vals=[DX.abstract(v) for v in back])
        elif r < 0.8:
            kind = rng.choice(["lines", "words"])
            text = "".join(DX.conc_sym(rng, s, 1)[:1] for s in rand_syms(rng.choice([0, 1, 3, 6, 12, 24])))
            conv = private("_LineBased" if kind == "lines" else "_SpaceSeparated")
            if conv is None:
                continue
            E(kind + "_from", x=DX.abstract(text), vals=[DX.abstract(v) for v in conv.from_str(text)])
        else:
            text = "".join(DX.conc_sym(rng, s, 1)[:1] for s in rand_syms(rng.choice([1, 2, 4, 9, 20])))
            fn = private("_single_line")
            if fn is None:
                continue
            try:
                rr = fn(text)
                E("single", x=DX.abstract(text), t="raw", text=DX.abstract(rr))
            except Exception as ex:      # noqa: BLE001
                if not lib_error(ex):
                    raise
                E("single", x=DX.abstract(text), t="fail" if type(ex).__name__ == MRFE else type(ex).__name__)
    return events


STATIC_CONV_CONTROL = [{"op": "lines_to", "l": [["a"], ["b"]], "x": [], "t": "raw", "text": ["a", "n", "s", "b"], "vals": []}]


def corrupt_conv(tr, how):
    for i, e in enumerate(tr):
        c = None
        if how == "fail-ok" and e["t"] == "fail" and e["op"] in ("words_to", "single"):
            c = dict(e, t="raw", text=e["x"] if e["op"] == "single" else [s for it in e["l"] for s in it])
        elif how == "drop-item" and e["op"].endswith("_from") and len(e["vals"]) >= 1 and "k" not in e["x"]:
            c = dict(e, vals=e["vals"][:-1])
        elif how == "text" and e["op"].endswith("_to") and e["t"] == "raw" and len(e["text"]) >= 1 and not any("k" in it for it in e["l"]):
            c = dict(e, text=e["text"] + ["s"])
        elif how == "raw-fail" and e["op"] == "words_to" and e["t"] == "raw":
            c = dict(e, t="fail", text=[])
        if c is not None:
            return tr[:i] + [c]
    return None


def validate_conv(ctx, traces, with_controls=True):
    controls = []
    if with_controls:
        controls.append(STATIC_CONV_CONTROL)
        for how in ("fail-ok", "drop-item", "text", "raw-fail"):
            for t in traces:
                c = corrupt_conv(t, how)
                if c:
                    controls.append(c)
                    break
    acc, _, r = core.validate_traces(ctx, "TraceCopyrightConv", "TraceCopyrightConv.cfg", traces, extra_env={"TRACE_DIAG": "0"}, controls=controls)
    rejected = [i for i in range(1, len(traces) + 1) if i not in acc]
    info = {}
    if rejected:
        sub = [traces[i - 1] for i in rejected[:8]]
        _, prog, _ = core.validate_traces(ctx, "TraceCopyrightConv", "TraceCopyrightConv.cfg", sub, extra_env={"TRACE_DIAG": "1"})
        for j, i in enumerate(rejected[:8]):
            info[i] = prog.get(j + 1, 0)
    return rejected, info, len(controls)


# ====================================================================== the check
def run(ctx):
    import logging
    quick = ctx.tier == "quick"
    rng = ctx.rng
    ctx.import_repo()
    logging.getLogger("debian.copyright").addHandler(logging.NullHandler())     # tolerated defects are logged: keep stderr clean
    tm = ctx.extra.setdefault("phase_wall_s", {})
    known = Known()
    t0 = time.time()
    ctx.assumptions += [
        "model scope: documents of <= %d paragraphs over the caller's 2 Files / 1-2 License / 1 Header / 1 foreign object and the documents' own objects; 19 x 4 header shapes x bodies of <= %d paragraphs over 12 shapes x strict; lists of <= 2 items of <= %d symbols and raw texts of <= %d symbols over 6 character classes"
        % ((4, 2, 2, 4) if quick else (5, 3, 3, 5)),
        "trusted: TLC; Deb822 as the paragraph container, its reader (C02) for the texts the check generates (one-line values without str.splitlines() boundaries) and its dump() as the reference for the dump of ONE paragraph; the projection list(all_paragraphs()) + id() for the structure of a document",
        "warnings are observed as 'at least one record of level WARNING on the logger debian.copyright during the call'; number and wording are not verdicts",
        "private helpers (_LineBased, _SpaceSeparated, _single_line) are called directly as additional entry points; when one is missing the direct calls are skipped (spec drift), the attributes still go through them",
    ]
    pool = ThreadPoolExecutor(max_workers=6 if quick else 5)

    def emit(module, cfg, tags, workers=1):
        r = ctx.tlc_must_hold(module, cfg, workers=workers, keep_raw=True, want_tags=set())
        out = read_lines(r.raw_path, tags)
        import shutil
        shutil.rmtree(os.path.dirname(r.raw_path), ignore_errors=True)
        if any(not out[t] for t in tags):
            raise core.MachineryError("%s / %s: TLC emitted no %s line" % (module, cfg, [t for t in tags if not out[t]]))
        return out, r

    def neg(module, cfg, prop):
        r = ctx.tlc(module, cfg, workers=1, count=False)
        if r.violated != prop:
            raise core.MachineryError("negative control %s: TLC reported %r, expected a violation of %s" % (cfg, r.violated, prop))
        return "%s -> %s" % (cfg[:-4], prop)

    sfx = "_quick" if quick else ""
    f_valid = pool.submit(emit, "CopyrightValidMC", "CopyrightValid_quick.cfg" if quick else "CopyrightValid_bnd.cfg",
                          ["CASE", "ATTR", "CREATE", "LCREATE", "CTOR", "HDR", "FSET"])
    f_one = pool.submit(emit, "CopyrightStructMC", "CopyrightStruct_one%s.cfg" % sfx, ["EDGE"])
    f_conv = pool.submit(emit, "CopyrightConvMC", "CopyrightConv_quick.cfg" if quick else "CopyrightConv_bnd.cfg", ["LIST", "RAW"], 1 if quick else 2)
    f_two = pool.submit(emit, "CopyrightStructMC", "CopyrightStruct_two%s.cfg" % sfx, ["EDGE"])
    negf = [pool.submit(neg, m, c, p) for m, c, p in NEG_CONTROLS]

    # ---- code -> spec: record while TLC runs
    t1 = time.time()
    bigs = ["big257", "big100", "big1000", "big256", "big99", "big255", "big101"]
    plan = (["small"] * 300 + bigs[:4]) if quick else (["small"] * 3000 + bigs * 4)
    straces, sseeds = [], []
    for size in plan:
        tseed = rng.getrandbits(40)
        try:
            evs, msg = record_struct(random.Random(tseed), size, ctx.work)
        except Exception as ex:      # noqa: BLE001
            if not lib_error(ex):
                raise
            evs, msg = None, "unexpected %s from the library while recording a history: %s" % (type(ex).__name__, ex)
        if msg and not full(ctx):
            ctx.violation({"kind": "struct-trace", "seed": tseed, "size": size}, msg)
        if evs and not msg:
            straces.append(evs)
            sseeds.append((tseed, size))
    ctraces, cseeds = [], []
    for _ in range(400 if quick else 3000):
        tseed = rng.getrandbits(40)
        try:
            ctraces.append(record_conv(random.Random(tseed)))
            cseeds.append(tseed)
        except Exception as ex:      # noqa: BLE001
            if not lib_error(ex):
                raise
            if not full(ctx):
                ctx.violation({"kind": "conv-trace", "seed": tseed}, "unexpected %s from the library while recording conversions: %s" % (type(ex).__name__, ex))
    tm["record"] = round(time.time() - t1, 1)
    vpool = ThreadPoolExecutor(max_workers=2 if quick else 4)
    sb, cb = (400, 400) if quick else (800, 800)
    svf = [(i, vpool.submit(validate_struct, ctx, straces[i:i + sb])) for i in range(0, len(straces), sb)]
    cvf = [(i, vpool.submit(validate_conv, ctx, ctraces[i:i + cb])) for i in range(0, len(ctraces), cb)]

    # ---- spec -> code
    t2 = time.time()
    tabs, rv = f_valid.result()
    nil_of = {(r["cls"], r["fd"]["attr"]): r["out"] for r in tabs["ATTR"] if r["v"] == "empty"}
    ncases = replay_cases(ctx, tabs["CASE"], rng, known, quick)
    ntab = replay_tables(ctx, tabs, rng, 2 if quick else 10)
    tm["replay_valid"] = round(time.time() - t2, 1)
    t3 = time.time()
    e1, r1 = f_one.result()
    nedge, nstates = replay_one(ctx, e1["EDGE"], rng) if not full(ctx) else (0, 0)
    e2, r2 = f_two.result()
    nwalk = walk_two(ctx, e2["EDGE"], rng, 150 if quick else 2500, 30 if quick else 40) if not full(ctx) else 0
    tm["replay_struct"] = round(time.time() - t3, 1)
    t4 = time.time()
    cv, rc = f_conv.result()
    nconv = replay_conv(ctx, cv["LIST"], cv["RAW"], rng, nil_of, quick) if not full(ctx) else 0
    tm["replay_conv"] = round(time.time() - t4, 1)
    e = e1["EDGE"][len(e1["EDGE"]) // 2]
    ctx.sample("lts edge: " + json.dumps(slim(e), separators=(",", ":"))[:500])
    per_op = {}
    for e in e1["EDGE"]:
        per_op[e["call"]["op"]] = per_op.get(e["call"]["op"], 0) + 1
    ctx.extra["edges_per_action"] = per_op
    ctx.extra["tlc"] = {"valid": {"states": rv.distinct, "cases": len(tabs["CASE"]), "wall_s": round(rv.wall, 1)},
                        "struct_one": {"states": r1.distinct, "edges": len(e1["EDGE"]), "wall_s": round(r1.wall, 1)},
                        "struct_two": {"states": r2.distinct, "edges": len(e2["EDGE"]), "wall_s": round(r2.wall, 1)},
                        "conv": {"states": rc.distinct, "lists": len(cv["LIST"]), "raws": len(cv["RAW"]), "wall_s": round(rc.wall, 1)}}
    ctx.extra["replayed"] = {"cases": ncases, "table_rows": ntab, "edges": nedge, "states_rebuilt": nstates, "walks": nwalk, "conversions": nconv}
    ctx.extra["negative_controls_spec"] = [f.result() for f in negf]
    pool.shutdown()

    # ---- verdicts of the trace validation
    t5 = time.time()
    nrej = ncontrols = 0
    for base, f in svf:
        rejected, info, notes, nc = f.result()
        ncontrols += nc
        for tid, kid, l in notes:
            known.hit(kid, show_event(straces[base + tid - 1][l - 1]))
        for i in rejected:
            nrej += 1
            if full(ctx):
                continue
            at = info.get(i, 0)
            tseed, size = sseeds[base + i - 1]
            tr = straces[base + i - 1]
            ctx.violation({"kind": "struct-trace", "seed": tseed, "size": size, "first_unexplained_event": at + 1},
                          "recorded history not explained by CopyrightStruct / CopyrightValid (after %d accepted events): %s"
                          % (at, show_event(tr[at]) if at < len(tr) else "(end)"))
    for base, f in cvf:
        rejected, info, nc = f.result()
        ncontrols += nc
        for i in rejected:
            nrej += 1
            if full(ctx):
                continue
            at = info.get(i, 0)
            tr = ctraces[base + i - 1]
            ctx.violation({"kind": "conv-trace", "seed": cseeds[base + i - 1], "first_unexplained_event": at + 1},
                          "recorded conversion not explained by CopyrightConv (after %d accepted events): %s" % (at, json.dumps(tr[at]) if at < len(tr) else "(end)"))
    vpool.shutdown()
    tm["validate_wait"] = round(time.time() - t5, 1)
    ctx.traces += nstates + nwalk + len(straces) + len(ctraces)
    ctx.evaluations += nedge + nwalk + len(straces) + len(ctraces)
    for i in range(len(straces)):
        ctx.distinct.add(("strace", i))
    for i in range(len(ctraces)):
        ctx.distinct.add(("ctrace", i))
    ctx.extra["traces"] = {"struct": len(straces), "struct_events": sum(map(len, straces)), "conv": len(ctraces),
                           "conv_events": sum(map(len, ctraces)), "rejected": nrej, "controls": ncontrols,
                           "largest_document": max((len(d["ps"]) for t in straces for e in t for d in e["obs"]), default=0)}
    if straces:
        ctx.sample("recorded history (first 3 events): " + " | ".join(show_event(e) for e in straces[0][:3])[:900])
    ctx.extra["known_findings"] = {k["id"]: {"occurrences": known.hits.get(k["id"], 0), "example": known.example.get(k["id"])} for k in KNOWN}
    tm["total"] = round(time.time() - t0, 1)
    for k in KNOWN:
        if known.hits.get(k["id"]):
            print("KNOWN-FINDING: extra=X13 %s (%d occurrences; id=%s; e.g. %s)" % (k["signature"], known.hits[k["id"]], k["id"], known.example[k["id"]][:300]))


def replay(ctx, case):
    import logging
    ctx.import_repo()
    logging.getLogger("debian.copyright").addHandler(logging.NullHandler())
    kind = case.get("kind")
    try:
        if kind == "case":
            st, msg = run_case(case["case"], case["seed"], case["stress"], ctx.work, case.get("form"))
            return msg if st == "viol" else None
        if kind == "table":
            return TABLE_RUNNERS[case["tag"]](case["row"], case["seed"])
        if kind == "edges":
            world, msg = start_world(case["state0"], case["seed"], ctx.work)
            if msg:
                return msg
            viol = run_edges(world, case["path"], case["edges"])
            return viol[1] if viol else None
        if kind == "museum":
            return "a leak between documents was seen in the original run: re-run the check (needs the whole sequence of documents)"
        if kind == "list":
            return run_list(case["case"], case["seed"], case["stress"], {(a, b): c for a, b, c in case["nil_of"]})
        if kind == "raw":
            return run_raw(case["case"], case["seed"], case["stress"])
        if kind == "probe-none":
            for cname in ("_LineBased", "_SpaceSeparated"):
                conv = private(cname)
                if conv is not None and (conv.from_str(None) != () or conv.to_str([]) is not None):
                    return "%s: from_str(None) / to_str([]) are not () / None" % cname
            return None
        if kind == "struct-trace":
            evs, msg = record_struct(random.Random(case["seed"]), case["size"], ctx.work)
            if msg:
                return msg
            rejected, info, _, _ = validate_struct(ctx, [evs], with_controls=False)
            return "history still not explained by the specification: %s" % show_event(evs[min(info.get(1, 0), len(evs) - 1)]) if rejected else None
        if kind == "conv-trace":
            evs = record_conv(random.Random(case["seed"]))
            rejected, info, _ = validate_conv(ctx, [evs], with_controls=False)
            return "conversion still not explained by the specification: %s" % json.dumps(evs[min(info.get(1, 0), len(evs) - 1)]) if rejected else None
    except Exception as ex:      # noqa: BLE001
        if not lib_error(ex):
            raise
        return "unexpected %s from the library: %s" % (type(ex).__name__, ex)
    return "unknown case kind"
