"""X12 (extra) -- the query and I/O layer of debian.debtags as relation algebra over a finite relation Pkg x Tag.

STATEMENT
  A tag collection is a pair of maps (package -> set of tags, tag -> set of packages); a collection filled by
  DB.read / read_tag_database_both_ways from a text in which every package is named on one data line holds the
  relation R = U pkgs(line) x (tags(line) minus the tags a tag_filter rejects), its converse, every named package
  as a key (also untagged ones) and every surviving tag as a key; read_tag_database / read_tag_database_reversed
  return the first / second map, parse_tags the (set of packages, set of tags) of every data line in order;
  blank lines are skipped and the spelling of a line (white space after the colon and at the end, '\\r\\n', a
  missing final newline, 'pkg' / 'pkg:' for an untagged package, names listed twice) does not matter.  On ANY pair
  of maps (f, b):  has_package / has_tag are key membership in f / b; tags_of_package, packages_of_tag the image
  (empty for an unknown key); card(t) = |b[t]|; package_count = |keys f|, tag_count = |keys b|; discriminance(t)
  = min(card t, package_count - card t); iter_packages / iter_tags list every key once, iter_packages_tags /
  iter_tags_packages every (key, set) once; reverse() / reverse_copy() swap the maps; choose_packages(S),
  filter_packages(pred), filter_packages_tags(pred) keep the packages chosen / accepted (pred sees the package,
  resp. (package, tags)) with their tag sets and rebuild the tag map as the converse; filter_tags keeps the
  accepted tags with their package sets and rebuilds the package map as the converse (packages left without tag
  vanish); the *_copy forms have the same value; facet_collection keeps every package and maps each tag
  facet::name to its facet; module reverse(m) is the converse of any map m (keys without values vanish);
  relevance_index_function(full, sub)(t) = sub.card(t)^2 / full.card(t); correlations() yields, for every tag p
  and every other tag t met on a package carrying p, exactly once (p, t, |P_p & P_t| / |P_p| - |P_t minus P_p| /
  |P minus P_p|); ideal_tagset(tags) is the first prefix of the list whose packages_of_tags cardinality x
  minimises (x - 15)^2 / x below 3, looking no further than the first prefix of cardinality 0, else the first
  tag alone.  output(m) / dump() / dump_reverse() print one line `key: v1, v2, ...` per key (every key and value
  once) and return None; that text read again gives the same map (and its converse).
  Objects: every derivation returns a NEW collection and leaves the receiver and every other live collection as
  they were; repeating a query gives the same answer.  When a caller mutates a set it was handed, the collection
  it came from changes in exactly that set; collections connected to it through derivations documented as
  "sharing tagsets" (reverse, choose_packages, filter_packages, filter_packages_tags, filter_tags) become
  unspecified; every other collection -- in particular receiver and result of copy, reverse_copy, every *_copy
  form, facet_collection -- is untouched; the set handed out for an unknown key is a fresh one.
  Unspecified (executed, any outcome accepted): a package named on two data lines; lines consisting of white
  space only; names outside the lexical domain (see harness/debtags_x12.py); tags_of_packages / packages_of_tags of
  several names whose sets differ (docstring: "all", code: union -- BOTH readings are accepted, also inside
  ideal_tagset) and of no name at all; correlations() when some tag is carried by every package while another
  tag exists (division by the number of packages without the pivot); relevance of a tag absent from `full`;
  choose_packages_copy of an absent package; facet_collection on tags not of the form facet::name and the tag ->
  packages map of its result (DB.insert: open finding C20-insert-chars, see harness/props/c20.py) -- the
  package -> tags map of the facet collection IS judged.  Not covered here because C20 does: insert, qwrite /
  qread, failing reads, mutual inverse of db / rdb under histories with insert.

spec:     spec/TagRel.tla        pure relation algebra (maps, readers, writers, derivations, queries incl. the exact
                                 rational arithmetic of ideal_tagset / correlations / relevance)
          spec/TagQuery.tla      histories over several live objects: reference layer (values, tracking, sharing
                                 classes) + implementation layer (the dictionaries as the code builds them, which
                                 set objects ARE the same object); TagQueryMC.tla closed configurations
          spec/TagCases.tla      tables: every collection over 3 packages x 2 (3) tags, plain / reversed / every
                                 package standing for 5 (7) packages, with the answer of every query and the value of
                                 every derivation; every input text of <= 2 (3) lines with the readers' results
          spec/TraceTagQuery.tla trace validation
model checking: TagQuery: Refines (a tracked object holds the reference value), ClassSound (set objects are shared
          inside a stated sharing class only), AliasSane, TypeOK, LawsHold (reverse is an involution; dump / dump_reverse
          read back; pair counts; discriminance bounds; choose / filter laws; intersection within union ...) for
          histories of <= 2 derivations / reads + 1 caller mutation (quick; thorough: the same bound over more inputs,
          argument sets and predicates, MC_TagQuery_wide.cfg) and of ANY length with one caller mutation (thorough:
          closed state space, counters hidden by a VIEW, MC_TagQuery.cfg) over 2 slots; TagCases: LawsOnCases on every enumerated collection.
          Spec-level negative controls, re-run in every check: ChooseCopyShares -> ClassSound violated, and (without
          ClassSound) Refines violated; ReverseDropsUntagged -> LawsHold violated.
binding:  spec -> code: (A) every CASE table: the collection is built in the real library through a rotating reader /
          input form / spelling, every query and derivation is performed through a rotating variant (method, camelCase
          alias, keyword) and compared; (B) every read CASE through parse_tags and the three module readers and
          DB.read; (C) the LTS of TagQuery (EDGE lines carry the statement's state AND the as-built state of the
          implementation layer with ChooseCopyShares = TRUE) replayed path by path on live objects, all slots
          projected after every call.  code -> spec: random histories over many live objects and bigger universes
          (queries, derivations, mutations of handed-out sets, re-reads, module functions on foreign dictionaries)
          are recorded with the projection of every object that changed and validated by TLC (TraceTagQuery)
          together with corrupted control traces that must be rejected.
          Size stress (notes/SIZE_STRESS.md): names of 1..8193 characters, lines of 0..257 (1000) packages / tags,
          collections of up to 1000 packages, multiplicity blow-ups; character stress: see harness/debtags_x12.py.
          Names are opaque symbols in the models and interned ids in traces: verdicts are length-independent.

API surface (notes/API_SURFACE.md)
  entry point / variant                                                     exercised by
  parse_tags / parseTags(input)                                             B + trace (fn parse)
  read_tag_database / readTagDatabase                                       A (builder) + B + trace
  read_tag_database_reversed / readTagDatabaseReversed                      B + trace
  read_tag_database_both_ways / readTagDatabaseBothWays (tag_filter omitted /
    None / positional / keyword; lambda, function, partial, callable object) A (builder) + B + trace
  DB.read(input_data[, tag_filter]) same filter forms; input as list, tuple,
    iterator, generator, io.StringIO, text file, deque, lines without newline A + B + C + trace
  reverse(db) module function (dict of set / frozenset, foreign dicts)      A (builder) + trace (fn reverse)
  output(db) module function, DB.dump(), DB.dump_reverse() / dumpReverse()  A + C (dump_read) + trace
  relevance_index_function / relevanceIndexFunction (positional / keyword)  A + trace (rel)
  DB.reverse, copy, reverse_copy / reverseCopy                              A + C + trace
  choose_packages(_copy) / choosePackages(Copy): list, tuple, iterator,
    generator, set, dict keys; package_iter=                                A + C + trace
  filter_packages(_copy), filter_packages_tags(_copy), filter_tags(_copy) and
    aliases; predicate by position / keyword (filter_data= for the _copy form) A + C + trace
  facet_collection / facetCollection                                        A + C + trace (package -> tags map)
  has_package, has_tag, tags_of_package, packages_of_tag, tags_of_packages,
    packages_of_tags, package_count, tag_count, iter_packages, iter_tags,
    iter_packages_tags, iter_tags_packages, ideal_tagset + camelCase aliases A + trace
  card, discriminance (no alias), correlations() (generator)                A + trace
  DB.db / DB.rdb (public attributes)                                        projection of every object
  insert, qwrite, qread, pickle / deepcopy of DB                            C20
  copy.copy(DB), ==, len, in, iter on DB                                    not defined by DB / out of domain
  bytes lines / binary files as input                                       out of domain (Iterator[Text]: parse_tags applies a str pattern)

findings (KNOWN below): X12-choose-copy-shares.  Notes reported in the evidence (unspecified, not alarms):
          packages_of_tags / tags_of_packages unite although documented as "all"; correlations() divides by zero
          when a tag is carried by every package.
"""
import json
import os
import random
import shutil
import time
from fractions import Fraction

import core
import debtags_x12 as DX

MANIFEST = None
LEVEL = "model_checking"

EXTRA = dict(
    title="debtags query and I/O layer as relation algebra: readers, writers, derivations, queries, sharing of set objects",
    statement=(
        "A debtags collection is a pair of maps (package -> tags, tag -> packages): the readers (parse_tags, read_tag_database, "
        "read_tag_database_reversed, read_tag_database_both_ways with tag_filter, DB.read) build the relation named by the text "
        "(every package on one data line, any spelling of the line) and its converse, and every query (has_*, tags_of_package(s), "
        "packages_of_tag(s), card, discriminance, counts, iter_*, ideal_tagset, correlations, relevance_index_function) and every "
        "derivation (reverse, copy, reverse_copy, choose_packages, filter_packages, filter_packages_tags, filter_tags, their _copy "
        "forms, facet_collection, module reverse) is the relation-algebra function of those two maps given in spec/TagRel.tla; "
        "output / dump / dump_reverse print every key and value exactly once as `key: v1, v2` lines and that text reads back to "
        "the same map. Every derivation returns a new collection and leaves the receiver and all other live collections "
        "untouched; when a caller mutates a set it was handed only that set of that collection changes, collections connected "
        "through derivations documented as sharing become unspecified, and receiver and result of every copy / *_copy form stay "
        "independent. Unspecified: a package on two lines, tags_of_packages / packages_of_tags of several differing sets "
        "(docstring 'all' vs. union in the code: both accepted, also inside ideal_tagset), correlations when a tag covers every "
        "package, choose_packages_copy of an absent package, the tag -> packages map of facet_collection (C20-insert-chars)."),
    technique=(
        "TLA+ specs TagRel (pure relation algebra with exact rational arithmetic), TagQuery (two-layer history model: reference "
        "values / tracking / sharing classes over an implementation layer of dictionaries and aliased set objects; invariants "
        "Refines, ClassSound, LawsHold; 3 spec-level negative controls) and TagCases (exhaustive answer tables over small "
        "universes with multiplicity blow-up) model-checked by TLC; tables, read cases and the emitted LTS replayed into "
        "debian.debtags through rotating entry points, input forms, spellings and stressed names; recorded multi-object "
        "histories validated by TLC (TraceTagQuery) with corrupted control traces."))

K_CCS = "X12-choose-copy-shares"
KNOWN = [
    dict(id=K_CCS,
         signature="DB.choose_packages_copy stores the receiver's own tag sets (db[pkg] = self.db[pkg] without .copy(), unlike "
                   "filter_packages_copy): e.g. d.read(['p: a::x\\n']); c = d.choose_packages_copy(['p']); "
                   "c.tags_of_package('p').add('zz') also changes d.tags_of_package('p') (expected: 'with a copy of the tagsets "
                   "of this one', d untouched)"),
]
KNOWN_IDS = {k["id"] for k in KNOWN}

NEG_CONTROLS = [("MC_TagQuery_neg_ccs.cfg", "ClassSound"), ("MC_TagQuery_neg_ccs2.cfg", "Refines"), ("MC_TagQuery_neg_rev.cfg", "LawsHold")]


def _D():
    from debian import debtags
    DX.quiet()
    return debtags


def lib_exc(ex):
    """an exception whose innermost frame lies in the library is an observation about the library"""
    return core.raised_by_code_under_test(ex)


def _read_tagged(path, tag):
    """the payloads of the <<"TAG", "json">> lines of a TLC run, SORTED (TLC workers print in any order; the
    per-case seeds and the choice of paths must not depend on it)"""
    pre = '<<"%s", "' % tag
    lines = []
    with open(path, errors="replace") as f:
        for line in f:
            if line.startswith(pre):
                lines.append(line)
    lines.sort()
    return [json.loads(line[len(pre):-4].replace('\\"', '"').replace("\\\\", "\\")) for line in lines]


def read_cases(path):
    return _read_tagged(path, "CASE")


def read_edges(path):
    return _read_tagged(path, "EDGE")


def jmap(m):
    """a TLC map printed by ToJson ({} is printed as [])"""
    return {} if isinstance(m, list) else {k: frozenset(v) for k, v in m.items()}


def close(v, n, d):
    x = n / d
    return abs(v - x) <= 1e-12 * max(1.0, abs(x))


# ====================================================================== (A) tables

class Fail(Exception):
    """a divergence between the library and TLC's expectation"""


def build_collection(rng, D, nm, case, inputs):
    """the collection of a table CASE in the real library -> (db, how)"""
    mult = case["mult"]
    lines = []
    for ln in case["lines"]:
        tags = [nm.real(t) for t in ln["tags"]]
        clones = [nm.clone(ln["pkgs"][0], i) for i in range(mult)]
        rng.shuffle(clones)
        if mult == 1 or rng.random() < 0.5:
            lines.append((clones, tags))
        else:
            cut = rng.randrange(1, mult)
            lines.append((clones[:cut], tags))
            lines.append((clones[cut:], list(reversed(tags))))
    rng.shuffle(lines)
    text = DX.spell_text(rng, lines, plain=rng.random() < 0.2)
    how = rng.choice(["read", "read", "fn_both", "fn_fwd"])
    db = D.DB()
    if how == "read":
        a, kw = DX.tag_filter_for(rng, ())
        db.read(inputs.form(rng, text), *a, **kw)
    elif how == "fn_both":
        a, kw = DX.tag_filter_for(rng, ())
        fn = D.read_tag_database_both_ways if rng.random() < 0.6 else D.readTagDatabaseBothWays
        db.db, db.rdb = fn(inputs.form(rng, text), *a, **kw)
    else:
        fn = D.read_tag_database if rng.random() < 0.6 else D.readTagDatabase
        db.db = fn(inputs.form(rng, text))
        db.rdb = D.reverse(db.db)
    if case["var"] == "rev":
        op = rng.choice(["reverse", "reverse_copy"])
        db = DX.derive(rng, D, db, op)
        how += "+" + op
    return db, how


class TableRun(object):
    def __init__(self, D, case, seed):
        self.D, self.case, self.seed = D, case, seed
        self.rng = random.Random("table-%s" % seed)
        self.stress = self.rng.choice([0, 0, 1, 1, 2])
        self.nm = DX.Namer(self.rng, self.stress)
        self.mult = case["mult"]
        self.pk = set(case["pk"]) if case["var"] == "plain" else set()
        self.n = 0
        self.unspec = 0
        self.ops = {}

    # abstract <-> real
    def ex(self, a):
        return [self.nm.clone(a, i) for i in range(self.mult)] if a in self.pk else [self.nm.real(a)]

    def exset(self, names):
        return frozenset(x for a in names for x in self.ex(a))

    def exmap(self, m):
        return {k2: self.exset(v) for k, v in jmap(m).items() for k2 in self.ex(k)}

    def one(self, a):
        return self.rng.choice(self.ex(a))

    def some(self, a):
        xs = self.ex(a)
        return self.rng.sample(xs, self.rng.randrange(1, len(xs) + 1))

    def count(self, op):
        self.n += 1
        self.ops[op] = self.ops.get(op, 0) + 1

    def check_proj(self, db, f, b, what, tk="full"):
        try:
            rf, rb = DX.project(db)
        except TypeError as ex:
            raise Fail("%s: %s" % (what, ex))
        if rf != f:
            raise Fail("%s: package -> tags map is %s, the specification says %s" % (what, show(rf), show(f)))
        if tk == "full" and rb != b:
            raise Fail("%s: tag -> packages map is %s, the specification says %s" % (what, show(rb), show(b)))

    def entries_ok(self, ents, m):
        keys = [k for k, _ in ents]
        return len(keys) == len(set(keys)) == len(m) and set(keys) == set(m) and all(len(v) == len(set(v)) and frozenset(v) == m[k] for k, v in ents)

    def run(self):
        D, rng, case, t = self.D, self.rng, self.case, self.case["t"]
        inputs = DX.Inputs()
        try:
            db, how = build_collection(rng, D, self.nm, case, inputs)
            self.how = how
            f, b = self.exmap(case["f"]), self.exmap(case["b"])
            self.check_proj(db, f, b, "after building (%s)" % how)
            names = case["pk"] + case["tg"] + [case["extra"]]
            qs = []
            for a in names:
                qs += [("has_package", a), ("has_tag", a), ("tags_of_package", a), ("packages_of_tag", a), ("card", a), ("discriminance", a)]
            rng.shuffle(qs)
            for op, a in qs + qs[:6]:                      # some repeated
                x = self.one(a)
                fresh = (op == "tags_of_package" and a not in t["hasp"]) or (op == "packages_of_tag" and a not in t["hast"])
                tag, v = DX.ask(rng, D, db, op, [x], spoil="\x00scribble" if fresh else None)
                self.count(op)
                if op == "has_package":
                    exp = ("bool", a in t["hasp"])
                elif op == "has_tag":
                    exp = ("bool", a in t["hast"])
                elif op == "tags_of_package":
                    exp = ("set", sorted(self.exset(t["tagsof"][a])))
                elif op == "packages_of_tag":
                    exp = ("set", sorted(self.exset(t["pkgsof"][a])))
                elif op == "card":
                    exp = ("int", t["card"][a])
                else:
                    exp = ("int", t["discr"][a])
                if (tag, v) != exp:
                    raise Fail("%s(%r) = %s %s, the specification says %s %s" % (op, x, tag, brief(v), exp[0], brief(exp[1])))
            for op, exp in (("package_count", t["pcount"]), ("tag_count", t["tcount"])):
                for _ in range(2):
                    r = DX.ask(rng, D, db, op)
                    self.count(op)
                    if r != ("int", exp):
                        raise Fail("%s() = %s, the specification says %d" % (op, brief(r), exp))
            for op, m in (("iter_packages", f), ("iter_tags", b)):
                tag, ks = DX.ask(rng, D, db, op)
                self.count(op)
                if tag != "keys" or len(ks) != len(set(ks)) or set(ks) != set(m):
                    raise Fail("%s() lists %s, the specification says every key of %s once" % (op, brief(ks), brief(sorted(m))))
            for op, m in (("iter_packages_tags", f), ("iter_tags_packages", b), ("dump", f), ("dump_reverse", b)):
                tag, ents = DX.ask(rng, D, db, op)
                self.count(op)
                if tag != "entries" or not self.entries_ok(ents, m):
                    raise Fail("%s() gives %s, the specification says one entry per key of %s" % (op, brief(ents), show(m)))
            for rec in t["comb"]:
                for op, ku, ki in (("tags_of_packages", "fu", "fi"), ("packages_of_tags", "bu", "bi")):
                    s = [x for a in rec["s"] for x in self.some(a)]
                    rng.shuffle(s)
                    tag, v = DX.ask(rng, D, db, op, s, spoil="\x00scribble")
                    self.count(op)
                    eu, ei = sorted(self.exset(rec[ku])), sorted(self.exset(rec[ki]))
                    if tag != "set" or (v != eu and v != ei):
                        raise Fail("%s(%r) = %s %s, the specification says %s (union) or %s (documented 'all')" % (op, s, tag, brief(v), brief(eu), brief(ei)))
                    if eu != ei:
                        self.unspec += 1
            for rec in t["ideal"]:
                ts = [self.nm.real(a) for a in rec["ts"]]
                tag, v = DX.ask(rng, D, db, "ideal_tagset", ts, spoil="\x00scribble")
                self.count("ideal_tagset")
                eu, ei = sorted(self.exset(rec["u"])), sorted(self.exset(rec["i"]))
                if tag != "set" or (v != eu and v != ei):
                    raise Fail("ideal_tagset(%r) = %s %s on cardinalities x %d, the specification says %s (packages_of_tags as union) or %s (as documented)"
                               % (ts, tag, brief(v), self.mult, brief(eu), brief(ei)))
            self.count("correlations")
            if t["corrdef"]:
                tag, rows = DX.ask(rng, D, db, "correlations")
                exp = {(self.nm.real(c["p"]), self.nm.real(c["t"])): c for c in t["corr"]}
                got = [(p, q) for p, q, _ in rows] if tag == "corr" else None
                if tag != "corr" or len(got) != len(set(got)) or set(got) != set(exp):
                    raise Fail("correlations() yields %s, the specification says the pairs %s" % (brief(rows), brief(sorted(exp))))
                for p, q, sc in rows:
                    c = exp[(p, q)]
                    if not close(sc, c["n1"] * c["d2"] - c["n2"] * c["d1"], c["d1"] * c["d2"]):
                        raise Fail("correlations(): (%r, %r) scored %r, the specification says %d/%d - %d/%d" % (p, q, sc, c["n1"], c["d1"], c["n2"], c["d2"]))
            else:
                self.unspec += 1
                try:
                    DX.ask(rng, D, db, "correlations")
                except Exception as ex:      # noqa: BLE001 -- unspecified zone: executed, any outcome accepted
                    if not lib_exc(ex):
                        raise
            subs = {}
            for rec in t["rel"]:
                key = tuple(rec["s"])
                if key not in subs:
                    subs[key] = DX.derive(rng, D, db, rng.choice(["choose", "filter_p", "filter_p_copy"]), [x for a in rec["s"] for x in self.ex(a)])
                tag, v = DX.relevance(rng, D, db, subs[key], self.nm.real(rec["t"]))
                self.count("relevance")
                if tag != "float" or not close(v, rec["n"], rec["d"]):
                    raise Fail("relevance_index_function(full, full restricted to %r)(%r) = %r, the specification says %d/%d"
                               % (key, self.nm.real(rec["t"]), v, rec["n"], rec["d"]))
            keep = []
            for rec in t["der"]:
                c = rec["c"]
                s = [x for a in c["s"] for x in self.ex(a)]
                pred = dict(c["pred"], s=[self.nm.real(a) for a in c["pred"].get("s", [])]) if c["pred"]["k"] != "none" else None
                self.count(c["op"])
                if not rec["ok"]:
                    self.unspec += 1
                    try:
                        keep.append(DX.derive(rng, D, db, c["op"], s, pred, inputs))
                    except Exception as ex:      # noqa: BLE001 -- unspecified zone
                        if not lib_exc(ex):
                            raise
                    continue
                new = DX.derive(rng, D, db, c["op"], s, pred, inputs)
                keep.append(new)
                what = "%s(%s) of the collection" % (c["op"], brief(s) if pred is None else json.dumps(pred, ensure_ascii=False)[:200])
                if new is db or not isinstance(new, D.DB):
                    raise Fail("%s returned %s, not a new collection" % (what, "the receiver" if new is db else type(new).__name__))
                self.check_proj(new, self.exmap(rec["v"]["f"]), self.exmap(rec["v"]["b"]), what, rec["tk"])
                self.check_proj(db, f, b, "the receiver after " + what)
            self.check_proj(db, f, b, "the collection after all queries")
        except Fail:
            raise
        except Exception as ex:      # noqa: BLE001
            if not lib_exc(ex):
                raise
            import traceback
            raise Fail("unexpected %s from the library: %s" % (type(ex).__name__, " | ".join(traceback.format_exc().strip().splitlines()[-3:])))
        finally:
            inputs.close()


def show(m):
    return brief({k: sorted(v) for k, v in sorted(m.items())})


def brief(x, n=260):
    s = json.dumps(x, ensure_ascii=False, default=lambda o: sorted(o) if isinstance(o, (set, frozenset)) else repr(o))
    return s if len(s) <= n else s[:n] + "...(%d chars)" % len(s)


def describe_case(case):
    return "collection %s%s%s" % (json.dumps({ln["pkgs"][0]: ln["tags"] for ln in case["lines"]}), " reversed" if case["var"] == "rev" else "",
                                  ", every package x %d" % case["mult"] if case["mult"] > 1 else "")


def job_tables(args):
    cases, seed = args
    D = _D()
    out = {"n": 0, "unspec": 0, "ops": {}, "viol": [], "cases": 0, "sample": None}
    for i, case in enumerate(cases):
        cseed = "%s-%d" % (seed, i)
        tr = TableRun(D, case, cseed)
        try:
            tr.run()
        except Fail as ex:
            out["viol"].append(({"kind": "table", "case": case, "seed": cseed}, "%s (built by %s, name stress %d): %s" % (describe_case(case), getattr(tr, "how", "?"), tr.stress, ex)))
        out["n"] += tr.n
        out["unspec"] += tr.unspec
        out["cases"] += 1
        for k, v in tr.ops.items():
            out["ops"][k] = out["ops"].get(k, 0) + v
        if out["sample"] is None and case["mult"] > 1 and len(case["lines"]) >= 2:
            out["sample"] = "table case: %s -> card %s, ideal_tagset %s" % (describe_case(case), json.dumps(case["t"]["card"]), json.dumps(case["t"]["ideal"][5]))
        if len(out["viol"]) >= 3:
            break
    return out


# ====================================================================== (B) readers

def run_read_case(D, case, seed):
    rng = random.Random("read-%s" % seed)
    stress = rng.choice([0, 0, 1, 1, 2])
    nm = DX.Namer(rng, stress)
    lines = [([nm.real(a) for a in ln["pkgs"]], [nm.real(a) for a in ln["tags"]]) for ln in case["lines"]]
    drop = frozenset(nm.real(a) for a in case["drop"])
    real = lambda m: {nm.real(k): frozenset(nm.real(x) for x in v) for k, v in jmap(m).items()}      # noqa: E731
    inputs = DX.Inputs()
    n = 0
    try:
        for which in ("parse", "fwd", "bwd", "both", "dbread"):
            text = DX.spell_text(rng, lines, plain=rng.random() < 0.15)
            src = inputs.form(rng, text)
            n += 1
            what = "%s of %r" % (which, text)
            if which == "parse":
                got = list((D.parse_tags if rng.random() < 0.6 else D.parseTags)(src))
                exp = [(frozenset(nm.real(a) for a in p["pkgs"]), frozenset(nm.real(a) for a in p["tags"])) for p in case["parse"]]
                if not all(isinstance(x, tuple) and len(x) == 2 and isinstance(x[0], set) and isinstance(x[1], set) for x in got) \
                        or [(frozenset(a), frozenset(b)) for a, b in got] != exp:
                    return n, "parse_tags(%r) yields %s, the specification says %s" % (text, brief(got), brief(exp))
            elif which == "fwd":
                got = DX.project_map((D.read_tag_database if rng.random() < 0.6 else D.readTagDatabase)(src))
                if got != real(case["fwd"]):
                    return n, "read_tag_database(%r) = %s, the specification says %s" % (text, show(got), show(real(case["fwd"])))
                m = probe_distinct(got and (D.read_tag_database(inputs.form(rng, text))))
                if m:
                    return n, "read_tag_database(%r): %s" % (text, m)
            elif which == "bwd":
                got = DX.project_map((D.read_tag_database_reversed if rng.random() < 0.6 else D.readTagDatabaseReversed)(src))
                if got != real(case["bwd"]):
                    return n, "read_tag_database_reversed(%r) = %s, the specification says %s" % (text, show(got), show(real(case["bwd"])))
            else:
                a, kw = DX.tag_filter_for(rng, drop)
                ef, eb = real(case["both"]["f"]), real(case["both"]["b"])
                if which == "both":
                    r = (D.read_tag_database_both_ways if rng.random() < 0.6 else D.readTagDatabaseBothWays)(src, *a, **kw)
                    if not isinstance(r, tuple) or len(r) != 2:
                        return n, "read_tag_database_both_ways returned %r" % (r,)
                    gf, gb = DX.project_map(r[0]), DX.project_map(r[1])
                else:
                    db = D.DB()
                    if db.read(src, *a, **kw) is not None:
                        return n, "DB.read returned a value"
                    gf, gb = DX.project(db)
                if (gf, gb) != (ef, eb):
                    return n, "%s(%r, rejecting %s) = %s / %s, the specification says %s / %s" % (
                        "read_tag_database_both_ways" if which == "both" else "DB.read", text, brief(sorted(drop)), show(gf), show(gb), show(ef), show(eb))
        return n, None
    except TypeError as ex:
        return n, "%s: %s" % (what, ex)
    except Exception as ex:      # noqa: BLE001
        if not lib_exc(ex):
            raise
        return n, "%s: unexpected %s from the library: %s" % (what, type(ex).__name__, ex)
    finally:
        inputs.close()


def probe_distinct(d):
    """mutate-results probe: the sets stored under different keys of a reader's result are different objects"""
    if not d:
        return None
    keys = list(d)
    before = {k: set(v) for k, v in d.items()}
    for k in keys:
        d[k].add("\x00probe")
        for k2 in keys:
            if k2 != k and d[k2] != before[k2]:
                return "adding to the set of %r changed the set of %r (one set object stored under two keys)" % (k, k2)
        d[k].discard("\x00probe")
    return None


def job_reads(args):
    cases, seed = args
    D = _D()
    out = {"n": 0, "viol": [], "cases": 0}
    for i, case in enumerate(cases):
        cseed = "%s-%d" % (seed, i)
        n, msg = run_read_case(D, case, cseed)
        out["n"] += n
        out["cases"] += 1
        if msg:
            out["viol"].append(({"kind": "read", "case": case, "seed": cseed}, msg))
            if len(out["viol"]) >= 3:
                break
    return out


# ====================================================================== (C) the LTS of TagQuery, path by path

def state_key(e, side):
    if side == "from":
        return json.dumps([e["from"], e["hfrom"]], sort_keys=True)
    return json.dumps([e["to"], e["hto"]], sort_keys=True)


class Graph(object):
    def __init__(self, edges):
        self.edges = edges
        self.out = {}
        self.inits = []
        seen = set()
        for i, e in enumerate(edges):
            f = state_key(e, "from")
            self.out.setdefault(f, []).append(i)
            if e["depth"] == 0 and f not in seen:
                seen.add(f)
                self.inits.append(f)
        # shortest path (edge indexes) to every state
        self.path = {f: [] for f in self.inits}
        todo = list(self.inits)
        while todo:
            nxt = []
            for f in todo:
                for i in self.out.get(f, []):
                    t = state_key(edges[i], "to")
                    if t not in self.path:
                        self.path[t] = self.path[f] + [i]
                        nxt.append(t)
            todo = nxt

    def plan(self, rng, extra):
        """paths (lists of edges) that cover every tree edge, plus `extra` random other edges"""
        covered = set()
        paths = []
        leaves = sorted(self.path.items(), key=lambda kv: -len(kv[1]))
        for t, p in leaves:
            if p and not set(p) <= covered:
                paths.append(p)
                covered.update(p)
        rest = [i for i in range(len(self.edges)) if i not in covered]
        rng.shuffle(rest)
        for i in rest[:extra]:
            paths.append(self.path[state_key(self.edges[i], "from")] + [i])
        return paths, len(covered) + min(extra, len(rest))


def slot_maps(state, hstate):
    """[(trk, f, b)] per slot as the statement says and as built"""
    objs, trk = state["objs"], state["trk"]
    h = hstate if hstate else objs
    return [(trk[i], jmap(objs[i]["f"]), jmap(objs[i]["b"]), jmap(h[i]["f"]), jmap(h[i]["b"])) for i in range(len(objs))]


def run_path(D, edges, seed, known_ids):
    """-> (steps done, None | ('viol', step, msg), known hits [(id, text)])"""
    rng = random.Random("path-%s" % seed)
    stress = rng.choice([0, 0, 1, 1, 2])
    nm = DX.Namer(rng, stress)
    inputs = DX.Inputs()
    R = lambda m: {nm.real(k): frozenset(nm.real(x) for x in v) for k, v in m.items()}      # noqa: E731
    hits = []
    graveyard = []
    try:
        first = edges[0]
        slots = [None] * len(first["from"]["objs"])
        # the initial state: slot 1 read from a text (one line per package; its value is the state's)
        f0 = jmap(first["from"]["objs"][0]["f"])
        lines = [([nm.real(k)], [nm.real(x) for x in sorted(v)]) for k, v in sorted(f0.items())]
        rng.shuffle(lines)
        slots[0] = D.DB()
        slots[0].read(inputs.form(rng, DX.spell_text(rng, lines)))
        diverged = False
        for step, e in enumerate(edges):
            c = e["call"]
            src = slots[c["src"] - 1]
            if c["act"] == "derive":
                pred = dict(c["pred"], s=[nm.real(a) for a in c["pred"].get("s", [])]) if c["pred"]["k"] != "none" else None
                new = DX.derive(rng, D, src, c["op"], [nm.real(a) for a in c["s"]], pred, inputs)
                if new is src or not isinstance(new, D.DB):
                    return step, ("viol", step, "%s returned %s" % (c["op"], "the receiver itself" if new is src else type(new).__name__)), hits
                if slots[c["dst"] - 1] is not None:
                    graveyard.append(slots[c["dst"] - 1])          # earlier objects stay alive
                slots[c["dst"] - 1] = new
                what = "slot %d = slot %d.%s(%s)" % (c["dst"], c["src"], c["op"], brief([nm.real(a) for a in c["s"]]) if pred is None else json.dumps(c["pred"]))
            elif c["act"] == "mutate":
                s = DX.handed_set(rng, src, c["side"], nm.real(c["key"]))
                DX.mutate_set(rng, s, c["how"], nm.real(c["e"]))
                what = "caller mutates (%s %r) the set handed out by slot %d for %s key %r" % (c["how"], nm.real(c["e"]), c["src"], "package" if c["side"] == "f" else "tag", nm.real(c["key"]))
            else:
                rl = [([nm.real(a) for a in ln["pkgs"]], [nm.real(a) for a in ln["tags"]]) for ln in c["lines"]]
                a, kw = DX.tag_filter_for(rng, ())
                src.read(inputs.form(rng, DX.spell_text(rng, rl)), *a, **kw)
                what = "slot %d.read(%s)" % (c["src"], brief(c["lines"]))
            exp = slot_maps(e["to"], e["hto"])
            bad = kbad = None
            for i, (tk, f, b, hf, hb) in enumerate(exp):
                if tk in ("free", "none") or slots[i] is None:
                    continue
                try:
                    rf, rb = DX.project(slots[i])
                except TypeError as ex:
                    return step, ("viol", step, "after %s: slot %d: %s" % (what, i + 1, ex)), hits
                if not diverged and (rf != R(f) or (tk == "full" and rb != R(b))):
                    bad = bad or "slot %d holds %s / %s, the specification says %s / %s" % (i + 1, show(rf), show(rb), show(R(f)), show(R(b)) if tk == "full" else "(not specified)")
                if rf != R(hf) or (tk == "full" and rb != R(hb)):
                    kbad = kbad or "slot %d holds %s / %s" % (i + 1, show(rf), show(rb))
            if diverged and kbad:
                return step, ("viol", step, "after %s (history continued after the known divergence %s): %s, the as-built model says otherwise" % (what, K_CCS, kbad)), hits
            if bad:
                if kbad is None and e["hto"] and K_CCS in known_ids:
                    hits.append((K_CCS, "after %s: %s" % (what, bad)))
                    diverged = True
                else:
                    return step, ("viol", step, "after %s: %s" % (what, bad)), hits
        return len(edges), None, hits
    except Exception as ex:      # noqa: BLE001
        if not lib_exc(ex):
            raise
        return 0, ("viol", 0, "unexpected %s from the library: %s" % (type(ex).__name__, ex)), hits
    finally:
        inputs.close()


def strip_edge(e):
    return {k: e[k] for k in ("depth", "from", "hfrom", "call", "to", "hto")}


def job_paths(args):
    paths, seed, known_ids = args
    D = _D()
    out = {"steps": 0, "paths": 0, "viol": [], "hits": []}
    for i, p in enumerate(paths):
        pseed = "%s-%d" % (seed, i)
        n, v, hits = run_path(D, p, pseed, known_ids)
        out["steps"] += n
        out["paths"] += 1
        out["hits"] += hits[:1] if len(out["hits"]) > 20 else hits
        out["nhits"] = out.get("nhits", 0) + len(hits)
        if v:
            out["viol"].append(({"kind": "path", "path": [strip_edge(e) for e in p[:v[1] + 1]], "seed": pseed}, "history of %d calls from %s: %s" % (v[1] + 1, brief(p[0]["from"]["objs"][0]["f"]), v[2])))
            if len(out["viol"]) >= 3:
                break
    return out


# ====================================================================== code -> spec: recorded histories

ASK_OPS = ["has_package", "has_tag", "tags_of_package", "packages_of_tag", "tags_of_packages", "packages_of_tags", "card", "discriminance",
           "package_count", "tag_count", "iter_packages", "iter_tags", "iter_packages_tags", "iter_tags_packages", "dump", "dump_reverse",
           "ideal_tagset", "correlations"]
DERIVE_OPS = ["reverse", "copy", "reverse_copy", "choose", "choose_copy", "filter_p", "filter_p_copy", "filter_pt", "filter_pt_copy",
              "filter_t", "filter_t_copy", "facet", "dump_read", "rdump_read"]


class Recorder(object):
    def __init__(self, seed, size):
        self.seed, self.size = seed, size
        rng = self.rng = random.Random("rec-%s-%s" % (seed, size))
        self.D = _D()
        self.stress = rng.choice([0, 1, 1, 2]) if size == "small" else rng.choice([0, 2])
        self.nm = DX.Namer(rng, self.stress)
        if size == "small":
            npk, nfac = rng.choice([2, 3, 5, 8, 12, 16]), rng.choice([1, 2, 3, 4])
        elif size == "count":
            npk, nfac = rng.choice([31, 32, 33, 99, 100, 101, 255, 256, 257]), rng.choice([2, 3, 5])
        else:
            npk, nfac = rng.choice([600, 1000]), rng.choice([2, 4])
        self.pkgs = ["n%d" % (i + 1) for i in range(npk)]
        self.tags = []
        for j in range(nfac):
            for k in range(rng.choice([1, 2, 3, 4]) if size == "small" else rng.choice([3, 6, 10])):
                self.tags.append("F:%d::n%d" % (j + 1, len(self.tags) + 1000))
        self.ft = {t: t.split("::")[0] for t in self.tags}
        self.facets = sorted(set(self.ft.values()))
        self.junk = ["n900001", "n900002", "F:99::n900003"]
        self.names = self.pkgs + self.tags + self.junk + self.facets
        for a in self.names:
            self.nm.real(a)
        self.objs = []
        self.snap = []
        self.events = []
        self.inputs = DX.Inputs()
        self.last_ask = None
        self.unspec_reads = 0

    # ---- vocabulary
    def R(self, a):
        return self.nm.real(a)

    def A(self, s):
        return self.nm.abstract(s)

    def amap(self, m):
        return {self.A(k): sorted(self.A(x) for x in v) for k, v in m.items()}

    def snapshot(self, i):
        try:
            f, b = DX.project(self.objs[i])
            return {"f": self.amap(f), "b": self.amap(b)}
        except TypeError as ex:
            return {"f": {"?bad": [repr(ex)[:80]]}, "b": {}}

    def finish(self, ev, touched=()):
        """observe every live object; obs = those that changed + the ones the call addressed"""
        obs = []
        for i in range(len(self.objs)):
            s = self.snapshot(i)
            if i >= len(self.snap):
                self.snap.append(s)
                obs.append(dict(s, o=i + 1))
            elif s != self.snap[i] or (i + 1) in touched:
                self.snap[i] = s
                obs.append(dict(s, o=i + 1))
        ev["obs"] = obs
        self.events.append(ev)

    # ---- generators
    def gen_lines(self):
        rng = self.rng
        wide = self.size != "small" or rng.random() < 0.1
        pool = list(self.pkgs)
        rng.shuffle(pool)
        use = pool[:rng.randrange(0, len(pool) + 1)] if rng.random() < 0.8 else pool
        lines = []
        i = 0
        while i < len(use):
            k = rng.choice([1, 1, 1, 2, 3]) if not wide else rng.choice([1, 2, 3, DX.boundary_count(rng, self.size == "big")])
            k = max(1, k)
            pk = use[i:i + k]
            i += k
            if rng.random() < 0.15:
                pk = pk + [rng.choice(pk)]                   # a package written twice on its line
            nt = rng.choice([0, 1, 1, 2, 3, len(self.tags)]) if rng.random() < 0.9 else rng.randrange(len(self.tags) + 1)
            tg = rng.sample(self.tags, min(nt, len(self.tags)))
            if tg and rng.random() < 0.15:
                tg = tg + [rng.choice(tg)]
            lines.append({"pkgs": pk, "tags": tg})
            if rng.random() < 0.1:
                lines.append({"pkgs": [], "tags": []})         # blank line
        if lines and use and rng.random() < 0.04:              # unspecified zone: a package on two lines
            lines.append({"pkgs": [rng.choice(use)], "tags": rng.sample(self.tags, min(1, len(self.tags)))})
            self.unspec_reads += 1
        rng.shuffle(lines)
        return lines

    def text_of(self, lines):
        return DX.spell_text(self.rng, [([self.R(a) for a in ln["pkgs"]], [self.R(a) for a in ln["tags"]]) for ln in lines], plain=self.rng.random() < 0.15)

    def gen_drop(self):
        rng = self.rng
        if rng.random() < 0.5:
            return []
        return rng.sample(self.tags + self.junk[:1], rng.randrange(0, min(4, len(self.tags)) + 1))

    def keys_of(self, i, side):
        return list(self.snap[i][side])

    def some_names(self, i, side, kmax=4):
        rng = self.rng
        ks = self.keys_of(i, side)
        pool = ks * 3 + self.names if ks else self.names
        return [rng.choice(pool) for _ in range(rng.randrange(1, kmax + 1))]

    # ---- events
    def ev_new(self):
        self.objs.append(self.D.DB())
        self.finish({"k": "new", "o": len(self.objs)})
        self.ev_read(len(self.objs) - 1)

    def ev_read(self, i):
        rng = self.rng
        lines, drop = self.gen_lines(), self.gen_drop()
        a, kw = DX.tag_filter_for(rng, [self.R(x) for x in drop])
        ev = {"k": "read", "o": i + 1, "lines": lines, "drop": drop, "exc": ""}
        try:
            r = self.objs[i].read(self.inputs.form(rng, self.text_of(lines)), *a, **kw)
            if r is not None:
                ev["exc"] = "returned %r" % (r,)
        except Exception as ex:      # noqa: BLE001
            if not lib_exc(ex):
                raise
            ev["exc"] = type(ex).__name__
        self.finish(ev, touched=[i + 1])

    def ev_derive(self, i):
        rng = self.rng
        op = rng.choice(DERIVE_OPS)
        c = {"op": op, "s": [], "pred": {"k": "none"}}
        if op in ("choose", "choose_copy", "filter_p", "filter_p_copy"):
            ks = self.keys_of(i, "f")
            if op == "choose_copy" and rng.random() < 0.85:
                c["s"] = rng.sample(ks, rng.randrange(0, len(ks) + 1)) if ks else []
            else:
                c["s"] = list(dict.fromkeys(self.some_names(i, "f", max(1, min(len(ks), 300)))))
            if op.startswith("choose") and c["s"] and rng.random() < 0.2:
                c["s"] = c["s"] + [c["s"][0]]
        elif op in ("filter_t", "filter_t_copy"):
            ks = self.keys_of(i, "b")
            c["s"] = list(dict.fromkeys(self.some_names(i, "b", max(1, len(ks)))))
        elif op in ("filter_pt", "filter_pt_copy"):
            vals = sorted({x for v in self.snap[i]["f"].values() for x in v}) or self.tags
            k = rng.choice(["has", "hasnt", "sup", "pkgin", "atleast"])
            if k in ("has", "hasnt"):
                c["pred"] = {"k": k, "s": [rng.choice(vals + self.junk[:1])], "n": 0}
            elif k == "sup":
                c["pred"] = {"k": k, "s": rng.sample(vals, min(len(vals), rng.choice([0, 1, 2, 2, 3]))), "n": 0}
            elif k == "pkgin":
                c["pred"] = {"k": k, "s": list(dict.fromkeys(self.some_names(i, "f", 5))), "n": 0}
            else:
                c["pred"] = {"k": k, "s": [], "n": rng.choice([0, 1, 2, 3])}
        pred = dict(c["pred"], s=[self.R(a) for a in c["pred"].get("s", [])]) if c["pred"]["k"] != "none" else None
        ev = {"k": "derive", "o": i + 1, "n": 0, "c": c, "exc": ""}
        try:
            new = DX.derive(rng, self.D, self.objs[i], op, [self.R(a) for a in c["s"]], pred, self.inputs)
            if not isinstance(new, self.D.DB) or any(new is o for o in self.objs):
                ev["exc"] = "returned %s" % ("an existing object" if isinstance(new, self.D.DB) else type(new).__name__)
            else:
                self.objs.append(new)
                ev["n"] = len(self.objs)
        except Exception as ex:      # noqa: BLE001
            if not lib_exc(ex):
                raise
            ev["exc"] = type(ex).__name__
        self.finish(ev, touched=[i + 1, ev["n"]])

    def ev_ask(self, i, repeat=None):
        rng = self.rng
        npk = len(self.snap[i]["f"])
        if repeat:
            op, s = repeat
        else:
            op = rng.choice(ASK_OPS)
            s = []
            if op in DX.ONE_NAME:
                side = "f" if op in ("has_package", "tags_of_package") else "b"
                s = self.some_names(i, side, 1)
            elif op == "tags_of_packages":
                s = self.some_names(i, "f", 4) if rng.random() < 0.97 else []
            elif op == "packages_of_tags":
                s = self.some_names(i, "b", 4) if rng.random() < 0.97 else []
            elif op == "ideal_tagset":
                if npk > 900:
                    op, s = "tag_count", []
                else:
                    ks = self.keys_of(i, "b")
                    s = [rng.choice(ks * 4 + self.tags + self.junk) for _ in range(rng.choice([0, 1, 2, 3, 4, 6]))]
            elif op == "correlations" and (npk > 150 or len(self.snap[i]["b"]) > 40):
                op = "package_count"
        q = {"op": op, "s": s}
        ev = {"k": "ask", "o": i + 1, "q": q}
        spoil = None
        if op in ("tags_of_packages", "packages_of_tags", "ideal_tagset") \
                or (op == "tags_of_package" and s[0] not in self.snap[i]["f"]) or (op == "packages_of_tag" and s[0] not in self.snap[i]["b"]):
            spoil = self.R(rng.choice(self.names))      # the caller scribbles into an answer that must be a new set
        try:
            tag, v = DX.ask(rng, self.D, self.objs[i], op, [self.R(a) for a in s], spoil=spoil)
            if tag == "set":
                v = sorted(self.A(x) for x in v)
            elif tag == "keys":
                v = [self.A(x) for x in v]
            elif tag == "entries":
                v = [{"k": self.A(k), "v": [self.A(x) for x in vs]} for k, vs in v]
            elif tag == "corr":
                rows = []
                bound = max(1, npk) ** 2
                for p, t, sc in v:
                    fr = Fraction(sc).limit_denominator(bound)
                    rows.append({"p": self.A(p), "t": self.A(t), "num": fr.numerator, "den": fr.denominator})
                v = rows
            ev["res"] = {"t": tag, "x": v}
        except Exception as ex:      # noqa: BLE001
            if not lib_exc(ex):
                raise
            ev["res"] = {"t": "exc", "x": type(ex).__name__}
        self.last_ask = (i, op, s)
        self.finish(ev)

    def ev_rel(self):
        rng = self.rng
        cand = [i for i in range(len(self.objs)) if len(self.snap[i]["f"]) <= 1000]
        if not cand:
            return
        i, j = rng.choice(cand), rng.choice(cand)
        ks = self.keys_of(i, "b")
        t = rng.choice(ks * 5 + self.tags + self.junk) if ks else rng.choice(self.tags)
        ev = {"k": "rel", "o": i + 1, "o2": j + 1, "q": {"op": "relevance", "s": [t]}}
        try:
            tag, v = DX.relevance(rng, self.D, self.objs[i], self.objs[j], self.R(t))
            if tag == "float":
                fr = Fraction(v).limit_denominator(1000)
                ev["res"] = {"t": "rat", "num": fr.numerator, "den": fr.denominator}
            else:
                ev["res"] = {"t": "other", "num": 0, "den": 1}
        except Exception as ex:      # noqa: BLE001
            if not lib_exc(ex):
                raise
            ev["res"] = {"t": "exc", "num": 0, "den": 1, "x": type(ex).__name__}
        self.finish(ev)

    def ev_mut(self, i):
        rng = self.rng
        side = rng.choice(["f", "b"])
        ks = self.keys_of(i, side)
        key = rng.choice(ks) if ks and rng.random() < 0.85 else rng.choice(self.names)
        cur = self.snap[i][side].get(key, [])
        how = rng.choice(["add", "add", "discard", "clear"])
        if how == "discard" and cur and rng.random() < 0.8:
            e = rng.choice(cur)
        else:
            e = rng.choice(self.names)
        s = DX.handed_set(rng, self.objs[i], side, self.R(key))
        DX.mutate_set(rng, s, how, self.R(e))
        self.finish({"k": "mut", "o": i + 1, "side": side, "key": key, "how": how, "e": e}, touched=[i + 1])

    def ev_fn(self):
        rng = self.rng
        D = self.D
        op = rng.choice(["parse", "read_fwd", "read_bwd", "read_both", "reverse", "output"])
        ev = {"k": "fn", "op": op, "lines": [], "drop": [], "m": {}, "res": []}
        try:
            if op in ("parse", "read_fwd", "read_bwd", "read_both"):
                lines = ev["lines"] = self.gen_lines()
                src = self.inputs.form(rng, self.text_of(lines))
                if op == "parse":
                    got = list((D.parse_tags if rng.random() < 0.6 else D.parseTags)(src))
                    ev["res"] = [{"pkgs": sorted(self.A(x) for x in p), "tags": sorted(self.A(x) for x in t)} for p, t in got]
                elif op == "read_fwd":
                    ev["res"] = self.amap(DX.project_map((D.read_tag_database if rng.random() < 0.6 else D.readTagDatabase)(src)))
                elif op == "read_bwd":
                    ev["res"] = self.amap(DX.project_map((D.read_tag_database_reversed if rng.random() < 0.6 else D.readTagDatabaseReversed)(src)))
                else:
                    drop = ev["drop"] = self.gen_drop()
                    a, kw = DX.tag_filter_for(rng, [self.R(x) for x in drop])
                    r = (D.read_tag_database_both_ways if rng.random() < 0.6 else D.readTagDatabaseBothWays)(src, *a, **kw)
                    ev["res"] = {"f": self.amap(DX.project_map(r[0])), "b": self.amap(DX.project_map(r[1]))}
            else:
                if self.objs and rng.random() < 0.5:
                    o = rng.choice(self.objs)
                    real = o.db if rng.random() < 0.5 else o.rdb
                    m = self.amap(DX.project_map(real))
                else:
                    m = {}
                    for k in rng.sample(self.names, rng.randrange(0, min(len(self.names), 12) + 1)):
                        m[k] = sorted(set(rng.sample(self.names, rng.randrange(0, min(len(self.names), 5) + 1))))
                    mk = rng.choice([set, frozenset])
                    real = {self.R(k): mk(self.R(x) for x in v) for k, v in m.items()}
                ev["m"] = m
                if op == "reverse":
                    ev["res"] = self.amap(DX.project_map(D.reverse(real)))
                else:
                    text, r = DX.capture(D.output, real)
                    ents, faithful = DX.lex_output(text)
                    if r is not None or not faithful:
                        ev["res"] = [{"k": "?unfaithful", "v": [repr(text)[:200]]}]
                    else:
                        ev["res"] = [{"k": self.A(k), "v": [self.A(x) for x in vs]} for k, vs in ents]
        except TypeError as ex:
            ev["res"] = self.bad_fn(op, "?bad " + repr(ex)[:100])
        except Exception as ex:      # noqa: BLE001
            if not lib_exc(ex):
                raise
            ev["res"] = self.bad_fn(op, "?exc " + type(ex).__name__)
        self.finish(ev)

    @staticmethod
    def bad_fn(op, why):
        """a result of the right SHAPE that no specification value equals"""
        if op == "parse":
            return [{"pkgs": [why], "tags": []}] * 99
        if op == "output":
            return [{"k": why, "v": []}] * 99
        if op == "read_both":
            return {"f": {why: []}, "b": {}}
        return {why: [why]}

    def run(self):
        rng = self.rng
        try:
            self.ev_new()
            nops = {"small": rng.choice([15, 25, 40]), "count": rng.choice([12, 20]), "big": 8}[self.size]
            for _ in range(nops):
                r = rng.random()
                i = rng.randrange(len(self.objs))
                if r < 0.06 and len(self.objs) < 12:
                    self.ev_new()
                elif r < 0.10:
                    self.ev_read(i)
                elif r < 0.36 and len(self.objs) < 40:
                    self.ev_derive(i)
                elif r < 0.70:
                    self.ev_ask(i)
                elif r < 0.76 and self.last_ask:
                    self.ev_ask(self.last_ask[0], (self.last_ask[1], self.last_ask[2]))      # the same question again
                elif r < 0.88:
                    self.ev_mut(i)
                elif r < 0.93:
                    self.ev_rel()
                else:
                    self.ev_fn()
        finally:
            self.inputs.close()
        return {"ft": self.ft, "events": self.events, "tame": self.unspec_reads == 0}

    def describe(self, at):
        if at >= len(self.events):
            return "(end of history)"
        e = dict(self.events[at])
        obs = e.pop("obs")
        rn = lambda a: self.R(a) if a in self.nm.fwd else a         # noqa: E731

        def deep(x):
            if isinstance(x, str):
                return rn(x)
            if isinstance(x, list):
                return [deep(y) for y in x]
            if isinstance(x, dict):
                return {(rn(k) if k in self.nm.fwd else k): deep(v) for k, v in x.items()}
            return x
        return "event %d: %s; objects observed after it: %s" % (at + 1, brief(deep(e), 900), brief(deep(obs), 900))


def job_record(args):
    seed, size = args
    rec = Recorder(seed, size)
    tr = rec.run()
    return tr


# ---- corrupted control traces

def corrupt(t, how):
    import copy
    evs = t["events"]
    if not t.get("tame"):
        return None          # a history that entered an unspecified zone: its objects may be untracked
    for i, e in enumerate(evs):
        c = None
        if e["k"] == "mut" or (e["k"] == "derive" and (e["c"]["op"] == "facet" or e["exc"])) or (e["k"] == "read" and e["exc"]):
            return None      # later objects may be unspecified (sharing, fwd-only tracking): a corruption there could go unnoticed
        if how == "bool" and e["k"] == "ask" and e["res"]["t"] == "bool":
            c = dict(e, res={"t": "bool", "x": not e["res"]["x"]})
        elif how == "int" and e["k"] == "ask" and e["res"]["t"] == "int":
            c = dict(e, res={"t": "int", "x": e["res"]["x"] + 1})
        elif how == "set" and e["k"] == "ask" and e["res"]["t"] == "set" and e["q"]["op"] in ("tags_of_package", "packages_of_tag"):
            x = e["res"]["x"]
            c = dict(e, res={"t": "set", "x": x[1:] if x else ["n900001"]})
        elif how == "dup-entry" and e["k"] == "ask" and e["res"]["t"] == "entries" and e["res"]["x"]:
            c = dict(e, res={"t": "entries", "x": e["res"]["x"] + e["res"]["x"][:1]})
        elif how == "derive-value" and e["k"] == "derive" and e["n"] and e["c"]["op"] not in ("facet",):
            obs = copy.deepcopy(e["obs"])
            o = next((x for x in obs if x["o"] == e["n"]), None)
            if o is not None:
                if o["f"]:
                    o["f"].pop(sorted(o["f"])[0])
                else:
                    o["f"]["n900001"] = []
                c = dict(e, obs=obs)
        elif how == "receiver-changed" and e["k"] == "derive" and e["n"] and e["c"]["op"].endswith("copy"):
            obs = copy.deepcopy(e["obs"])
            o = next((x for x in obs if x["o"] == e["o"]), None)
            if o is not None and not (i and evs[i - 1].get("k") == "never"):
                o["f"]["n900002"] = ["n900001"]
                c = dict(e, obs=obs)
        elif how == "fn" and e["k"] == "fn" and e["op"] == "read_fwd" and isinstance(e["res"], dict) and e["res"]:
            r = dict(e["res"])
            k = sorted(r)[0]
            r[k] = r[k] + ["n900002"]
            c = dict(e, res=r)
        elif how == "count" and e["k"] == "ask" and e["q"]["op"] == "package_count" and e["res"]["t"] == "int":
            c = dict(e, res={"t": "int", "x": e["res"]["x"] + 2})
        if c is not None:
            return {"ft": t["ft"], "events": evs[:i] + [c]}
    return None


HOWS = ["bool", "int", "set", "dup-entry", "derive-value", "receiver-changed", "fn", "count"]

_L1 = [{"pkgs": ["n1"], "tags": ["F:1::n2"]}]
STATIC_CONTROLS = [
    # the copy leaks: after choose_packages_copy, mutating the copy's set also changes the receiver
    {"ft": {"F:1::n2": "F:1"}, "events": [
        {"k": "new", "o": 1, "obs": [{"o": 1, "f": {}, "b": {}}]},
        {"k": "read", "o": 1, "lines": _L1, "drop": [], "exc": "", "obs": [{"o": 1, "f": {"n1": ["F:1::n2"]}, "b": {"F:1::n2": ["n1"]}}]},
        {"k": "derive", "o": 1, "n": 2, "c": {"op": "filter_p_copy", "s": ["n1"], "pred": {"k": "none"}}, "exc": "",
         "obs": [{"o": 1, "f": {"n1": ["F:1::n2"]}, "b": {"F:1::n2": ["n1"]}}, {"o": 2, "f": {"n1": ["F:1::n2"]}, "b": {"F:1::n2": ["n1"]}}]},
        {"k": "mut", "o": 2, "side": "f", "key": "n1", "how": "add", "e": "n9",
         "obs": [{"o": 1, "f": {"n1": ["F:1::n2", "n9"]}, "b": {"F:1::n2": ["n1"]}}, {"o": 2, "f": {"n1": ["F:1::n2", "n9"]}, "b": {"F:1::n2": ["n1"]}}]}]},
    # a wrong converse
    {"ft": {}, "events": [{"k": "fn", "op": "reverse", "lines": [], "drop": [], "m": {"n1": ["n2", "n3"]}, "res": {"n2": ["n1"]}, "obs": []}]},
]


def validate(ctx, traces, with_controls=True, known_ids=None):
    known_ids = KNOWN_IDS if known_ids is None else known_ids
    controls = []
    if with_controls:
        controls += STATIC_CONTROLS
        for how in HOWS:
            for t in traces:
                c = corrupt(t, how)
                if c:
                    controls.append(c)
                    break
    env = {"TRACE_DIAG": "0", "KNOWN_CCS": "1" if K_CCS in known_ids else "0"}
    acc, _, r = core.validate_traces(ctx, "TraceTagQuery", "TraceTagQuery.cfg", traces, extra_env=env, controls=controls)
    notes = [tuple(x) for x in r.printed.get("REJECT", []) if x[0] <= len(traces)]
    rejected = [i for i in range(1, len(traces) + 1) if i not in acc]
    info = {}
    if rejected:
        sub = [traces[i - 1] for i in rejected[:8]]
        _, prog, _ = core.validate_traces(ctx, "TraceTagQuery", "TraceTagQuery.cfg", sub, extra_env=dict(env, TRACE_DIAG="1"))
        for j, i in enumerate(rejected[:8]):
            info[i] = prog.get(j + 1, 0)
    return rejected, info, notes, len(controls)


# ====================================================================== the check

def chunks(xs, n):
    k = max(1, (len(xs) + n - 1) // n)
    return [xs[i:i + k] for i in range(0, len(xs), k)]


def run(ctx):
    quick = ctx.tier == "quick"
    rng = ctx.rng
    ctx.import_repo()
    tm = ctx.extra.setdefault("phase_wall_s", {})
    t0 = time.time()
    ctx.assumptions += [
        "model scope: tables over 3 packages x %d tags (every collection, plain / reversed / multiplicity %s); read cases of <= %d lines; "
        "object histories over 2 slots, %s" % (2 if quick else 3, "1, 5" if quick else "1, 5, 7", 2 if quick else 3,
                                                "<= 2 derivations / reads + 1 caller mutation" if quick else "any length with one caller mutation (closed state space)"),
        "domain: names inside the lexical domain of the format (harness/debtags_x12.py); every package on one data line; filters are total predicates given extensionally to TLC",
        "unspecified and only executed: tags_of_packages / packages_of_tags of differing sets (union and intersection both accepted, also inside ideal_tagset), "
        "correlations when a tag covers every package, choose_packages_copy of absent packages, the tag -> packages map of facet_collection (C20-insert-chars)",
        "trusted: TLC, the projection of DB.db / DB.rdb, the lexing of printed text (checked by re-rendering it exactly), float results compared with TLC's exact rationals",
    ]
    from multiprocessing import get_context
    nproc = 6 if quick else 8
    pool = get_context("fork").Pool(nproc)         # forked before any thread exists
    from concurrent.futures import ThreadPoolExecutor
    tpe = ThreadPoolExecutor(max_workers=14)
    try:
        _run(ctx, quick, rng, tm, pool, tpe)
    finally:
        pool.terminate()
        tpe.shutdown(wait=False)
    tm["total"] = round(time.time() - t0, 1)


def _run(ctx, quick, rng, tm, pool, tpe):
    known_hits = {}
    known_example = {}

    by_leg = {"lts": 0, "traces": 0}

    def hit(kid, text, n=1):
        known_hits[kid] = known_hits.get(kid, 0) + n
        known_example.setdefault(kid, text)

    # ---- code -> spec: start recording at once
    if quick:
        plan = [("small", 320), ("count", 12), ("big", 2)]
    else:
        plan = [("small", 3000), ("count", 80), ("big", 8)]
    jobs = []
    for size, n in plan:
        for _ in range(n):
            jobs.append((rng.getrandbits(40), size))
    rec_async = pool.map_async(job_record, jobs, chunksize=4 if quick else 8)

    def validate_all():
        """waits for the recorder, then validates batch by batch (parallel TLC runs)"""
        t1 = time.time()
        traces = rec_async.get()
        tm["record"] = round(time.time() - t1, 1)
        batch = 140 if quick else 400         # traces per TLC run
        fs = [(i, tpe.submit(validate, ctx, traces[i:i + batch])) for i in range(0, len(traces), batch)]
        return traces, [(i, f.result()) for i, f in fs]

    # ---- TLC: design, negative controls, emissions (threads)
    def emit(module, cfg, reader, workers):
        r = ctx.tlc_must_hold(module, cfg, workers=workers, keep_raw=True, want_tags=set())
        items = reader(r.raw_path)
        shutil.rmtree(os.path.dirname(r.raw_path), ignore_errors=True)
        if not items:
            raise core.MachineryError("%s / %s emitted nothing" % (module, cfg))
        return items, r

    def neg(cfg, prop):
        r = ctx.tlc("TagQueryMC", cfg, workers=2, count=False)
        if r.violated != prop:
            raise core.MachineryError("negative control %s: TLC reported %r, expected a violation of %s" % (cfg, r.violated, prop))
        return "%s -> %s" % (cfg, prop)

    f_tab = tpe.submit(emit, "TagCases", "MC_TagCases_quick.cfg" if quick else "MC_TagCases.cfg", read_cases, 4)
    f_read = tpe.submit(emit, "TagCases", "MC_TagCases_read_quick.cfg" if quick else "MC_TagCases_read.cfg", read_cases, 2)
    lts_cfgs = ["MC_TagQuery_emit_quick.cfg"] if quick else ["MC_TagQuery_emit.cfg", "MC_TagQuery_emit3.cfg"]      # 2 slots / 3 slots
    f_lts = [(c, tpe.submit(emit, "TagQueryMC", c, read_edges, 3)) for c in lts_cfgs]
    design_cfgs = ["MC_TagQuery_quick.cfg"] if quick else ["MC_TagQuery.cfg", "MC_TagQuery_wide.cfg"]
    f_design = [(c, tpe.submit(ctx.tlc_must_hold, "TagQueryMC", c, workers=4)) for c in design_cfgs]
    f_negs = [tpe.submit(neg, c, p) for c, p in NEG_CONTROLS]
    f_val = tpe.submit(validate_all)

    def take_viol(res_list, limit=5):
        for res in res_list:
            for case, msg in res["viol"]:
                if len(ctx.violations) < limit:
                    ctx.violation(case, msg)

    # ---- (B) readers
    t1 = time.time()
    cases, r = f_read.result()
    if not quick:
        rng.shuffle(cases)
    res = pool.map(job_reads, [(c, rng.getrandbits(40)) for c in chunks(cases, 12)])
    take_viol(res)
    n_read = sum(x["n"] for x in res)
    ctx.extra["read_cases"] = {"cases": len(cases), "calls": n_read, "tlc_wall_s": round(r.wall, 1)}
    ctx.evaluations += n_read
    for i in range(len(cases)):
        ctx.distinct.add(("read", i))
    ctx.sample("read case: " + json.dumps({k: cases[len(cases) // 2][k] for k in ("lines", "drop", "both")}, separators=(",", ":")))
    tm["reads"] = round(time.time() - t1, 1)

    # ---- (A) tables
    t1 = time.time()
    cases, r = f_tab.result()
    ncases_tlc = len(cases)
    big = [c for c in cases if c["mult"] > 50]
    if quick:                                       # the blow-ups to hundreds of packages: a sample in the quick tier
        rng.shuffle(big)
        cases = [c for c in cases if c["mult"] <= 50] + big[:10]
    cases.sort(key=lambda c: -c["mult"])            # the heavy ones first, spread over the chunks
    cases = [c for k in range(24 if quick else 64) for c in cases[k::24 if quick else 64]]
    res = pool.map(job_tables, [(c, rng.getrandbits(40)) for c in chunks(cases, 24 if quick else 64)])
    take_viol(res)
    ops = {}
    for x in res:
        for k, v in x["ops"].items():
            ops[k] = ops.get(k, 0) + v
    n_tab = sum(x["n"] for x in res)
    ctx.extra["table_cases"] = {"cases_emitted": ncases_tlc, "cases": len(cases), "calls": n_tab, "unspecified_executed": sum(x["unspec"] for x in res),
                                "tlc_wall_s": round(r.wall, 1), "calls_per_operation": ops}
    ctx.evaluations += n_tab
    for i in range(len(cases)):
        ctx.distinct.add(("table", i))
    for x in res:
        if x["sample"]:
            ctx.sample(x["sample"][:700])
            break
    tm["tables"] = round(time.time() - t1, 1)

    # ---- (C) the LTS
    t1 = time.time()
    ctx.extra["lts"] = {}
    for cfg, fut in f_lts:
        edges, r = fut.result()
        g = Graph(edges)
        paths, nedges = g.plan(rng, 6000 if quick else 10 ** 9)
        idx_paths = [[edges[i] for i in p] for p in paths]
        rng.shuffle(idx_paths)
        res = pool.map(job_paths, [(c, rng.getrandbits(40), sorted(KNOWN_IDS)) for c in chunks(idx_paths, 24 if quick else 64)])
        take_viol(res)
        for x in res:
            for kid, text in x["hits"]:
                hit(kid, text, 0)
            if x.get("nhits"):
                known_hits[K_CCS] = known_hits.get(K_CCS, 0) + x["nhits"]
                by_leg["lts"] += x["nhits"]
        per_act = {}
        for e in edges:
            k = e["call"]["act"] + (":" + e["call"]["op"] if e["call"]["act"] == "derive" else "")
            per_act[k] = per_act.get(k, 0) + 1
        nsteps = sum(x["steps"] for x in res)
        ctx.extra["lts"][cfg] = {"slots": len(edges[0]["from"]["objs"]), "states": len(g.path), "edges": len(edges), "edges_replayed_at_least_once": nedges,
                                 "paths": len(paths), "calls": nsteps, "edges_with_as_built_divergence": sum(1 for e in edges if e["hto"]),
                                 "tlc_wall_s": round(r.wall, 1), "edges_per_action": per_act}
        ctx.evaluations += nsteps
        ctx.traces += len(paths)
        for i in range(len(paths)):
            ctx.distinct.add(("path", cfg, i))
        if cfg == lts_cfgs[0]:
            e = next((x for x in edges if x["hto"] and x["call"]["act"] == "mutate"), edges[0])
            ctx.sample("lts edge (statement `to`, as built `hto`): " + json.dumps({"from": e["from"]["objs"], "call": e["call"], "to": e["to"]["objs"], "trk": e["to"]["trk"],
                                                                                  "hto": e["hto"]}, separators=(",", ":"))[:1200])
        del edges, g, paths, idx_paths
    tm["lts"] = round(time.time() - t1, 1)

    # ---- code -> spec: verdicts of the trace validation
    t1 = time.time()
    traces, vres = f_val.result()
    nrej = ncontrols = 0
    for base, (rejected, info, notes, nc) in vres:
        ncontrols += nc
        for tid, kid, l in notes:
            seed, size = jobs[base + tid - 1]
            hit(kid, "recorded history seed=%s size=%s event %d" % (seed, size, l))
            by_leg["traces"] += 1
        for i in rejected:
            nrej += 1
            if len(ctx.violations) >= 5:
                continue
            seed, size = jobs[base + i - 1]
            at = info.get(i, 0)
            rec = Recorder(seed, size)
            rec.run()
            ctx.violation({"kind": "record", "seed": seed, "size": size, "first_unexplained_event": at + 1},
                          "recorded history not explained by TagRel / TagQuery (after %d accepted events): %s" % (at, rec.describe(at)))
    tm["validate_wait"] = round(time.time() - t1, 1)
    ctx.traces += len(traces)
    ctx.evaluations += len(traces)
    for i in range(len(traces)):
        ctx.distinct.add(("trace", i))
    kinds = {}
    for t in traces:
        for e in t["events"]:
            k = e["k"] + (":" + (e.get("c", {}).get("op") or e.get("q", {}).get("op") or e.get("op", "")) if e["k"] in ("derive", "ask", "fn") else "")
            kinds[k] = kinds.get(k, 0) + 1
    ctx.extra["traces_recorded"] = len(traces)
    ctx.extra["trace_events"] = sum(len(t["events"]) for t in traces)
    ctx.extra["trace_events_per_kind"] = kinds
    ctx.extra["traces_rejected"] = nrej
    ctx.extra["control_traces"] = ncontrols
    if traces:
        ctx.sample("recorded history (first events): " + json.dumps([dict(e, obs="...") for e in traces[0]["events"][:3]], separators=(",", ":"), ensure_ascii=False)[:700])

    # ---- design runs
    ctx.extra["design"] = []
    for c, f in f_design:
        r = f.result()
        ctx.extra["design"].append({"module": "TagQueryMC", "cfg": c, "distinct": r.distinct, "generated": r.generated, "depth": r.depth,
                                    "wall_s": round(r.wall, 1), "invariants": ["TypeOK", "Refines", "ClassSound", "AliasSane", "LawsHold"]})
    ctx.extra["negative_controls_spec"] = [f.result() for f in f_negs]
    ctx.extra["known_findings"] = {k["id"]: {"occurrences": known_hits.get(k["id"], 0), "example": known_example.get(k["id"])} for k in KNOWN}
    ctx.extra["known_hits_by_leg"] = by_leg
    ctx.extra["notes"] = [
        "packages_of_tags / tags_of_packages return the UNION of the sets although their docstrings say 'all' (ideal_tagset, documented as "
        "intersecting, therefore grows its candidate set): treated as unspecified, both readings accepted",
        "correlations() raises ZeroDivisionError as soon as some tag is carried by every package and another tag exists, e.g. read(['p1: a, b\\n', 'p2: a\\n'])",
        "choose_packages_copy raises KeyError for a package the collection lacks, choose_packages skips it",
    ]
    for k in KNOWN:
        if known_hits.get(k["id"]):
            print("KNOWN-FINDING: extra=X12 %s (%d occurrences; id=%s; e.g. %s)" % (k["signature"], known_hits[k["id"]], k["id"], (known_example.get(k["id"]) or "")[:300]))


def replay(ctx, case):
    ctx.import_repo()
    D = _D()
    kind = case.get("kind")
    if kind == "table":
        tr = TableRun(D, case["case"], case["seed"])
        try:
            tr.run()
        except Fail as ex:
            return "%s: %s" % (describe_case(case["case"]), ex)
        return None
    if kind == "read":
        return run_read_case(D, case["case"], case["seed"])[1]
    if kind == "path":
        n, v, hits = run_path(D, case["path"], case["seed"], KNOWN_IDS)
        return v[2] if v else None
    if kind == "record":
        rec = Recorder(case["seed"], case["size"])
        tr = rec.run()
        rejected, info, notes, _ = validate(ctx, [tr], with_controls=False)
        if rejected:
            return "history still not explained by the specification: %s" % rec.describe(info.get(1, 0))
        return None
    return "unknown case kind"
