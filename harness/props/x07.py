"""X07 (extra) -- debian.deb822.RestrictedWrapper / RestrictedField / _ClassInitMeta / RestrictedFieldError,
as used by debian.copyright.Header / FilesParagraph / LicenseParagraph and by wrapper classes the harness defines.

STATEMENT
  A wrapper exposes the Deb822 paragraph it was given (by reference: no copy, no cache) as a mapping: item
  reads, iteration, len(), `in` and every form of dump() are those of the paragraph; item assignment and
  deletion of a field that the wrapper's class -- or a class it inherits from -- declares as RestrictedField
  raise RestrictedFieldError (a deb822.Error) and leave the paragraph unchanged, whatever the ASCII case of the
  key and whether or not the field is present; on every other field they behave exactly like the paragraph's
  own.  Every RestrictedField is an attribute: reading returns from_str(raw) (raw is None when the field is
  absent; the raw string when from_str is None); assigning v stores to_str(v) (v itself when to_str is None)
  under the declared name, keeping position and spelling of an existing field, so that reading back returns
  from_str(to_str(v)); an exception of a conversion propagates and nothing changes; v = None or to_str(v) = None
  deletes the field when allow_none and raises TypeError (nothing changed) otherwise.  Wrappers share nothing
  but the paragraph they were given: a call changes at most the addressed field of the wrapper's own
  paragraph, and what a class restricts depends on its own definition and its bases only, however many other
  classes are defined before or after it.
  Domain: field names are ASCII case variants of each other or different under str.lower(); keys are str;
  values assigned through a field without to_str are str; no str.splitlines() boundary other than newline in
  payloads handed to the line-based conversions of debian.copyright.  `del wrapper.attr`, copy.copy and
  comparison of wrappers are not specified.

spec:     spec/RestrictedWrap.tla     paragraphs (ordered case-preserving mappings) + scenario env (classes,
                                      wrappers, conversion tables); ONE pure operator Call = one action per public
                                      call: getitem setitem delitem aget aset(value / None) iter len has dump,
                                      dset ddel (the owner changes the paragraph directly)
          spec/RestrictedWrapMC.tla   closed scenarios: hdrA hdrB filA filB licA (shapes of the three classes of
                                      debian.copyright), two (3 wrappers, 2 classes, 2 paragraphs), sub (class S(P))
          spec/TraceRestrictedWrap.tla trace validation with interned payloads
model checking: every scenario, histories of any length over 3 names x 2 spellings x 3 raw values x the
          value symbols of the conversion kinds id / sl / list / obj / objn, paragraphs of <= 2 (quick) / 3
          fields: ParasOK, ConvLaw, ErrAtomic, QueriesPure, Frame, KeepsPlace, RestrictedOnlyViaAttr,
          UnrestrictedLikeDeb822, ReadBack, SetNoneDeletes, NoneRefused, ContainsAgrees.
          Spec-level negative controls, re-run in every check (each must make TLC report the named property):
          FSub -> RestrictedOnlyViaAttr, FInx -> ContainsAgrees, FShared -> UnrestrictedLikeDeb822,
          FKeepNone -> SetNoneDeletes.
binding:  spec -> code: the complete LTS TLC emits (EDGE lines with the expected result and paragraphs) is
          replayed edge by edge, state by state, into real objects: the classes of debian.copyright where the
          scenario has their shape and classes defined by the harness (through type(), types.new_class, a class
          statement; RestrictedField written positionally / by keyword / with defaults), with tame, odd-character
          and size-stressed payloads; plus random walks with long-lived wrappers.
          code -> spec: random histories over the full field tables of Header / FilesParagraph /
          LicenseParagraph, subclasses of them, harness classes and subclass chains, several wrappers over the
          same and over different paragraphs, classes defined in the middle of a history, wrappers obtained
          from Header() and Copyright(...), are recorded (every paragraph observed after every call) and
          validated by TLC (TraceRestrictedWrap) together with corrupted control traces that must be rejected.
          Size stress (notes/SIZE_STRESS.md): names / values / items of 1..8193 characters, 0..257 (1000)
          fields and list items, 1..40 live wrappers; character stress: NFC/NFD twins, case-mapping hazards as
          DIFFERENT field names, BOM / zero-width / non-BMP, every UTF-8 trailing byte.  Payloads are interned
          ids in the traces and opaque symbols in the model: verdicts are length-independent by construction.

API surface (notes/API_SURFACE.md)
  entry point / variant                                          exercised by
  RestrictedWrapper.__init__(data) positional / data=             replay + trace (attach)
  w[k], w.__getitem__, operator.getitem                           replay + trace (perform getitem)
  w[k] = v, __setitem__, operator.setitem                         replay + trace
  del w[k], __delitem__, operator.delitem                         replay + trace
  iter(w), list(w), comprehension, w.__iter__()                   replay + trace
  len(w), w.__len__(), bool(w)                                    replay + trace
  k in w, operator.contains (no __contains__: falls back to iter) replay + trace (finding X07-contains-exact-spelling)
  w.attr, property.fget, property.__get__                         replay + trace
  w.attr = v, property.fset, property.__set__, v = None           replay + trace
  dump(), dump(None), dump(fd text_mode), dump(fd bytes),
    dump(fd, encoding), keywords / positional                     replay + trace (dump_via, 8 forms)
  RestrictedField(name, from_str, to_str, allow_none) positional /
    keyword / defaults omitted                                    replay + trace (restricted_field)
  class creation: class statement, type(), types.new_class,
    subclass of a subclass, subclass of Header / FilesParagraph   replay (sub) + trace
  _ClassInitMeta._class_init(new_attrs)                           through every class definition; direct probe
  Header(), Header(data), Header(data=), FilesParagraph(data[,
    _internal_validate, strict]), LicenseParagraph(data[, ...]),
    FilesParagraph.create, LicenseParagraph.create,
    Copyright(sequence).header / all_files_paragraphs /
    all_license_paragraphs                                        replay (attach) + trace (opaque starts)
  del w.attr, copy.copy(w), w == w2, pickle                       out of domain (not documented)

findings (KNOWN): see the KNOWN list below; both are modelled as defect switches of the specification and
          every divergence they explain is counted, never hidden; any other divergence is a violation.
"""
import json
import os
import random
import time
from concurrent.futures import ThreadPoolExecutor

import core
import restricted_x07 as RX
from lts import skey

MANIFEST = None
LEVEL = "model_checking"

EXTRA = dict(
    title="RestrictedWrapper / RestrictedField: restricted, converted attribute access over a shared Deb822 paragraph",
    statement=(
        "A RestrictedWrapper exposes the Deb822 paragraph it was given (by reference, nothing cached) as a mapping: "
        "item reads, iteration, len(), `in` and every form of dump() are those of the paragraph; assigning or deleting "
        "through item access a field that the wrapper's class or one of its bases declares as RestrictedField raises "
        "RestrictedFieldError and leaves the paragraph unchanged, whatever the ASCII case of the key and whether or not "
        "the field is present, while every other field behaves exactly like the paragraph's own. Each RestrictedField is "
        "an attribute whose getter returns from_str(raw) (raw = None when absent, the raw string without from_str) and "
        "whose setter stores to_str(v) under the declared name keeping position and spelling of an existing field, so that "
        "reading back returns from_str(to_str(v)); a conversion error propagates and changes nothing; v = None or "
        "to_str(v) = None deletes the field when allow_none and raises TypeError otherwise. Wrappers share nothing but "
        "the paragraph they were given and what a class restricts depends only on its own definition and its bases."),
    technique=(
        "TLA+ spec RestrictedWrap (pure operator Call over paragraphs + scenario of classes, wrappers and conversion "
        "tables; 7 closed scenarios in RestrictedWrapMC) model-checked by TLC with 12 invariants / action properties "
        "and 4 spec-level negative controls; the complete emitted LTS replayed into the debian.copyright classes and "
        "harness-defined classes with tame / odd-character / size-stressed payloads plus random walks; recorded "
        "multi-wrapper histories validated by TLC (TraceRestrictedWrap) with corrupted control traces."))

# findings on the current tree: exactly these divergences become KNOWN-FINDING lines (printed by run())
K_SUB = "X07-subclass-forgets-restrictions"
K_INX = "X07-contains-exact-spelling"
KNOWN = [
    dict(id=K_SUB,
         signature="a subclass of a RestrictedWrapper subclass loses the restrictions of its bases: _class_init "
                   "overwrites the class's restricted set with the RestrictedFields of the class statement only, e.g. "
                   "`class H(copyright.Header): pass; H()['Format'] = 'x'` succeeds (expected RestrictedFieldError, "
                   "paragraph unchanged) while the inherited properties still work"),
    dict(id=K_INX,
         signature="`key in wrapper` is case-sensitive on the stored spelling (no __contains__: Python falls back to "
                   "__iter__): for Header(Deb822('format: x\\n')) w['Format'] works but 'Format' in w is False "
                   "(expected True, like item access and like the wrapped Deb822)"),
]
KNOWN_IDS = {k["id"] for k in KNOWN}

SCENARIOS = ["hdrA", "hdrB", "filA", "filB", "licA", "two", "sub"]
NEG_CONTROLS = [("RestrictedWrap_neg_sub.cfg", "RestrictedOnlyViaAttr"), ("RestrictedWrap_neg_inx.cfg", "ContainsAgrees"),
                ("RestrictedWrap_neg_shared.cfg", "UnrestrictedLikeDeb822"), ("RestrictedWrap_neg_keepnone.cfg", "SetNoneDeletes")]
PROPS = ["ErrAtomic", "QueriesPure", "Frame", "KeepsPlace", "RestrictedOnlyViaAttr", "UnrestrictedLikeDeb822", "ReadBack",
         "SetNoneDeletes", "NoneRefused", "ContainsAgrees"]

# scenario -> realisations with the classes of debian.copyright: (class, {model name: field})
LIBMAP = {
    "hdrA": [("Header", {1: "Upstream-Contact", 2: "Format"}), ("Header", {1: "Files-Excluded", 2: "Format"}),
             ("Header", {1: "Files-Included", 2: "Format"})],
    "hdrB": [("Header", {1: "License", 2: "Upstream-Name", 3: "Source"}), ("Header", {1: "License", 2: "Upstream-Name", 3: "Disclaimer"}),
             ("Header", {1: "License", 2: "Upstream-Name", 3: "Comment"}), ("Header", {1: "License", 2: "Upstream-Name", 3: "Copyright"})],
    "filA": [("FilesParagraph", {1: "Files", 2: "License"})],
    "filB": [("FilesParagraph", {1: "Copyright", 2: "Comment"})],
    "licA": [("LicenseParagraph", {1: "License", 2: "Files"}), ("LicenseParagraph", {1: "License", 2: "Comment"})],
}
LIBKIND = {"id": "id", "single": "sl", "LineBased": "list", "SpaceSep": "list", "License": "obj"}


class Skip(Exception):
    """a realisation that cannot be built on this tree (private helper of debian.copyright moved): drift"""


def cfg_text(which, maxlen, emit, flags=(False, False, False, False), props=True):
    t = lambda b: "TRUE" if b else "FALSE"     # noqa: E731
    out = ["CONSTANTS", "  Which = {%s}" % ", ".join('"%s"' % w for w in which), "  MaxLen = %d" % maxlen,
           "  FSub = %s" % t(flags[0]), "  FInx = %s" % t(flags[1]), "  FShared = %s" % t(flags[2]),
           "  FKeepNone = %s" % t(flags[3]), "  Emit = %s" % t(emit), "SPECIFICATION RSpec",
           "INVARIANT ParasOK", "INVARIANT ConvLaw"]
    if props:
        out += ["PROPERTY " + p for p in PROPS]
    out += ["VIEW RView", ""]
    return "\n".join(out)


def read_emission(path):
    """fast reader of the ENV / EDGE lines of a TLC run (core's generic parser is too slow for ~10^5 lines)"""
    envs, edges = [], []
    with open(path, errors="replace") as f:
        for line in f:
            if line.startswith('<<"EDGE", "'):
                edges.append(json.loads(line[11:-4].replace('\\"', '"').replace("\\\\", "\\")))
            elif line.startswith('<<"ENV", "'):
                envs.append(json.loads(line[10:-4].replace('\\"', '"').replace("\\\\", "\\")))
    return envs, edges


# ------------------------------------------------------------------ realisation of a model scenario

class Real(object):
    """maps the symbols of one scenario to real classes, field names, raw strings and values.
    mode: 'own' or an index into LIBMAP[cfg]; stress: 0 tame, 1 odd characters, 2 sizes"""

    def __init__(self, env, mode, seed, stress):
        self.env, self.mode, self.seed, self.stress = env, mode, seed, stress
        rng = self.rng = random.Random("real-%s-%s-%s-%s" % (env["id"], mode, seed, stress))
        names = list(env["names"])
        self.kind = {n: "id" for n in names}
        for c in env["classes"].values():
            for f in c["fields"]:
                self.kind[f["n"]] = f["kind"]
        self.libname = None
        self.name = {}
        if mode == "own":
            convs = RX.own_convs()
            pool = RX.NAME_POOL + [x[1] for v in RX.LIB_CLASSES.values() for x in v]
            if stress == 1:
                pool = pool + RX.HAZARD_NAMES + ["Files", "License", "Comment"]
            self.conv = {}
            libc = None
            for n in names:
                k = self.kind[n]
                self.conv[n] = convs[k]
                if k == "list" and rng.random() < 0.4:      # the library's converters on a harness class
                    try:
                        libc = libc or RX.lib_convs()
                        self.conv[n] = libc[rng.choice(["LineBased", "SpaceSep"])]
                    except AttributeError:
                        pass
            chosen = []
            if stress == 1 and len(names) >= 2 and rng.random() < 0.6:
                # case-mapping hazard: two DIFFERENT names that a casefold() / NFKC comparison would merge
                pair = rng.choice([("Files", "File\u017f"), ("License", "Licen\u017fe"), ("Strasse", "Stra\u00dfe")])
                chosen = [pair[0]] + [None] * (len(names) - 2) + [pair[1]]
                if rng.random() < 0.5:
                    chosen[0], chosen[-1] = chosen[-1], chosen[0]
            else:
                chosen = [None] * len(names)
            for i in range(len(chosen)):
                while chosen[i] is None:
                    c = rng.choice(pool)
                    if c.lower() in {x.lower() for x in chosen if x}:
                        continue
                    if stress == 2 and rng.random() < 0.5:
                        ln = rng.choice([x for x in RX.BOUNDARY if 16 <= x <= 300])
                        c = c + "-" + "x" * max(1, ln - len(c) - 1)
                    chosen[i] = c
            self.name = dict(zip(names, chosen))
        else:
            try:
                libc = RX.lib_convs()
            except AttributeError as ex:
                raise Skip("private conversion helpers of debian.copyright not found: %s" % ex)
            self.libname, fmap = LIBMAP[env["id"]][mode]
            decl = {x[1]: x for x in RX.LIB_CLASSES[self.libname]}
            self.conv = {}
            (cid, crec), = env["classes"].items()
            byn = {f["n"]: f for f in crec["fields"]}
            for n in names:
                if n in fmap:
                    attr, fname, convid, an = decl[fmap[n]]
                    f = byn[n]
                    if (LIBKIND[convid], an) != (f["kind"], f["an"]):
                        raise core.MachineryError("scenario %s does not have the shape of %s.%s" % (env["id"], self.libname, attr))
                    self.name[n] = fname
                    self.conv[n] = libc[convid]
                else:
                    if n in byn:
                        raise core.MachineryError("scenario %s: name %d has no field in %s" % (env["id"], n, self.libname))
                    pool = [x for x in RX.NAME_POOL + (RX.HAZARD_NAMES if stress == 1 else [])
                            if x.lower() not in {d.lower() for d in decl} and x not in self.name.values()]
                    c = rng.choice(pool)
                    if stress == 2:
                        ln = rng.choice([x for x in RX.BOUNDARY if 16 <= x <= 300])
                        c = c + "-" + "x" * max(1, ln - len(c) - 1)
                    self.name[n] = c
                    self.conv[n] = libc["id"]
        self.low = {RX.ascii_lower(v): n for n, v in self.name.items()}
        # payload tables
        self.raw, self.give, self.read = {}, {}, {}
        for n in names:
            self._tables(n, rng)
        self.rraw = {n: {v: s for s, v in self.raw[n].items()} for n in names}
        self._classes(rng, byn if mode != "own" else None)

    def _tables(self, n, rng):
        conv = self.conv[n]
        for attempt in range(20):
            vals = conv.values(rng, self.stress if attempt < 10 else 0)
            try:
                raw, give, read = self._derive(conv, vals)
            except ValueError as ex:
                err = str(ex)
                continue
            self.raw[n], self.give[n], self.read[n] = raw, give, read
            return
        if conv.lib:
            raise Skip("conversion %s does not follow its kind table: %s" % (conv.cid, err))
        raise core.MachineryError("harness conversion %s does not follow its kind table: %s" % (conv.cid, err))

    @staticmethod
    def _derive(conv, vals):
        k = conv.kind
        if k in ("id", "sl"):
            raw = {s: vals[s] for s in "ABX"}
            give = dict(raw)
            read = dict(raw)
            if k == "sl":
                give["f"] = vals["f"]
                for s in "ABX":
                    if conv.apply_to(vals[s]) != ("raw", vals[s]):
                        raise ValueError("to_str(%r)" % (vals[s],))
                if conv.apply_to(vals["f"]) != ("fail",):
                    raise ValueError("to_str(f) does not fail")
            return raw, give, read

        def need(cond, what):
            if not cond:
                raise ValueError(what)
        ta, ta2, tb = conv.apply_to(vals["a"]), conv.apply_to(vals["a2"]), conv.apply_to(vals["b"])
        need(ta[0] == "raw" and tb[0] == "raw" and ta == ta2, "to_str(a), to_str(a2), to_str(b) = %r %r %r" % (ta, ta2, tb))
        need(not RX.same(vals["a"], vals["a2"]), "a2 is not a twin")
        raw = {"A": ta[1], "B": tb[1], "X": vals["X"]}
        need(len(set(raw.values())) == 3, "raws not distinct")
        give = {s: vals[s] for s in ("a", "a2", "b", "e", "f") if s in vals}
        fa, fb, fx, fn = conv.apply_from(raw["A"]), conv.apply_from(raw["B"]), conv.apply_from(raw["X"]), conv.apply_from(None)
        need(fa[0] == "val" and RX.same(fa[1], vals["a"]), "from_str(A) = %r" % (fa,))
        need(fb[0] == "val" and RX.same(fb[1], vals["b"]), "from_str(B) = %r" % (fb,))
        read = {"a": vals["a"], "b": vals["b"]}
        if k == "list":
            need(fx[0] == "val" and not RX.same(fx[1], vals["a"]) and not RX.same(fx[1], vals["b"]), "from_str(X) = %r" % (fx,))
            read["x"] = fx[1]
            need(fn[0] == "val" and conv.apply_to(fn[1]) == ("none",), "from_str(None) = %r" % (fn,))
            read["e"] = fn[1]
        else:
            need(fx == ("fail",), "from_str(X) = %r" % (fx,))
            need(fn == ("val", None), "from_str(None) = %r" % (fn,))
        if "e" in give:
            need(conv.apply_to(give["e"]) == ("none",), "to_str(e)")
        if "f" in give:
            need(conv.apply_to(give["f"]) == ("fail",), "to_str(f)")
        return raw, give, read

    def _classes(self, rng, byn):
        env = self.env
        self.cls, self.attr = {}, {}
        if self.mode != "own":
            (cid, crec), = env["classes"].items()
            self.cls[cid] = RX.lib_class(self.libname)
            decl = {x[1]: x for x in RX.LIB_CLASSES[self.libname]}
            for f in crec["fields"]:
                self.attr[(cid, f["attr"])] = decl[self.name[f["n"]]][0]
            return
        from debian.deb822 import RestrictedWrapper
        todo = dict(env["classes"])
        idents = ["files", "license_", "x_attr", "comment", "value2", "format", "source", "_Kx__hidden", "upstream_contact"]
        rng.shuffle(idents)
        if rng.random() < 0.5:       # a decoy defined BEFORE: restricts every name of the scenario
            RX.make_class(rng, (RestrictedWrapper,), [RX.FieldSpec("d%d" % n, self.name[n], RX.own_convs()["id"], True) for n in env["names"]], "Decoy")
        amap = {}
        while todo:
            for cid in sorted(todo):
                crec = todo[cid]
                if crec["parent"] and crec["parent"] not in self.cls:
                    continue
                base = self.cls[crec["parent"]] if crec["parent"] else RestrictedWrapper
                specs = []
                for f in crec["fields"]:
                    if f["n"] not in crec["own"]:
                        self.attr[(cid, f["attr"])] = self.attr[(crec["parent"], f["attr"])]
                        continue
                    a = amap.setdefault(f["attr"], idents[len(amap) % len(idents)] + ("" if len(amap) < len(idents) else str(len(amap))))
                    self.attr[(cid, f["attr"])] = a
                    specs.append(RX.FieldSpec(a, self.name[f["n"]], self.conv[f["n"]], f["an"]))
                self.cls[cid] = RX.make_class(rng, (base,), specs, "T" + cid)
                del todo[cid]
                break
        # decoys defined AFTER: a sibling restricting every name, and a subclass of each class
        RX.make_class(rng, (RestrictedWrapper,), [RX.FieldSpec("d%d" % n, self.name[n], RX.own_convs()["id"], False) for n in env["names"]], "Decoy")
        for cid in list(self.cls):
            RX.make_class(rng, (self.cls[cid],), [RX.FieldSpec("extra_%d" % n, self.name[n], RX.own_convs()["id"], True)
                                                  for n in env["names"] if n not in env["classes"][cid]["all"]][:1], "DecoySub")

    # -- symbols <-> payloads
    def key(self, n, s):
        return self.name[n] if s == "C" else self.name[n].lower() if s == "L" else s

    def anykey(self, n, rng):
        return RX.ascii_swap(rng, self.name[n]) if rng.random() < 0.7 else rng.choice([self.name[n], self.name[n].lower()])

    def name_of(self, k):
        return self.low.get(RX.ascii_lower(k), 0)

    def spellsym(self, k):
        n = self.name_of(k)
        if n and k == self.name[n]:
            return "C"
        if n and k == self.name[n].lower():
            return "L"
        return "?" + k

    def rawsym(self, n, v):
        try:
            return self.rraw[n].get(v, "?%r" % (v,))
        except TypeError:
            return "?%r" % (v,)

    def valsym(self, n, v):
        if v is None:
            return "none"
        for s, r in self.read[n].items():
            if RX.same(v, r):
                return s
        return "?%r" % (v,)

    def field(self, w, a):
        cid = self.env["wrappers"][w - 1]["c"]
        f = next(f for f in self.env["classes"][cid]["fields"] if f["attr"] == a)
        return f, self.attr[(cid, a)]


class World(object):
    """live paragraphs and wrappers of one realisation"""

    def __init__(self, real, rng):
        from debian.deb822 import Deb822
        self.real = real
        env = real.env
        self.paras = [Deb822() for _ in range(env["npara"])]
        self.wrappers = [RX.attach(rng, real.cls[w["c"]], self.paras[w["p"] - 1], real.libname) for w in env["wrappers"]]

    def set_state(self, ps, rng=None):
        real = self.real
        for data, m in zip(self.paras, ps):
            for k in list(data):
                del data[k]
            for e in m:
                data[real.key(e["n"], e["s"])] = real.raw[e["n"]][e["v"]]

    def observe_para(self, p):
        real, data = self.real, self.paras[p]
        out = []
        for k in data:
            n = real.name_of(k)
            out.append({"n": n, "s": real.spellsym(k), "v": real.rawsym(n, data[k]) if n else "?"})
        return out

    def observe(self):
        return [self.observe_para(p) for p in range(len(self.paras))]

    def apply(self, c, rng):
        """perform the model call c on the real objects; result in the vocabulary of the specification"""
        real, op = self.real, c["op"]
        direct = op in ("dset", "ddel")
        p = c["p"] - 1 if direct else real.env["wrappers"][c["w"] - 1]["p"] - 1
        obj = self.paras[p] if direct else self.wrappers[c["w"] - 1]
        n = c["n"]
        key = raw = attr = val = None
        fails = ()
        if op in ("setitem", "dset", "has"):
            key = real.key(n, c["s"])
        elif op in ("getitem", "delitem", "ddel"):
            key = real.anykey(n, rng)
        if op in ("setitem", "dset"):
            raw = real.raw[n][c["v"]]
        if op in ("aget", "aset"):
            f, attr = real.field(c["w"], c["a"])
            n = f["n"]
            fails = real.conv[n].fails
            if op == "aset" and c["v"] != "none":
                val = real.give[n].get(c["v"], Ellipsis)
                if val is Ellipsis:
                    return None                       # this realisation has no such value (License cannot fail to_str)
        tag, x = RX.perform(obj, op, key=key, raw=raw, attr=attr, val=val, fails=fails, rng=rng)
        if tag == "val":
            x = real.rawsym(n, x)
        elif tag == "attr":
            x = real.valsym(n, x)
        elif tag == "keys":
            x = [real.spellsym(k) for k in x]
        elif tag == "bool":
            x = "true" if x is True else "false" if x is False else "?%r" % (x,)
        elif tag == "dump":
            mode, x = x
            ref = RX.dump_via(self.paras[p], None, mode)[1]     # the same form of dump() on the paragraph itself
            if x != ref:
                x = [{"n": 0, "s": "?dump() form %d differs from the dump of the paragraph" % mode, "v": repr(x)[:200]}]
            else:
                x = self.observe_para(p)
                vals = [self.paras[p][k] for k in self.paras[p]]
                if real.stress == 0 and all(v == v.strip() and "\n" not in v for v in vals):
                    # tame payloads: the text also parses back to the mapping
                    from debian.deb822 import Deb822
                    back = Deb822(self.paras[p].dump())
                    if [(k, back[k]) for k in back] != [(k, self.paras[p][k]) for k in self.paras[p]]:
                        x = [{"n": 0, "s": "?dump() does not parse back", "v": repr(ref)[:200]}]
        return {"t": tag, "x": x}


# ------------------------------------------------------------------ spec -> code: replay of the emitted LTS

class Known(object):
    def __init__(self):
        self.hits = {}
        self.example = {}

    def hit(self, kid, example):
        self.hits[kid] = self.hits.get(kid, 0) + 1
        self.example.setdefault(kid, example)


def known_id(edge):
    return K_INX if edge["call"]["op"] == "has" else K_SUB


def compare(world, edge, res, obs):
    """-> None (as the statement says) | ('known', id) | ('viol', message)"""
    if res == edge["res"] and obs == edge["to"]:
        return None
    if (edge["kres"], edge["kto"]) != (edge["res"], edge["to"]) and res == edge["kres"] and obs == edge["kto"]:
        kid = known_id(edge)
        if kid in KNOWN_IDS:
            return ("known", kid)
    return ("viol", "result %s / paragraphs %s, the specification says %s / %s" % (
        json.dumps(res, ensure_ascii=False)[:300], json.dumps(obs, ensure_ascii=False)[:300],
        json.dumps(edge["res"]), json.dumps(edge["to"])))


def describe(real, edge):
    c = edge["call"]
    bits = ["scenario %s as %s" % (real.env["id"], real.libname or "harness classes"), c["op"]]
    if c["n"]:
        bits.append("field %r" % real.key(c["n"], c["s"] or "C"))
    if c["a"]:
        f, attr = real.field(c["w"], c["a"])
        bits.append("attribute %s (field %r)" % (attr, real.name[f["n"]]))
        if c["op"] == "aset":
            bits.append("value %r" % (None if c["v"] == "none" else real.give[f["n"]].get(c["v"]),))
    elif c["v"]:
        bits.append("value %r" % (real.raw[c["n"]][c["v"]],))
    bits.append("from %s" % json.dumps([[(real.key(e["n"], e["s"]), real.raw[e["n"]][e["v"]]) for e in m] for m in edge["from"]], ensure_ascii=False)[:400])
    return ", ".join(bits)


def strip_edge(e):
    return {k: e[k] for k in ("cfg", "from", "call", "res", "to", "kres", "kto")}


def replay_state(world, edges, rng, known, fresh_every=0):
    """all edges leaving one state, on one world; returns (n_done, violation or None)"""
    real = world.real
    state = edges[0]["from"]
    world.set_state(state)
    done = 0
    for e in edges:
        try:
            res = world.apply(e["call"], rng)
            if res is None:
                continue
            obs = world.observe()
        except Exception as ex:      # noqa: BLE001
            if not core.raised_by_code_under_test(ex):
                raise
            return done, (e, "unexpected %s from the library: %s" % (type(ex).__name__, ex))
        done += 1
        v = compare(world, e, res, obs)
        if v is not None:
            if v[0] == "known":
                known.hit(v[1], describe(real, e))
            else:
                return done, (e, v[1])
        if obs != state:
            world.set_state(state)
    return done, None


def make_reals(env, tier_quick, seed):
    """the realisations of one scenario: harness classes and the debian.copyright classes, tame / odd / big"""
    out, skipped = [], []
    plan = [("own", 0), ("own", 1), ("own", 2)]
    for i in range(len(LIBMAP.get(env["id"], []))):
        plan += [(i, 0), (i, 1)] + ([(i, 2)] if i == 0 or not tier_quick else [])
    for mode, stress in plan:
        try:
            out.append(Real(env, mode, seed, stress))
        except Skip as ex:
            skipped.append(str(ex))
    return out, skipped


def replay_lts(ctx, env, edges, rng, known, quick):
    """every edge of one scenario, state by state, rotating over the realisations"""
    by_state = {}
    for e in edges:
        by_state.setdefault(skey(e["from"]), []).append(e)
    reals, skipped = make_reals(env, quick, rng.getrandbits(32))
    for s in skipped:
        ctx.drift(s)
    if not reals:
        raise core.MachineryError("no realisation of scenario %s could be built" % env["id"])
    worlds = [None] * len(reals)      # (world, seed of its construction, groups replayed on it so far)
    n = 0
    per_state = 1        # every state once, rotating over the realisations (thorough: 8x more states)
    for i, (sk, es) in enumerate(by_state.items()):
        for j in range(per_state):
            ri = (i + j * 3) % len(reals)
            real = reals[ri]
            if worlds[ri] is None or len(worlds[ri][2]) >= 20:      # long-lived wrappers, renewed every 20 states
                wseed = rng.getrandbits(32)
                worlds[ri] = (World(real, random.Random(wseed)), wseed, [])
            world, wseed, hist = worlds[ri]
            pseed = rng.getrandbits(32)
            hist.append({"edges": es, "seed": pseed})
            done, viol = replay_state(world, es, random.Random(pseed), known)
            n += done
            if viol:
                e, msg = viol
                groups = hist
                if replay_groups(real, wseed, hist[-1:], Known()) is not None:
                    groups = hist[-1:]          # reproduces on fresh objects: the short case is enough
                ctx.violation({"kind": "edges", "env": env, "mode": real.mode, "rseed": real.seed, "stress": real.stress, "wseed": wseed,
                               "groups": [{"edges": [strip_edge(x) for x in g["edges"]], "seed": g["seed"]} for g in groups]},
                              "%s: %s" % (describe(real, e), msg))
                worlds[ri] = None
                if len(ctx.violations) >= 5:
                    return n, by_state
    return n, by_state


def replay_groups(real, wseed, groups, known):
    """fresh objects, then the recorded groups of edges in order -> None or (edge, message)"""
    world = World(real, random.Random(wseed))
    for g in groups:
        done, viol = replay_state(world, g["edges"], random.Random(g["seed"]), known)
        if viol:
            return viol
    return None


def walk_lts(ctx, env, by_state, rng, known, nwalks, length):
    """random walks from the empty paragraphs with one long-lived world per walk: no resets in between"""
    init = skey([[] for _ in range(env["npara"])])
    reals, _ = make_reals(env, True, rng.getrandbits(32))
    n = 0
    for wi in range(nwalks):
        real = reals[wi % len(reals)]
        pseed = rng.getrandbits(32)
        r = random.Random(pseed)
        path = []
        cur = init
        for _ in range(length):
            outs = by_state[cur]
            e = r.choices(outs, weights=[4 if x["to"] != x["from"] else 1 for x in outs])[0]
            path.append(e)
            cur = skey(e["to"])
        msg = run_path(real, path, random.Random(pseed), known)
        n += 1
        if msg:
            ctx.violation({"kind": "path", "env": env, "path": [strip_edge(x) for x in path], "mode": real.mode,
                           "rseed": real.seed, "stress": real.stress, "seed": pseed}, msg)
            if len(ctx.violations) >= 5:
                break
    return n


def run_path(real, path, rng, known):
    world = World(real, rng)
    expect = path[0]["from"]
    world.set_state(expect)
    for i, e in enumerate(path):
        if e["from"] != expect:       # the walk left the statement's state through a known divergence: re-synchronise
            world.set_state(e["from"])
        try:
            res = world.apply(e["call"], rng)
            if res is None:
                expect = e["from"]
                continue
            obs = world.observe()
        except Exception as ex:      # noqa: BLE001
            if not core.raised_by_code_under_test(ex):
                raise
            return "step %d, %s: unexpected %s from the library: %s" % (i + 1, describe(real, e), type(ex).__name__, ex)
        v = compare(world, e, res, obs)
        expect = e["to"]
        if v is not None:
            if v[0] == "known":
                known.hit(v[1], describe(real, e))
                expect = e["kto"]
            else:
                return "step %d of a walk, %s: %s" % (i + 1, describe(real, e), v[1])
    return None


# ------------------------------------------------------------------ code -> spec: recorded histories

class Intern(object):
    """payloads -> ids (TLC needs equality only); comparison is by code point and by type"""

    def __init__(self):
        self.tab = {"s": {}, "r": {}, "v": {}}

    def _id(self, kind, key):
        t = self.tab[kind]
        if key not in t:
            t[key] = "%s%d" % (kind, len(t) + 1)
        return t[key]

    def s(self, k):
        return self._id("s", k)

    def r(self, v):
        return self._id("r", v) if isinstance(v, str) else self._id("r", ("non-str", repr(v)))

    def v(self, v):
        if v is None:
            return "none"
        return self._id("v", (type(v).__name__, repr(v)))


class ClassSpec(object):
    def __init__(self, cid, real, libname, fields, own, parent):
        self.cid, self.real, self.libname, self.fields, self.own, self.parent = cid, real, libname, fields, own, parent


def _lib_spec(cid, libname, libc):
    fields = [RX.FieldSpec(a, n, libc[c], an) for a, n, c, an in RX.LIB_CLASSES[libname]]
    return ClassSpec(cid, RX.lib_class(libname), libname, fields, [f.name for f in fields], None)


def gen_classes(rng, libc, ownc, want):
    """a family of wrapper classes: the three of debian.copyright, subclasses of them, harness classes and chains"""
    from debian.deb822 import RestrictedWrapper
    specs = []
    pool_names = RX.NAME_POOL + [x[1] for v in RX.LIB_CLASSES.values() for x in v]
    convs = list(ownc.values()) + ([libc["LineBased"], libc["SpaceSep"], libc["License"], libc["single"]] if libc else [])
    idents = ["files", "license", "x_attr", "comment", "value2", "fmt", "source", "_Kx__hidden", "contact", "extra", "more", "other"]

    def new_fields(k, taken):
        out = []
        for _ in range(k):
            name = rng.choice(pool_names)
            if name.lower() in taken:
                continue
            taken.add(name.lower())
            if rng.random() < 0.3:
                name = RX.ascii_swap(rng, name)          # declared in another case than usual
            attr = rng.choice(idents) + str(len(taken))
            out.append(RX.FieldSpec(attr, name, rng.choice(convs), rng.random() < 0.6))
        return out

    while len(specs) < want:
        cid = "c%d" % (len(specs) + 1)
        r = rng.random()
        if libc and r < 0.35:
            specs.append(_lib_spec(cid, rng.choice(["Header", "FilesParagraph", "LicenseParagraph"]), libc))
        elif specs and r < 0.7:
            par = rng.choice(specs)                       # a subclass (of a library class or of a harness class)
            taken = {f.name.lower() for f in par.fields}
            extra = new_fields(rng.choice([0, 0, 1, 2]), taken)
            real = RX.make_class(rng, (par.real,), extra, "Sub")
            specs.append(ClassSpec(cid, real, par.libname, par.fields + extra, [f.name for f in extra], par.cid))
        else:
            fields = new_fields(rng.choice([1, 2, 3, 4]), set())
            real = RX.make_class(rng, (RestrictedWrapper,), fields, "Own")
            specs.append(ClassSpec(cid, real, None, fields, [f.name for f in fields], None))
    return specs


def field_values(rng, conv, stress):
    """values a caller may assign through a field of this conversion (None included)"""
    vals = conv.values(rng, stress)
    out = [v for k, v in vals.items() if k != "X"] + [None]
    return out, vals.get("X")


def record_trace(rng, size):
    """one random history on real objects.  size: 'small' | 'fields' (many fields) | 'wrappers' (many live wrappers)"""
    from debian.deb822 import Deb822, RestrictedWrapper
    from debian import copyright as C
    try:
        libc = RX.lib_convs()
    except AttributeError:
        libc = None
    ownc = RX.own_convs()
    it = Intern()
    specs = gen_classes(rng, libc, ownc, rng.choice([2, 3, 4]) if size != "wrappers" else 5)
    # ---- universe of names
    names = []

    def add_name(x):
        if x.lower() not in {y.lower() for y in names} and RX.ascii_lower(x) not in {RX.ascii_lower(y) for y in names}:
            names.append(x)
    for sp in specs:
        for f in sp.fields:
            add_name(f.name)
    restricted_count = len(names)
    for x in rng.sample(RX.NAME_POOL, 3) + rng.sample(RX.HAZARD_NAMES, 2):
        add_name(x)
    if size == "fields":
        cnt = rng.choice([31, 32, 33, 99, 100, 101, 255, 256, 257] + ([1000] if rng.random() < 0.3 else []))
        for i in range(cnt):
            add_name("X-Extra-%03d%s" % (i, "-" + "y" * rng.choice([1, 15, 16, 17, 63, 64, 65]) if i % 50 == 0 else ""))
    num = {RX.ascii_lower(x): i + 1 for i, x in enumerate(names)}
    nof = lambda k: num.get(RX.ascii_lower(k), 0)      # noqa: E731
    # ---- paragraphs and wrappers
    npara = rng.choice([1, 2, 2, 3])
    stress = rng.choice([0, 1, 1, 2])
    paras, opaque = [], []
    for p in range(npara):
        paras.append(Deb822())
        opaque.append(None)
    wr = []          # (spec, para index, object)
    nwr = rng.choice([1, 2, 3, 4]) if size != "wrappers" else rng.choice([9, 10, 16, 17, 33, 40])

    def raw_for(n_name):
        r = rng.random()
        convs_here = [f.conv for sp in specs for f in sp.fields if f.name.lower() == n_name.lower() and f.conv.kind not in ("id", "sl")]
        if convs_here and r < 0.7:
            cv = rng.choice(convs_here)
            vals = cv.values(rng, rng.choice([0, 1, stress]))
            if r < 0.2:
                return vals["X"]
            t = cv.apply_to(vals[rng.choice(["a", "b"])])
            if t[0] == "raw":
                return t[1]
        return RX.text(rng, rng.choice([0, 1, stress]))

    # initial content (through the paragraph itself)
    init_names = list(names)
    rng.shuffle(init_names)
    for p in range(npara):
        k = rng.choice([0, 1, 2, 4, 6]) if size != "fields" else (len(names) * 9) // 10
        for nm in init_names[:k] if size == "fields" else rng.sample(init_names, min(k, len(init_names))):
            paras[p][RX.ascii_swap(rng, nm) if rng.random() < 0.5 else nm] = raw_for(nm)
    for i in range(nwr):
        sp = rng.choice(specs)
        p = rng.randrange(npara)
        wr.append((sp, p, RX.attach(rng, sp.real, paras[p], sp.libname)))
    # opaque starts: wrappers created by the library itself over paragraphs the harness never holds
    if libc and size == "small" and rng.random() < 0.4:
        root = {n_: next((s_ for s_ in specs if s_.libname == n_ and s_.parent is None), None)
                for n_ in ("Header", "FilesParagraph", "LicenseParagraph")}
        hs, fs, ls = root["Header"], root["FilesParagraph"], root["LicenseParagraph"]

        def add_opaque(sp_, w_):
            paras.append(None)
            opaque.append(w_)
            wr.append((sp_, len(paras) - 1, w_))
        how = rng.randrange(4)
        if hs is not None and how == 0:
            add_opaque(hs, C.Header())
        if fs is not None and how in (1, 3):
            lic = C.License(RX.token(rng, 1), "some text\n\nmore " + RX.tail_char(rng))
            add_opaque(fs, C.FilesParagraph.create([RX.token(rng, stress), "src/*"], RX.text(rng, stress), lic))
        if ls is not None and how in (1, 3):
            add_opaque(ls, C.LicenseParagraph.create(C.License("MIT", "text")))
        if how == 2 and (hs is not None or fs is not None):
            txt = "Format: %s\nUpstream-Name: foo\nX-Foo: bar\n\nFiles: * debian/*\nCopyright: 2024 Some One\nLicense: GPL-2+\n text\n .\n more\n" % C._CURRENT_FORMAT
            cp = C.Copyright(txt.splitlines(True)) if rng.random() < 0.5 else C.Copyright(io_text(txt))
            if hs is not None:
                add_opaque(hs, cp.header)
            if fs is not None:
                add_opaque(fs, list(cp.all_files_paragraphs())[0])
            for nm in ("Format", "Upstream-Name", "X-Foo", "Files", "Copyright", "License"):
                add_name(nm)
            num = {RX.ascii_lower(x): i + 1 for i, x in enumerate(names)}
    npara = len(paras)

    def observe():
        out = []
        for p in range(npara):
            src = paras[p] if paras[p] is not None else opaque[p]
            out.append([{"n": nof(k), "s": it.s(k), "v": it.r(src[k])} for k in src])
        return out

    # ---- env
    kinds = {}
    conv_tab = {}

    def kid(conv):
        if id(conv) not in kinds:
            kinds[id(conv)] = "k%d" % (len(kinds) + 1)
            conv_tab[kinds[id(conv)]] = {"to": {"none": "none"}, "from": {}}
            conv_tab[kinds[id(conv)]]["from"]["none"] = from_entry(conv, None)
        return kinds[id(conv)]

    def from_entry(conv, raw):
        t = conv.apply_from(raw)
        return "fail" if t[0] == "fail" else it.v(t[1])

    def to_entry(conv, v):
        t = conv.apply_to(v)
        return "fail" if t[0] == "fail" else "none" if t[0] == "none" else it.r(t[1])

    classes = {}
    for sp in specs:
        allnames = [f.name for f in sp.fields]
        classes[sp.cid] = {"fields": [{"attr": f.attr, "n": nof(f.name), "s": it.s(f.name), "kind": kid(f.conv), "an": bool(f.an)} for f in sp.fields],
                           "own": [nof(x) for x in sp.own], "all": [nof(x) for x in allnames], "parent": sp.parent or ""}
    env = {"conv": conv_tab, "classes": classes, "wrappers": [{"c": sp.cid, "p": p + 1} for sp, p, _ in wr]}
    init = observe()
    last = init
    rawstr = lambda rid: next(k for k, v in it.tab["r"].items() if v == rid)     # noqa: E731
    pools = {}
    events = []
    nops = {"small": rng.choice([15, 25, 40]), "fields": rng.choice([30, 60]), "wrappers": 60}[size]
    ops = ["getitem"] * 2 + ["setitem"] * 5 + ["delitem"] * 3 + ["aget"] * 4 + ["aset"] * 7 + ["iter", "len", "dump"] + ["has"] * 2 + ["dset"] * 3 + ["ddel"]
    for step in range(nops):
        if rng.random() < 0.08:        # a class defined in the middle of the history must not change the live objects
            sp = rng.choice(specs)
            RX.make_class(rng, (sp.real if rng.random() < 0.5 else RestrictedWrapper,),
                          [RX.FieldSpec("late%d" % step, rng.choice(names), ownc["id"], False)], "Late")
        op = rng.choice(ops)
        wi = rng.randrange(len(wr))
        sp, p, w = wr[wi]
        if op in ("dset", "ddel"):
            cand = [q for q in range(npara) if paras[q] is not None]
            if not cand:
                op = "setitem"
            else:
                p = rng.choice(cand)
        present = [e["n"] for e in last[p]]
        r = rng.random()
        if r < 0.45 and sp.fields:
            nm = rng.choice(sp.fields).name
        elif r < 0.7 and present:
            nm = names[rng.choice(present) - 1]
        else:
            nm = rng.choice(names[:restricted_count + 5]) if rng.random() < 0.8 else rng.choice(names)
        key = RX.ascii_swap(rng, nm) if rng.random() < 0.6 else nm
        ev = {"w": wi + 1, "op": op, "n": 0, "s": "", "v": "", "a": "", "p": 0}
        fails = ()
        if op in ("getitem", "setitem", "delitem", "has", "dset", "ddel"):
            ev["n"] = nof(nm)
            ev["s"] = it.s(key)
        raw = val = attr = None
        if op in ("setitem", "dset"):
            raw = raw_for(nm)
            ev["v"] = it.r(raw)
        if op in ("dset", "ddel"):
            ev["w"], ev["p"] = 0, p + 1
            obj = paras[p]
        else:
            obj = w
        if op in ("aget", "aset"):
            if not sp.fields:
                continue
            f = rng.choice(sp.fields)
            attr, fails = f.attr, f.conv.fails
            ev["a"] = f.attr
            k = kid(f.conv)
            cur = next((e["v"] for e in last[p] if e["n"] == nof(f.name)), None)
            if op == "aget":
                rid = "none" if cur is None else cur
                if rid not in conv_tab[k]["from"]:
                    conv_tab[k]["from"][rid] = from_entry(f.conv, rawstr(rid))
            else:
                if (f.attr, id(f.conv)) not in pools or rng.random() < 0.2:
                    pools[(f.attr, id(f.conv))] = field_values(rng, f.conv, rng.choice([0, 1, stress]))[0]
                val = rng.choice(pools[(f.attr, id(f.conv))])
                ev["v"] = it.v(val)
                if val is not None:
                    conv_tab[k]["to"][ev["v"]] = to_entry(f.conv, val)
        tag, x = RX.perform(obj, op, key=key, raw=raw, attr=attr, val=val, fails=fails, rng=rng)
        if tag == "val":
            x = it.r(x)
        elif tag == "attr":
            x = it.v(x)
        elif tag == "keys":
            x = [it.s(k) for k in x]
        elif tag == "bool":
            x = "true" if x is True else "false" if x is False else "?%r" % (x,)
        obs = observe()
        if tag == "dump":
            mode, txt = x
            if paras[p] is not None:
                ref = RX.dump_via(paras[p], None, mode)[1]
            else:       # an opaque paragraph: the dump of a Deb822 holding the same items in the same order
                twin = Deb822()
                for k in w:
                    twin[k] = w[k]
                ref = RX.dump_via(twin, None, mode)[1]
            x = obs[p] if txt == ref else [{"n": 0, "s": "?dump() form %d differs from the dump of the paragraph" % mode, "v": it.r(txt)}]
        ev["res"] = {"t": tag, "x": x}
        ev["obs"] = obs
        events.append(ev)
        last = obs
    return {"env": env, "init": init, "events": events}, it


def io_text(txt):
    import io
    return io.StringIO(txt)


def corrupt(t, how):
    """negative controls: histories the specification must NOT accept"""
    import copy
    prev = t["init"]
    for i, e in enumerate(t["events"]):
        c = None
        if how == "restricted-ok" and e["res"] == {"t": "err", "x": "RestrictedFieldError"}:
            c = dict(e, res={"t": "ok", "x": ""})
        elif how == "attr-value" and e["res"]["t"] == "attr":
            c = dict(e, res={"t": "attr", "x": "v-other"})
        elif how == "order" and e["op"] in ("aset", "setitem", "dset") and any(len(m) >= 2 for m in e["obs"]):
            obs = copy.deepcopy(e["obs"])
            m = next(m for m in obs if len(m) >= 2)
            m[0], m[1] = m[1], m[0]
            c = dict(e, obs=obs)
        elif how == "leak" and len(e["obs"]) >= 2 and e["op"] in ("aset", "setitem") and e["res"]["t"] == "ok" and e["obs"] != prev:
            obs = copy.deepcopy(e["obs"])
            q = next(j for j in range(len(obs)) if j != t["env"]["wrappers"][e["w"] - 1]["p"] - 1)
            obs[q] = obs[q] + [{"n": 1, "s": "s-leak", "v": "r-leak"}] if not obs[q] else obs[q][:-1]
            c = dict(e, obs=obs)
        elif how == "none-kept" and e["op"] == "aset" and e["res"]["t"] == "ok" and e["obs"] != prev and sum(map(len, e["obs"])) < sum(map(len, prev)):
            c = dict(e, obs=prev)
        elif how == "typeerror-ok" and e["res"] == {"t": "err", "x": "TypeError"}:
            c = dict(e, res={"t": "ok", "x": ""})
        elif how == "keyerror" and e["op"] == "getitem" and e["res"]["t"] == "val":
            c = dict(e, res={"t": "err", "x": "KeyError"})
        if c is not None:
            return {"env": t["env"], "init": t["init"], "events": t["events"][:i] + [c]}
        prev = e["obs"]
    return None


HOWS = ["restricted-ok", "attr-value", "order", "leak", "none-kept", "typeerror-ok", "keyerror"]

STATIC_CONTROL = {
    "env": {"conv": {"k1": {"to": {"v1": "r1", "none": "none"}, "from": {"r1": "v1", "none": "none"}}},
            "classes": {"c1": {"fields": [{"attr": "files", "n": 1, "s": "s1", "kind": "k1", "an": False}], "own": [1], "all": [1], "parent": ""}},
            "wrappers": [{"c": "c1", "p": 1}]},
    "init": [[]],
    "events": [{"w": 1, "op": "setitem", "n": 1, "s": "s1", "v": "r1", "a": "", "p": 0, "res": {"t": "ok", "x": ""},
                "obs": [[{"n": 1, "s": "s1", "v": "r1"}]]}]}


def validate(ctx, traces, with_controls=True, known_ids=None):
    """-> (rejected trace numbers, first unexplained event per rejected trace, known notes [(tid, id, event)])"""
    known_ids = KNOWN_IDS if known_ids is None else known_ids
    controls = []
    if with_controls:
        controls.append(STATIC_CONTROL)
        for how in HOWS:
            for t in traces:
                c = corrupt(t, how)
                if c:
                    controls.append(c)
                    break
    env = {"TRACE_DIAG": "0", "KNOWN_SUB": "1" if K_SUB in known_ids else "0", "KNOWN_INX": "1" if K_INX in known_ids else "0"}
    acc, _, r = core.validate_traces(ctx, "TraceRestrictedWrap", "TraceRestrictedWrap.cfg", traces, extra_env=env, controls=controls)
    notes = [tuple(x) for x in r.printed.get("REJECT", []) if x[0] <= len(traces)]
    rejected = [i for i in range(1, len(traces) + 1) if i not in acc]
    info = {}
    if rejected:
        sub = [traces[i - 1] for i in rejected[:10]]
        _, prog, _ = core.validate_traces(ctx, "TraceRestrictedWrap", "TraceRestrictedWrap.cfg", sub, extra_env=dict(env, TRACE_DIAG="1"))
        for j, i in enumerate(rejected[:10]):
            info[i] = prog.get(j + 1, 0)
    return rejected, info, notes, len(controls)


def describe_event(tr, it, at):
    rev = {k: {v: key for key, v in tab.items()} for k, tab in it.tab.items()}
    if at >= len(tr["events"]):
        return "(end of history)"
    e = tr["events"][at]
    bits = ["event %d: %s" % (at + 1, e["op"])]
    if e["w"]:
        wr = tr["env"]["wrappers"][e["w"] - 1]
        c = tr["env"]["classes"][wr["c"]]
        bits.append("wrapper %d (class %s%s restricting names %s / inherited %s, paragraph %d)" % (
            e["w"], wr["c"], " subclass of " + c["parent"] if c["parent"] else "", c["own"], c["all"], wr["p"]))
    if e["s"]:
        bits.append("key %r (name %d)" % (rev["s"].get(e["s"]), e["n"]))
    if e["a"]:
        bits.append("attribute %s" % e["a"])
    if e["v"]:
        v = rev["r"].get(e["v"]) if e["v"].startswith("r") else rev["v"].get(e["v"], e["v"])
        bits.append("value %s" % (repr(v)[:200],))
    x = e["res"]["x"]
    if e["res"]["t"] == "attr":
        x = rev["v"].get(x, x)
    elif e["res"]["t"] == "val":
        x = rev["r"].get(x, x)
    bits.append("-> %s %s" % (e["res"]["t"], repr(x)[:300]))
    prev = tr["events"][at - 1]["obs"] if at else tr["init"]
    show = lambda ps: [[(rev["s"].get(y["s"], y["s"]), (rev["r"].get(y["v"], y["v"]) or "")[:40]) for y in m][:8] for m in ps]   # noqa: E731
    bits.append("paragraphs before %s after %s" % (repr(show(prev))[:500], repr(show(e["obs"]))[:500]))
    return ", ".join(bits)


def meta_probe():
    """_ClassInitMeta as documented: _class_init is called once, right after the class is created, with the
    attributes added in the definition of that class (also for subclasses).  -> None or a message"""
    from debian.deb822 import _ClassInitMeta
    calls = []

    class Base(metaclass=_ClassInitMeta):
        alpha = 1

        @classmethod
        def _class_init(cls, new_attrs):
            calls.append((cls.__name__, dict(new_attrs), hasattr(cls, "alpha")))

    class Child(Base):
        beta = 2

    Other = _ClassInitMeta("Other", (Base,), {"gamma": 3})
    if [c[0] for c in calls] != ["Base", "Child", "Other"]:
        return "_class_init calls: %r, expected one per class created (Base, Child, Other)" % ([c[0] for c in calls],)
    for (name, attrs, ready), (must, mustnot) in zip(calls, [({"alpha"}, {"beta"}), ({"beta"}, {"alpha"}), ({"gamma"}, {"alpha", "beta"})]):
        if not must <= set(attrs) or mustnot & set(attrs):
            return "_class_init of %s received %r, expected the attributes of its own definition" % (name, sorted(attrs))
        if not ready:
            return "_class_init of %s ran before the class was complete" % name
    if Other.gamma != 3 or Child.alpha != 1:
        return "classes created through _ClassInitMeta lost their attributes"
    return None


# ------------------------------------------------------------------ the check

def run(ctx):
    quick = ctx.tier == "quick"
    rng = ctx.rng
    ctx.import_repo()
    tm = ctx.extra.setdefault("phase_wall_s", {})
    known = Known()
    ctx.assumptions += [
        "model scope: 7 scenarios, 3 names x 2 spellings x 3 raw values, paragraphs of <= %d fields, conversion kinds id/sl/list/obj/objn as tables" % (2 if quick else 3),
        "conversion functions (from_str / to_str) are inputs of the subsystem: the harness applies them to derive raw strings and to fill the tables of a recorded history",
        "domain: str keys that are ASCII case variants or differ under str.lower(); raw values valid for Deb822 (no trailing newline, continuation lines start with white space); no str.splitlines() boundary but newline in payloads of the line-based converters",
        "trusted: TLC, Deb822 itself (C09) as the paragraph and as reference for dump(), the projection list(paragraph) / paragraph[k]",
    ]
    maxlen = 2 if quick else 3
    pool = ThreadPoolExecutor(max_workers=7 if quick else 4)
    t0 = time.time()

    def emit(sc):
        r = ctx.tlc_must_hold("RestrictedWrapMC", cfg_text([sc], maxlen, True), workers=1, keep_raw=True, want_tags=set())
        envs, edges = read_emission(r.raw_path)
        import shutil
        shutil.rmtree(os.path.dirname(r.raw_path), ignore_errors=True)
        if len(envs) != 1 or not edges:
            raise core.MachineryError("scenario %s: TLC emitted %d ENV / %d EDGE lines" % (sc, len(envs), len(edges)))
        return envs[0], edges, r

    def neg(cfg, prop):
        r = ctx.tlc("RestrictedWrapMC", cfg, workers=1, count=False)
        if r.violated != prop:
            raise core.MachineryError("negative control %s: TLC reported %r, expected a violation of %s" % (cfg, r.violated, prop))
        return prop

    order = ["sub", "hdrB", "two", "hdrA", "filA", "licA", "filB"]        # biggest first
    futs = {sc: pool.submit(emit, sc) for sc in order}
    negf = [pool.submit(neg, c, p) for c, p in NEG_CONTROLS]

    # ---- code -> spec: record while TLC runs
    t1 = time.time()
    msg = meta_probe_safe()
    ctx.case_seen(("probe", "meta"), True)
    if msg:
        ctx.violation({"kind": "probe"}, msg)
    if quick:
        plan = ["small"] * 330 + ["fields"] * 3 + ["wrappers"] * 3
    else:
        plan = ["small"] * 2800 + ["fields"] * 24 + ["wrappers"] * 24
    traces, seeds, its = [], [], []
    for size in plan:
        tseed = rng.getrandbits(32)
        try:
            tr, it = record_trace(random.Random(tseed), size)
        except Exception as ex:      # noqa: BLE001
            if not core.raised_by_code_under_test(ex):
                raise
            import traceback
            if len(ctx.violations) < 5:
                ctx.violation({"kind": "record", "seed": tseed, "size": size},
                              "unexpected %s from the library while recording a history: %s" % (type(ex).__name__, traceback.format_exc().strip().splitlines()[-3:]))
            continue
        traces.append(tr)
        seeds.append((tseed, size))
        its.append(it)
    tm["record"] = round(time.time() - t1, 1)
    batch = 350 if quick else 700
    vpool = ThreadPoolExecutor(max_workers=1 if quick else 3)
    vfuts = [(i, vpool.submit(validate, ctx, traces[i:i + batch])) for i in range(0, len(traces), batch)]

    # ---- spec -> code: replay of the LTS, scenario by scenario as the emissions arrive
    t2 = time.time()
    nedges = nreplayed = nwalks = 0
    per_op, states = {}, {}
    for sc in order:
        env, edges, r = futs[sc].result()
        nedges += len(edges)
        for e in edges:
            per_op[e["call"]["op"]] = per_op.get(e["call"]["op"], 0) + 1
        if len(ctx.violations) >= 5:
            continue
        n, by_state = replay_lts(ctx, env, edges, rng, known, quick)
        nreplayed += n
        states[sc] = {"states": r.distinct, "edges": len(edges), "tlc_wall_s": round(r.wall, 1)}
        if len(ctx.violations) < 5:
            nwalks += walk_lts(ctx, env, by_state, rng, known, 25 if quick else 250, 30 if quick else 50)
        if sc == "hdrA":
            e = edges[len(edges) // 2]
            ctx.sample("lts edge: " + json.dumps({k: e[k] for k in ("cfg", "from", "call", "res", "to")}, separators=(",", ":")))
    tm["emit_and_replay"] = round(time.time() - t2, 1)
    ctx.evaluations += nreplayed + nwalks
    for sc in order:
        ctx.distinct.add(("scenario", sc))
    ctx.extra["lts"] = states
    ctx.extra["edges_per_action"] = per_op
    ctx.extra["edges_replayed"] = nreplayed
    ctx.extra["walks"] = nwalks
    ctx.extra["negative_controls_spec"] = [f.result() for f in negf]
    pool.shutdown()

    # ---- verdicts of the trace validation
    t3 = time.time()
    nrej = ncontrols = 0
    for base, f in vfuts:
        rejected, info, notes, nc = f.result()
        ncontrols += nc
        for tid, kid_, l in notes:
            known.hit(kid_, describe_event(traces[base + tid - 1], its[base + tid - 1], l - 1))
        for i in rejected:
            nrej += 1
            if len(ctx.violations) >= 5:
                continue
            at = info.get(i, 0)
            tseed, size = seeds[base + i - 1]
            ctx.violation({"kind": "record", "seed": tseed, "size": size, "first_unexplained_event": at + 1},
                          "recorded history not explained by RestrictedWrap (after %d accepted events): %s"
                          % (at, describe_event(traces[base + i - 1], its[base + i - 1], at)))
    vpool.shutdown()
    tm["validate_wait"] = round(time.time() - t3, 1)
    ctx.traces += nwalks + sum(v["states"] for v in states.values()) + len(traces)
    ctx.evaluations += len(traces)
    for i in range(len(traces)):
        ctx.distinct.add(("trace", i))
    ctx.extra["traces_recorded"] = len(traces)
    ctx.extra["trace_events"] = sum(len(t["events"]) for t in traces)
    ctx.extra["traces_rejected"] = nrej
    ctx.extra["control_traces"] = ncontrols
    if traces:
        t = traces[0]
        ctx.sample("recorded history (first 2 events): " + json.dumps({"wrappers": t["env"]["wrappers"], "events": [dict(e, obs="...") for e in t["events"][:2]]},
                                                                      separators=(",", ":"), ensure_ascii=False)[:600])
    ctx.extra["known_findings"] = {k["id"]: {"occurrences": known.hits.get(k["id"], 0), "example": known.example.get(k["id"])} for k in KNOWN}
    tm["total"] = round(time.time() - t0, 1)
    for k in KNOWN:
        if known.hits.get(k["id"]):
            print("KNOWN-FINDING: extra=X07 %s (%d occurrences; id=%s; e.g. %s)" % (k["signature"], known.hits[k["id"]], k["id"], known.example[k["id"]][:300]))


def meta_probe_safe():
    try:
        return meta_probe()
    except Exception as ex:      # noqa: BLE001 -- whatever the probe raises is an observation about _ClassInitMeta
        return "_ClassInitMeta probe raised %s: %s" % (type(ex).__name__, ex)


def replay(ctx, case):
    ctx.import_repo()
    known = Known()
    kind = case.get("kind")
    if kind == "probe":
        return meta_probe_safe()
    if kind in ("edges", "path"):
        try:
            real = Real(case["env"], case["mode"], case["rseed"], case["stress"])
        except Skip as ex:
            return "realisation cannot be built: %s" % ex
        if kind == "path":
            return run_path(real, case["path"], random.Random(case["seed"]), known)
        viol = replay_groups(real, case["wseed"], case["groups"], known)
        return "%s: %s" % (describe(real, viol[0]), viol[1]) if viol else None
    if kind == "record":
        try:
            tr, it = record_trace(random.Random(case["seed"]), case["size"])
        except Exception as ex:      # noqa: BLE001
            if not core.raised_by_code_under_test(ex):
                raise
            return "unexpected %s from the library while recording the history" % type(ex).__name__
        rejected, info, notes, _ = validate(ctx, [tr], with_controls=False)
        if rejected:
            return "history still not explained by the specification: %s" % describe_event(tr, it, info.get(1, 0))
        return None
    return "unknown case kind"
